(* C02 -- executable model of the pipeline runner (lenskit/pipeline/runner.py after the fix:
   commits 9de96b1, aaba51f), of Pipeline.run / run_all (_impl.py), and of the builder side that
   matters for a run: default-connection resolution and the cycle check of build_config
   (builder.py after bb5d298).  Definitions only; proofs are in Proofs/C02_*.v.

   Reading guide (source line -> definition):
     PipelineRunner.run            -> run_step   (status dispatch, in-progress/failed marks, exit lookup)
     _run_node/_inject_input       -> run_node   (literal / input / component)
     _run_component (input loop)   -> run_args   (wiring lookup, lazy test, ireq, bail-out, type check)
     comp( **in_data ) + Lazy.get  -> exec       (the component body is an interaction tree [prog];
                                                  [Force i] is `in_data[i].get()` = DeferredRun.get)
     Pipeline.run_all / run        -> run_list, run_all, pipeline_run
     build_config                  -> resolve_param, build;  validate -> acyclic_b
   The specification side (memo-free evaluation of the graph) is [den] at the end. *)
From Coq Require Import ZArith List Bool Arith.
Import ListNotations.

Definition name := nat.

(* Values that flow through a pipeline: an int, a bool (VBool 0 / VBool 1: an int for isinstance, but a
   different object than the int that is == to it -- a component can tell them apart), an object that
   is neither an int nor an array (VStr: a str -- including one spelled like a node name or alias --, a
   float, a list, a dict, a tuple, a NumPy scalar, ...; the number only tells them apart, in particular 1.0
   and np.int64(1) are VStr values other than VInt 1), a float64 array, an int64 array. *)
Inductive val := VInt (z : Z) | VStr (z : Z) | VArrF (z : Z) | VArrI (z : Z) | VBool (z : Z).
Definition is_int (v : val) : bool := match v with VInt _ | VBool _ => true | _ => false end.
(* what a (non-None part of a) parameter annotation accepts: int, np.ndarray[Any, np.dtype[np.float64]],
   np.ndarray[Any, np.dtype[np.int64]] -- the last two depend on the dtype of the value, not on its class --,
   bool (an int that is not a bool is refused) *)
Inductive tykind := TInt | TFloatVec | TIntVec | TBool.
Definition accepts (t : tykind) (v : val) : bool :=
  match t, v with
  | TInt, VInt _ => true
  | TInt, VBool _ => true
  | TBool, VBool _ => true
  | TFloatVec, VArrF _ => true
  | TIntVec, VArrI _ => true
  | _, _ => false
  end.

(* Error classes as observed at Pipeline.run:
   EMissing  PipelineError("input .. not specified" / "no data available ..") or KeyError(node)
   EType     TypeError from a run-time type check
   ECycle    PipelineError("pipeline cycle encountered ..")
   EFailed   RuntimeError(".. previously failed")
   ENoNode   a name that is not a node / a body forcing a parameter it does not have (never generated)
   EFuel     the model's recursion bound was hit (never, see fuel lemmas)
   EComp k   the exception object number k raised by a component body *)
Inductive exn := EMissing | EType | ECycle | EFailed | ENoNode | EFuel | EComp (k : Z).
Inductive result := Ok (v : option val) | Err (e : exn).

(* Component body: an interaction tree over forcing lazy inputs.
   [Force i k]      `v = in_data[i].get()`, then k v; an exception of the forced input propagates.
   [TryForce i k h] `try: v = in_data[i].get()  except Exception as e: <h e>  else: <k v>` -- the body
                    catches whatever the forced input raised (the component's own exception, a runner
                    diagnostic, the TypeError of DeferredRun.get's own type check) and carries on. *)
Inductive prog :=
| Ret (v : option val)
| Raise (e : exn)
| Force (i : nat) (k : option val -> prog)
| TryForce (i : nat) (k : option val -> prog) (h : exn -> prog).

(* A parameter after wiring resolution.  typed=false: no annotation (or a bare TypeVar, which
   accepts everything).  nullable: the annotation accepts None. *)
Record param := { p_src : option name; p_lazy : bool; p_typed : bool; p_nullable : bool; p_ty : tykind }.

Inductive node :=
| Input (typed nullable : bool)
| Literal (v : val)
| Comp (ps : list param) (body : list (option val) -> prog).

Definition graph := list (name * node).

Fixpoint lookup {A} (n : nat) (l : list (nat * A)) : option A :=
  match l with [] => None | (m, x) :: t => if Nat.eqb n m then Some x else lookup n t end.

Definition is_none {A} (o : option A) : bool := match o with None => true | Some _ => false end.

(* is_compatible_data(v, itype) for the annotations T / T|None / none, T one of [tykind] *)
Definition compat (typed nullable : bool) (t : tykind) (v : option val) : bool :=
  if typed then match v with None => nullable | Some x => accepts t x end else true.
Definition p_compat (p : param) (v : option val) : bool := compat (p_typed p) (p_nullable p) (p_ty p) v.
(* `not is_compatible_data(None, itype)` with a truthy itype *)
Definition p_strict (p : param) : bool := p_typed p && negb (p_nullable p).

(* ------------------------------------------------------------------------------------------ *)
(* runner state                                                                                 *)
(* ------------------------------------------------------------------------------------------ *)

(* "failed" carries the exception as a ghost annotation (Python keeps only the word) *)
Inductive status := Pending | InProgress | Finished | Failed (e : exn).

Record st := {
  stat : name -> status;                 (* PipelineRunner.status *)
  vals : name -> option (option val);    (* PipelineRunner.state : None = no entry *)
  log  : list name                       (* components whose body was called, latest first *)
}.
Definition init : st := {| stat := fun _ => Pending; vals := fun _ => None; log := [] |}.
Definition set_stat (s : st) (n : name) (x : status) : st :=
  {| stat := fun m => if Nat.eqb m n then x else stat s m; vals := vals s; log := log s |}.
Definition set_val (s : st) (n : name) (v : option val) : st :=
  {| stat := stat s; vals := fun m => if Nat.eqb m n then Some v else vals s m; log := log s |}.
Definition add_log (s : st) (n : name) : st :=
  {| stat := stat s; vals := vals s; log := n :: log s |}.

(* `return self.state[name]` guarded by `required` -- the exit of run() and, since 9de96b1, also its
   finished branch:  present -> value;  absent -> KeyError if required else None *)
Definition finish_lookup (s : st) (n : name) (required : bool) : st * result :=
  match vals s n with
  | Some v => (s, Ok v)
  | None => if required then (s, Err EMissing) else (s, Ok None)
  end.

Inductive ares := AOk (a : list (option val)) | ABail | AErr (e : exn).

Section Run.
Variable g : graph.
Variable inputs : list (name * val).      (* supplied, non-None run inputs *)

Section Step.
(* the recursive call self.run(snode, required=ireq) *)
Variable rec : st -> name -> bool -> st * result.

(* the `for iname, itype in inputs.items()` loop of _run_component; acc is in_data, reversed *)
Fixpoint run_args (required : bool) (ps : list param) (s : st) (acc : list (option val)) : st * ares :=
  match ps with
  | [] => (s, AOk (rev acc))
  | p :: ps' =>
      let '(s1, iv) :=
        match p_src p with
        | None => (s, Ok None)                                   (* snode is None: ival = None *)
        | Some src =>
            if p_lazy p then (s, Ok None)                        (* a DeferredRun object; nothing runs *)
            else rec s src (required && p_strict p)              (* ireq *)
        end in
      match iv with
      | Err e => (s1, AErr e)
      | Ok v =>
          if p_lazy p then run_args required ps' s1 (v :: acc)
          else if is_none v && p_strict p && negb required then (s1, ABail)
          else if p_typed p && negb (p_compat p v)
               then (s1, AErr (if is_none v then EMissing else EType))
          else run_args required ps' s1 (v :: acc)
      end
  end.

(* running the body; Force i = DeferredRun.get of parameter i *)
Fixpoint exec (ps : list param) (required : bool) (p : prog) (s : st) : st * result :=
  match p with
  | Ret v => (s, Ok v)
  | Raise e => (s, Err e)
  | Force i k =>
      match nth_error ps i with
      | None => (s, Err ENoNode)
      | Some q =>
          if negb (p_lazy q) then (s, Err ENoNode)
          else match p_src q with
               | None => exec ps required (k None) s             (* unwired lazy parameter: the body got None *)
               | Some src =>
                   let '(s1, r) := rec s src (required && p_strict q) in
                   match r with
                   | Err e => (s1, Err e)
                   | Ok v => if p_typed q && negb (p_compat q v) then (s1, Err EType)
                             else exec ps required (k v) s1
                   end
               end
      end
  | TryForce i k h =>
      match nth_error ps i with
      | None => (s, Err ENoNode)
      | Some q =>
          if negb (p_lazy q) then (s, Err ENoNode)
          else match p_src q with
               | None => exec ps required (k None) s
               | Some src =>
                   let '(s1, r) := rec s src (required && p_strict q) in
                   match r with
                   | Err e => exec ps required (h e) s1               (* caught: the body carries on *)
                   | Ok v => if p_typed q && negb (p_compat q v) then exec ps required (h EType) s1
                             else exec ps required (k v) s1
                   end
               end
      end
  end.

(* _run_node: Ok _ = returned normally (value, if any, is in the state) *)
Definition run_node (s : st) (n : name) (required : bool) : st * result :=
  match lookup n g with
  | None => (s, Err ENoNode)
  | Some (Literal v) => (set_val s n (Some v), Ok None)
  | Some (Input typed nullable) =>
      match lookup n inputs with
      | None =>
          if typed && negb nullable
          then (if required then (s, Err EMissing) else (s, Ok None))      (* aaba51f: nothing stored *)
          else (set_val s n None, Ok None)
      | Some v =>
          if typed && negb (is_int v) then (s, Err EType) else (set_val s n (Some v), Ok None)
      end
  | Some (Comp ps body) =>
      match run_args required ps s [] with
      | (s1, AErr e) => (s1, Err e)
      | (s1, ABail) => (s1, Ok None)
      | (s1, AOk a) =>
          match exec ps required (body a) (add_log s1 n) with
          | (s2, Err e) => (s2, Err e)
          | (s2, Ok v) => (set_val s2 n v, Ok None)
          end
      end
  end.

(* PipelineRunner.run *)
Definition run_step (s : st) (n : name) (required : bool) : st * result :=
  match stat s n with
  | Finished => finish_lookup s n required
  | InProgress => (s, Err ECycle)
  | Failed _ => (s, Err EFailed)
  | Pending =>
      match run_node (set_stat s n InProgress) n required with
      | (s1, Err e) => (set_stat s1 n (Failed e), Err e)
      | (s1, Ok _) => finish_lookup (set_stat s1 n Finished) n required
      end
  end.
End Step.

(* Python recursion, bounded by fuel (depth never exceeds the number of nodes + 1) *)
Fixpoint run (fuel : nat) : st -> name -> bool -> st * result :=
  match fuel with
  | O => fun s _ _ => (s, Err EFuel)
  | S f => run_step (run f)
  end.

(* run_all: `for node in node_list: runner.run(node)` on a fresh runner *)
Fixpoint run_list (fuel : nat) (s : st) (ns : list name) : st * option exn :=
  match ns with
  | [] => (s, None)
  | n :: t => match run fuel s n true with
              | (s1, Err e) => (s1, Some e)
              | (s1, Ok _) => run_list fuel s1 t
              end
  end.

Definition requests (ns : list name) : list name :=
  match ns with [] => map fst g | _ => ns end.

Definition run_all (fuel : nat) (ns : list name) : st * option exn := run_list fuel init (requests ns).

(* Pipeline.run(tuple): values of the requested nodes, or the exception *)
Inductive outcome := Values (vs : list (option val)) | Raised (e : exn).
Definition value_in (s : st) (n : name) : option val :=
  match vals s n with Some v => v | None => None end.
Definition pipeline_run (fuel : nat) (ns : list name) : outcome :=
  match run_all fuel ns with
  | (_, Some e) => Raised e
  | (s, None) => Values (map (value_in s) ns)
  end.

(* ------------------------------------------------------------------------------------------ *)
(* specification: memo-free big-step evaluation of the graph, with the trace of executed bodies *)
(* ------------------------------------------------------------------------------------------ *)

Inductive dres := DVal (v : option val) | DSkip | DErr (e : exn).
Definition to_opt (d : dres) : option val := match d with DVal v => v | _ => None end.
Inductive dares := DAOk (a : list (option val)) | DABail | DAErr (e : exn).

Section DStep.
Variable drec : name -> bool -> dres * list name.

Fixpoint den_args (required : bool) (ps : list param) (acc : list (option val)) (tr : list name)
  : dares * list name :=
  match ps with
  | [] => (DAOk (rev acc), tr)
  | p :: ps' =>
      let '(iv, tr1) :=
        match p_src p with
        | None => (DVal None, tr)
        | Some src => if p_lazy p then (DVal None, tr)
                      else let '(d, t) := drec src (required && p_strict p) in (d, tr ++ t)
        end in
      match iv with
      | DErr e => (DAErr e, tr1)
      | _ =>
          let v := to_opt iv in
          if p_lazy p then den_args required ps' (v :: acc) tr1
          else if is_none v && p_strict p && negb required then (DABail, tr1)
          else if p_typed p && negb (p_compat p v)
               then (DAErr (if is_none v then EMissing else EType), tr1)
          else den_args required ps' (v :: acc) tr1
      end
  end.

Fixpoint den_exec (ps : list param) (required : bool) (p : prog) (tr : list name) : dres * list name :=
  match p with
  | Ret v => (DVal v, tr)
  | Raise e => (DErr e, tr)
  | Force i k =>
      match nth_error ps i with
      | None => (DErr ENoNode, tr)
      | Some q =>
          if negb (p_lazy q) then (DErr ENoNode, tr)
          else match p_src q with
               | None => den_exec ps required (k None) tr
               | Some src =>
                   let '(d, t) := drec src (required && p_strict q) in
                   match d with
                   | DErr e => (DErr e, tr ++ t)
                   | _ => let v := to_opt d in
                          if p_typed q && negb (p_compat q v) then (DErr EType, tr ++ t)
                          else den_exec ps required (k v) (tr ++ t)
                   end
               end
      end
  | TryForce i k h =>
      match nth_error ps i with
      | None => (DErr ENoNode, tr)
      | Some q =>
          if negb (p_lazy q) then (DErr ENoNode, tr)
          else match p_src q with
               | None => den_exec ps required (k None) tr
               | Some src =>
                   let '(d, t) := drec src (required && p_strict q) in
                   match d with
                   | DErr e => den_exec ps required (h e) (tr ++ t)
                   | _ => let v := to_opt d in
                          if p_typed q && negb (p_compat q v) then den_exec ps required (h EType) (tr ++ t)
                          else den_exec ps required (k v) (tr ++ t)
                   end
               end
      end
  end.

(* value of a node for a consumer that does (required) or does not require it.
   DSkip = "no value" (a component that did not run because a non-optional input had no value, or a
   missing non-optional input); it is only ever produced for required = false. *)
Definition den_step (n : name) (required : bool) : dres * list name :=
  match lookup n g with
  | None => (DErr ENoNode, [])
  | Some (Literal v) => (DVal (Some v), [])
  | Some (Input typed nullable) =>
      match lookup n inputs with
      | None => if typed && negb nullable
                then (if required then (DErr EMissing, []) else (DSkip, []))
                else (DVal None, [])
      | Some v => if typed && negb (is_int v) then (DErr EType, []) else (DVal (Some v), [])
      end
  | Some (Comp ps body) =>
      match den_args required ps [] [] with
      | (DAErr e, tr) => (DErr e, tr)
      | (DABail, tr) => (if required then DErr EMissing else DSkip, tr)
      | (DAOk a, tr) => den_exec ps required (body a) (tr ++ [n])
      end
  end.
End DStep.

Fixpoint den (fuel : nat) : name -> bool -> dres * list name :=
  match fuel with
  | O => fun _ _ => (DErr EFuel, [])
  | S f => den_step (den f)
  end.

(* what Pipeline.run(ns) must return: the values of the requested nodes, or the first error in
   request order; and the components a run may execute *)
Fixpoint den_list (fuel : nat) (ns : list name) : list (option val) + exn :=
  match ns with
  | [] => inl []
  | n :: t => match fst (den fuel n true) with
              | DVal v => match den_list fuel t with inl vs => inl (v :: vs) | inr e => inr e end
              | DSkip => inr EMissing
              | DErr e => inr e
              end
  end.
Definition den_outcome (fuel : nat) (ns : list name) : outcome :=
  match den_list fuel (requests ns) with
  | inr e => Raised e
  | inl _ => Values (map (fun n => to_opt (fst (den fuel n true))) ns)
  end.
(* root needs c: the memo-free evaluation of root executes the body of c *)
Definition needs (fuel : nat) (root c : name) : Prop := In c (snd (den fuel root true)).

End Run.

(* ------------------------------------------------------------------------------------------ *)
(* builder side                                                                                 *)
(* ------------------------------------------------------------------------------------------ *)

Record bparam := { bp_name : nat; bp_conn : option name; bp_lazy : bool; bp_typed : bool; bp_nullable : bool; bp_ty : tykind }.
Inductive bnode :=
| BInput (typed nullable : bool)
| BLiteral (v : val)
| BComp (ps : list bparam) (body : list (option val) -> prog).

Record builder := {
  b_nodes : list (name * bnode);        (* in declaration order *)
  b_defaults : list (nat * name);       (* default_connection(param name) = node *)
  b_aliases : list (name * name)        (* alias -> node *)
}.

(* build_config: `if iname not in c_ins and iname in self._default_connections` *)
Definition resolve_param (defaults : list (nat * name)) (p : bparam) : param :=
  {| p_src := match bp_conn p with Some s => Some s | None => lookup (bp_name p) defaults end;
     p_lazy := bp_lazy p; p_typed := bp_typed p; p_nullable := bp_nullable p; p_ty := bp_ty p |}.
Definition resolve_node (defaults : list (nat * name)) (nd : bnode) : node :=
  match nd with
  | BInput t n => Input t n
  | BLiteral v => Literal v
  | BComp ps body => Comp (map (resolve_param defaults) ps) body
  end.
Definition resolve (b : builder) : graph :=
  map (fun nn => (fst nn, resolve_node (b_defaults b) (snd nn))) (b_nodes b).

Definition sources (nd : node) : list name :=
  match nd with
  | Comp ps _ => flat_map (fun p => match p_src p with Some s => [s] | None => [] end) ps
  | _ => []
  end.

(* validate(): graphlib.TopologicalSorter.prepare() raises CycleError iff the wiring has a cycle.
   Modelled by repeatedly removing the nodes none of whose sources remain. *)
Definition mem (n : name) (l : list name) : bool := existsb (Nat.eqb n) l.
Definition ready (rem : graph) (nn : name * node) : bool :=
  forallb (fun s => negb (mem s (map fst rem))) (sources (snd nn)).
Fixpoint peel (fuel : nat) (rem : graph) : graph :=
  match fuel with
  | O => rem
  | S f => peel f (filter (fun nn => negb (ready rem nn)) rem)
  end.
Definition acyclic_b (g : graph) : bool :=
  match peel (length g) g with [] => true | _ => false end.

(* PipelineBuilder.build: None = PipelineError("pipeline has cycles") *)
Definition build (b : builder) : option graph :=
  let g := resolve b in if acyclic_b g then Some g else None.

(* editing a builder between builds: default_connection(name, node) replaces the default of that
   parameter name; connect(comp, name=node) sets/overrides an explicit connection; alias(a, node) *)
Inductive edit :=
| EDefault (pname : nat) (t : name) | EConnect (c : name) (pname : nat) (t : name) | EAlias (a t : name)
| EAddLit (n : name) (v : bnode)        (* connect(c, p=<a value that is not a node>) first creates a literal node *)
| EClear (c : name)                     (* clear_inputs(c): no explicit connection left (defaults apply again) *)
| EReplace (c : name) (ps : list bparam) (body : list (option val) -> prog).
                                        (* replace_component(c, comp, **inputs): the new component's parameters keep the
                                           explicit connections of the old one unless [inputs] (bp_conn = Some) overrides *)
Definition with_conn (p : bparam) (c : option name) : bparam :=
  {| bp_name := bp_name p; bp_conn := c; bp_lazy := bp_lazy p; bp_typed := bp_typed p;
     bp_nullable := bp_nullable p; bp_ty := bp_ty p |}.
Definition old_conn (old : list bparam) (pname : nat) : option name :=
  match find (fun q => Nat.eqb (bp_name q) pname) old with Some q => bp_conn q | None => None end.
Definition keep_conn (old : list bparam) (p : bparam) : bparam :=
  match bp_conn p with Some _ => p | None => with_conn p (old_conn old (bp_name p)) end.
Definition edit_node (c : name) (f : bnode -> bnode) (b_nodes : list (name * bnode)) : list (name * bnode) :=
  map (fun nn => if Nat.eqb (fst nn) c then (fst nn, f (snd nn)) else nn) b_nodes.
Definition set_conn (pname : nat) (t : name) (p : bparam) : bparam :=
  if Nat.eqb (bp_name p) pname
  then {| bp_name := bp_name p; bp_conn := Some t; bp_lazy := bp_lazy p; bp_typed := bp_typed p;
          bp_nullable := bp_nullable p; bp_ty := bp_ty p |}
  else p.
Definition apply_edit (b : builder) (e : edit) : builder :=
  match e with
  | EDefault pn t =>
      {| b_nodes := b_nodes b;
         b_defaults := (pn, t) :: filter (fun d => negb (Nat.eqb (fst d) pn)) (b_defaults b);
         b_aliases := b_aliases b |}
  | EConnect c pn t =>
      {| b_nodes := map (fun nn => if Nat.eqb (fst nn) c
                                   then (fst nn, match snd nn with
                                                 | BComp ps body => BComp (map (set_conn pn t) ps) body
                                                 | x => x end)
                                   else nn) (b_nodes b);
         b_defaults := b_defaults b; b_aliases := b_aliases b |}
  | EAlias a t => {| b_nodes := b_nodes b; b_defaults := b_defaults b; b_aliases := (a, t) :: b_aliases b |}
  | EAddLit n v => {| b_nodes := b_nodes b ++ [(n, v)]; b_defaults := b_defaults b; b_aliases := b_aliases b |}
  | EClear c =>
      {| b_nodes := edit_node c (fun nd => match nd with
                                           | BComp ps body => BComp (map (fun p => with_conn p None) ps) body
                                           | x => x end) (b_nodes b);
         b_defaults := b_defaults b; b_aliases := b_aliases b |}
  | EReplace c ps body =>
      {| b_nodes := edit_node c (fun nd => match nd with
                                           | BComp old _ => BComp (map (keep_conn old) ps) body
                                           | x => x end) (b_nodes b);
         b_defaults := b_defaults b; b_aliases := b_aliases b |}
  end.

(* Pipeline.node(name): aliases first *)
Definition resolve_alias (aliases : list (name * name)) (n : name) : name :=
  match lookup n aliases with Some t => t | None => n end.

(* ------------------------------------------------------------------------------------------ *)
(* bodies used by the correspondence runs: a first-order syntax interpreted into [prog]         *)
(* ------------------------------------------------------------------------------------------ *)

Inductive atom := AArg (i : nat) | AForced (i : nat).
Inductive bexp :=
| BNone
| BStr (z : Z)
| BArrF (z : Z)
| BArrI (z : Z)
| BAtom (a : atom)                               (* pass a received value through unchanged *)
| BLin (c : Z) (terms : list (Z * atom)).        (* c + sum coef * num(atom) *)
Inductive bprog :=
| BRet (e : bexp)
| BRaise (k : Z)
| BForce (i : nat) (k : bprog)
| BTryForce (i : nat) (k e : bprog)              (* try: forced[i] = args[i].get()  except Exception: e  else: k *)
| BIfNone (a : atom) (t e : bprog).

Definition atom_val (args : list (option val)) (forced : list (nat * option val)) (a : atom) : option val :=
  match a with
  | AArg i => nth i args None
  | AForced i => match lookup i forced with Some v => v | None => None end
  end.
Definition num (v : option val) : Z :=
  match v with
  | None => (-1)%Z | Some (VInt z) => z | Some (VStr z) => (1000003 + z)%Z
  | Some (VArrF z) => (2000003 + z)%Z | Some (VArrI z) => (3000003 + z)%Z
  | Some (VBool z) => (4000003 + z)%Z      (* the bodies tell True from 1 *)
  end.
Definition eval_bexp (args : list (option val)) (forced : list (nat * option val)) (e : bexp) : option val :=
  match e with
  | BNone => None
  | BStr z => Some (VStr z)
  | BArrF z => Some (VArrF z)
  | BArrI z => Some (VArrI z)
  | BAtom a => atom_val args forced a
  | BLin c terms =>
      Some (VInt (fold_left (fun acc ta => (acc + fst ta * num (atom_val args forced (snd ta)))%Z) terms c))
  end.
Fixpoint interp (b : bprog) (args : list (option val)) (forced : list (nat * option val)) : prog :=
  match b with
  | BRet e => Ret (eval_bexp args forced e)
  | BRaise k => Raise (EComp k)
  | BForce i k => Force i (fun r => interp k args ((i, r) :: forced))
  | BTryForce i k e => TryForce i (fun r => interp k args ((i, r) :: forced)) (fun _ => interp e args forced)
  | BIfNone a t e => if is_none (atom_val args forced a) then interp t args forced else interp e args forced
  end.
Definition body_of (b : bprog) : list (option val) -> prog := fun args => interp b args [].

(* lenskit.pipeline.components.fallback_on_none(primary: T | None, fallback: Lazy[T]) *)
Definition fallback_body : list (option val) -> prog :=
  fun a => match nth 0 a None with Some v => Ret (Some v) | None => Force 1 (fun r => Ret r) end.
Definition fallback_params (primary fallback : name) : list param :=
  [ {| p_src := Some primary; p_lazy := false; p_typed := false; p_nullable := true; p_ty := TInt |};
    {| p_src := Some fallback; p_lazy := true; p_typed := false; p_nullable := true; p_ty := TInt |} ].

(* ------------------------------------------------------------------------------------------ *)
(* decidable equalities and the observation compared with the implementation                   *)
(* ------------------------------------------------------------------------------------------ *)

Definition val_eqb (a b : val) : bool :=
  match a, b with
  | VInt x, VInt y | VStr x, VStr y | VArrF x, VArrF y | VArrI x, VArrI y | VBool x, VBool y => Z.eqb x y
  | _, _ => false
  end.
Definition oval_eqb (a b : option val) : bool :=
  match a, b with None, None => true | Some x, Some y => val_eqb x y | _, _ => false end.
Definition exn_eqb (a b : exn) : bool :=
  match a, b with
  | EMissing, EMissing | EType, EType | ECycle, ECycle | EFailed, EFailed | ENoNode, ENoNode | EFuel, EFuel => true
  | EComp x, EComp y => Z.eqb x y
  | _, _ => false
  end.
Fixpoint list_eqb {A} (eqb : A -> A -> bool) (a b : list A) : bool :=
  match a, b with
  | [], [] => true
  | x :: a', y :: b' => eqb x y && list_eqb eqb a' b'
  | _, _ => false
  end.
Definition outcome_eqb (a b : outcome) : bool :=
  match a, b with
  | Values x, Values y => list_eqb oval_eqb x y
  | Raised x, Raised y => exn_eqb x y
  | _, _ => false
  end.

(* one observed run: inputs, requested names (aliases allowed), outcome of Pipeline.run(tuple),
   the execution log in call order, and the state mapping of run_all (None when it raised) given as
   (node, value) pairs sorted by node *)
Record obs_run := {
  o_inputs : list (name * val);
  o_req : list name;
  o_outcome : outcome;
  o_log : list name;
  o_state : option (list (name * option val))
}.

Definition state_of (g : graph) (s : st) : list (name * option val) :=
  flat_map (fun nn => match vals s (fst nn) with Some v => [(fst nn, v)] | None => [] end) g.
Fixpoint insert_by_name (x : name * option val) (l : list (name * option val)) :=
  match l with
  | [] => [x]
  | y :: t => if Nat.leb (fst x) (fst y) then x :: l else y :: insert_by_name x t
  end.
Definition sort_state (l : list (name * option val)) := fold_right insert_by_name [] l.

Definition agree_run (with_spec : bool) (fuel : nat) (g : graph) (aliases : list (name * name)) (o : obs_run) : bool :=
  let ns := map (resolve_alias aliases) (o_req o) in
  let '(s, err) := run_all g (o_inputs o) fuel ns in
  outcome_eqb (pipeline_run g (o_inputs o) fuel ns) (o_outcome o)
  && list_eqb Nat.eqb (rev (log s)) (o_log o)
  && match err, o_state o with
     | None, Some stt =>
         list_eqb (fun a b => Nat.eqb (fst a) (fst b) && oval_eqb (snd a) (snd b)) (sort_state (state_of g s)) stt
     | Some _, None => true
     | _, _ => false
     end
  (* the specification agrees as well (checked here on the case; proved in general for acyclic g).
     Not for a cycle injected into a built pipeline: the specification is about acyclic wirings. *)
  && (negb with_spec || outcome_eqb (den_outcome g (o_inputs o) fuel ns) (o_outcome o)).

(* a whole case: the builder, whether build() raised "pipeline has cycles", and the runs made one
   after another on the same pipeline object *)
(* with_spec = false for cases in which some body catches (BTryForce): the memo-free specification
   [den] is stated for bodies that do not catch; the runner model is compared in every case *)
Definition agree_case_gen (with_spec : bool) (b : builder) (built : bool) (runs : list obs_run) : bool :=
  match build b with
  | None => negb built
  | Some g => built && forallb (agree_run with_spec (2 + length g) g (b_aliases b)) runs
  end.
Definition agree_case := agree_case_gen true.

(* a builder history: edits, then build() and runs on the built pipeline; the builder carries on to
   the next stage.  Every built pipeline must be the one the builder's state at that moment denotes
   (build() is a function of that state and leaves it unchanged). *)
Fixpoint agree_history_gen (with_spec : bool) (b : builder) (stages : list (list edit * bool * list obs_run)) : bool :=
  match stages with
  | [] => true
  | (edits, built, runs) :: t =>
      let b' := fold_left apply_edit edits b in
      agree_case_gen with_spec b' built runs && agree_history_gen with_spec b' t
  end.
Definition agree_history := agree_history_gen true.
