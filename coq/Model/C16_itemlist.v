(* C16 -- executable model of lenskit.data.items.ItemList (constructor merge rules, lazy
   identifier / number resolution through vocabularies, subsetting, copies, conversions through
   data frames and Arrow tables) and of an interpreter for sequences of operations over a pool of
   live lists.  Definitions only; proofs are in Proofs/C16_*.v.

   Conventions
   * identifiers are Z (the harness maps integer and string identifiers to Z by an order
     isomorphism), a vocabulary is its list of terms (position = number); vocabularies are
     referred to by their index in the environment, which also models Python object identity
     (`vocabulary is not self._vocab`);
   * an array argument carries its container kind, its shape and its (row-major) data; a stored
     field is the NumPy view of the MTArray wrapper (conversions between NumPy, PyTorch and Arrow
     do not change the abstract values);
   * field names are numbers: 0 = "score", 1 = "rank", others arbitrary. *)
From Coq Require Import ZArith List Bool Arith Lia.
Import ListNotations.
Open Scope Z_scope.

(* ---------------------------------------------------------------- results *)
Inductive err := ERuntime | EKey | EIndex | EType | EValue | ENoList.
Inductive res (A : Type) := Ok (a : A) | Err (e : err).
Arguments Ok {A} a.
Arguments Err {A} e.
Definition bind {A B} (r : res A) (f : A -> res B) : res B :=
  match r with Ok a => f a | Err e => Err e end.
Notation "x <- r ;; k" := (bind r (fun x => k)) (at level 61, r at next level, right associativity).
Definition res_map {A B} (f : A -> B) (r : res A) : res B :=
  match r with Ok a => Ok (f a) | Err e => Err e end.

(* ---------------------------------------------------------------- values and arrays *)
Inductive val := VZ (z : Z) | VNaN | VNull.           (* VNull: an Arrow null *)
Definition to_np (v : val) : val := match v with VNull => VNaN | _ => v end.
Definition is_vnull (v : val) : bool := match v with VNull => true | _ => false end.
Definition val_Z (v : val) : Z := match v with VZ z => z | _ => 0 end.

Inductive kind := KList | KNumpy | KTorch | KArrow | KPandas.
Definition is_arrow (k : kind) : bool := match k with KArrow => true | _ => false end.

Record arr := { a_kind : kind; a_shape : list nat; a_data : list val }.
Record zarr := { z_shape : list nat; z_data : list Z; z_badtype : bool }.

Definition np1 (vs : list val) : arr := {| a_kind := KNumpy; a_shape := [length vs]; a_data := vs |}.
Definition znp1 (zs : list Z) : zarr := {| z_shape := [length zs]; z_data := zs; z_badtype := false |}.

(* checks.array_is_null: an Arrow array without a single valid entry (an empty one included) *)
Definition array_is_null (a : arr) : bool := is_arrow (a_kind a) && forallb is_vnull (a_data a).

Definition shape_eqb (s t : list nat) : bool := if list_eq_dec Nat.eq_dec s t then true else false.
(* checks.check_1d *)
Definition check_1d (shape : list nat) (size : option nat) : bool :=
  match size with
  | None => (length shape <=? 1)%nat
  | Some n => shape_eqb shape [n]
  end.

(* ---------------------------------------------------------------- vocabularies *)
Definition vocabulary := list Z.
Definition envt := list vocabulary.

Fixpoint vnum (v : vocabulary) (i : Z) : Z :=          (* get_indexer: position, or -1 *)
  match v with
  | [] => -1
  | t :: r => if Z.eqb t i then 0 else let k := vnum r i in if k <? 0 then -1 else k + 1
  end.
Definition vnums (v : vocabulary) (ids : list Z) : list Z := map (vnum v) ids.
Definition in_range (v : vocabulary) (n : Z) : bool := (0 <=? n) && (n <? Z.of_nat (length v)).
Definition vterm (v : vocabulary) (n : Z) : Z := nth (Z.to_nat n) v 0.
(* Vocabulary.ids(nums): IndexError for a negative or too large number *)
Definition vids (v : vocabulary) (ns : list Z) : res (list Z) :=
  if forallb (in_range v) ns then Ok (map (vterm v) ns) else Err EIndex.
Definition has_neg (ns : list Z) : bool := existsb (fun n => n <? 0) ns.
Definition venv (env : envt) (k : nat) : vocabulary := nth k env [].

Inductive missing := MError | MNegative.
Definition apply_missing (m : missing) (ns : list Z) : res (list Z) :=
  match m with MError => if has_neg ns then Err EKey else Ok ns | MNegative => Ok ns end.

(* ---------------------------------------------------------------- the item list *)
Definition fname := nat.
Definition F_SCORE : fname := 0%nat.
Definition F_RANK : fname := 1%nat.

Record ilist := {
  len : nat;
  ids : option (list Z);            (* _ids: given, or cached *)
  nums : option (list Z);           (* _numbers: given, or cached *)
  vocab : option nat;
  ordered : bool;
  ranks : option (list Z);          (* _ranks: given, or cached *)
  fields : list (fname * list val)
}.

Definition seq1 (n : nat) : list Z := map Z.of_nat (seq 1 n).

(* pure readings (what ids() / numbers() / ranks() return) *)
Definition get_ids (env : envt) (l : ilist) : res (list Z) :=
  match ids l with
  | Some i => Ok i
  | None => match vocab l with
            | None => Err ERuntime
            | Some v => match nums l with Some n => vids (venv env v) n | None => Err ERuntime end
            end
  end.
Definition raw_nums (env : envt) (l : ilist) : res (list Z) :=
  match nums l with
  | Some n => Ok n
  | None => match vocab l with
            | None => Err ERuntime
            | Some v => match ids l with Some i => Ok (vnums (venv env v) i) | None => Err ERuntime end
            end
  end.
Definition get_nums (env : envt) (l : ilist) (m : missing) : res (list Z) :=
  n <- raw_nums env l ;; apply_missing m n.
Definition same_vocab (a : option nat) (b : nat) : bool :=
  match a with Some x => Nat.eqb x b | None => false end.
(* numbers(vocabulary=v2, missing=m) *)
Definition alt_nums (env : envt) (l : ilist) (v2 : nat) (m : missing) : res (list Z) :=
  if same_vocab (vocab l) v2 then get_nums env l m
  else i <- get_ids env l ;; apply_missing m (vnums (venv env v2) i).
Definition get_ranks (l : ilist) : option (list Z) :=
  if ordered l then Some (match ranks l with Some r => r | None => seq1 (len l) end) else None.
Fixpoint lookup {A} (k : nat) (d : list (nat * A)) : option A :=
  match d with [] => None | (k', v) :: r => if Nat.eqb k k' then Some v else lookup k r end.
Definition get_field (l : ilist) (f : fname) : option (list val) := lookup f (fields l).

(* the same calls as state changes (they fill the caches) *)
Definition set_ids (l : ilist) (i : option (list Z)) : ilist :=
  {| len := len l; ids := i; nums := nums l; vocab := vocab l; ordered := ordered l; ranks := ranks l; fields := fields l |}.
Definition set_nums (l : ilist) (n : option (list Z)) : ilist :=
  {| len := len l; ids := ids l; nums := n; vocab := vocab l; ordered := ordered l; ranks := ranks l; fields := fields l |}.
Definition set_ranks (l : ilist) (r : option (list Z)) : ilist :=
  {| len := len l; ids := ids l; nums := nums l; vocab := vocab l; ordered := ordered l; ranks := r; fields := fields l |}.

Definition force_ids (env : envt) (l : ilist) : ilist * res (list Z) :=
  match get_ids env l with Ok i => (set_ids l (Some i), Ok i) | Err e => (l, Err e) end.
(* numbers(): the cache is filled (with negative markers) before `missing` is applied *)
Definition force_nums (env : envt) (l : ilist) (m : missing) : ilist * res (list Z) :=
  match raw_nums env l with Ok n => (set_nums l (Some n), apply_missing m n) | Err e => (l, Err e) end.
Definition force_ranks (l : ilist) : ilist :=
  if ordered l then match ranks l with Some _ => l | None => set_ranks l (Some (seq1 (len l))) end else l.

(* ---------------------------------------------------------------- constructor *)
Inductive farg := FFalse | FArr (a : arr).
Inductive sarg := SNone | SFalse | SScalar (v : val) | SArr (a : arr).
Record cargs := {
  c_ids : option zarr;
  c_nums : option zarr;
  c_vocab : option nat;
  c_ordered : option bool;
  c_scores : sarg;
  c_fields : list (fname * farg)       (* **fields, including the score= and rank= keywords *)
}.

Fixpoint dict_set {A} (k : nat) (v : A) (d : list (nat * A)) : list (nat * A) :=
  match d with
  | [] => [(k, v)]
  | (k', v') :: r => if Nat.eqb k k' then (k, v) :: r else (k', v') :: dict_set k v r
  end.
Definition dict_union {A} (a b : list (nat * A)) : list (nat * A) :=
  fold_left (fun d kv => dict_set (fst kv) (snd kv) d) b a.
Definition has_key {A} (k : nat) (d : list (nat * A)) : bool :=
  match lookup k d with Some _ => true | None => false end.

Definition is_some {A} (o : option A) : bool := match o with Some _ => true | None => false end.
Definition src_of {A} (src : option ilist) (f : ilist -> option A) : option A :=
  match src with Some s => f s | None => None end.

(* phase 1: identifiers, numbers, length, cached ranks *)
Record core := { k_len : nat; k_ids : option (list Z); k_nums : option (list Z); k_ranks : option (list Z) }.

Definition ids_len (ia : zarr) : res nat :=
  (* `if len(item_ids)` (an empty array of any dtype is replaced by an empty int32 one);
     np.asarray(item_ids); dtype test; check_1d(ids); len(item_ids) *)
  match z_shape ia with
  | [] => Err EType                                 (* len() of a 0-d array *)
  | O :: _ => Ok O
  | [n] => if z_badtype ia then Err EType else Ok n
  | _ => Err EType                                  (* dtype test or check_1d *)
  end.

Definition nums_len (na : zarr) (known : option nat) : res nat :=
  match z_shape na with
  | [] => Err EType
  | O :: _ => if check_1d [O] known then Ok O else Err EType
  | n :: _ => if check_1d (z_shape na) known then Ok n else Err EType
  end.

(* ItemList() without identifiers, numbers or source: the empty list *)
Definition empty_call (src : option ilist) (a : cargs) : bool :=
  match src, c_ids a, c_nums a with None, None, None => true | _, _, _ => false end.
Definition st1 := (option (list Z) * option (list Z) * option nat)%type.     (* _ids, _numbers, _len (if set) *)
Definition base_state (src : option ilist) (a : cargs) : st1 :=
  if empty_call src a then (Some [], Some [], Some O)
  else match src with Some s => (ids s, nums s, Some (len s)) | None => (None, None, None) end.

(* item_ids given: the numbers copied from the source are dropped *)
Definition ids_step (src : option ilist) (a : cargs) (st : st1) : res st1 :=
  match c_ids a with
  | None => Ok st
  | Some ia => n <- ids_len ia ;;
               Ok (Some (if (n =? 0)%nat then [] else z_data ia),
                   (if is_some (src_of src nums) then None else snd (fst st)), Some n)
  end.
(* item_nums given: identifiers copied from the source are dropped (not identifiers given in the same call) *)
Definition nums_step (src : option ilist) (a : cargs) (st : st1) : res st1 :=
  match c_nums a with
  | None => Ok st
  | Some na => n <- nums_len na (snd st) ;;
               Ok ((if is_some (src_of src ids) && negb (is_some (c_ids a)) then None else fst (fst st)),
                   Some (if (n =? 0)%nat then [] else z_data na), Some n)
  end.
(* vocabulary replaced: keep the identifiers, recompute the numbers on demand *)
Definition vocab_step (env : envt) (src : option ilist) (a : cargs) (i2 n2 : option (list Z))
  : res (option (list Z) * option (list Z)) :=
  match src, c_vocab a with
  | Some s, Some v =>
      match vocab s with
      | Some v0 =>
          if negb (Nat.eqb v v0) && negb (is_some (c_ids a)) && negb (is_some (c_nums a)) then
            match i2 with
            | Some i => Ok (Some i, None)
            | None => match nums s with
                      | Some ns => i <- vids (venv env v0) ns ;; Ok (Some i, None)
                      | None => Err ERuntime
                      end
            end
          else Ok (i2, n2)
      | None => Ok (i2, n2)
      end
  | _, _ => Ok (i2, n2)
  end.
(* ranks cached by the source only describe a list of the same length *)
Definition ranks_step (src : option ilist) (n : nat) : option (list Z) :=
  match src with
  | Some s => if is_some (ranks s) && negb (n =? len s)%nat then None else ranks s
  | None => None
  end.

Definition phase1 (env : envt) (src : option ilist) (a : cargs) : res core :=
  s1 <- ids_step src a (base_state src a) ;;
  s2 <- nums_step src a s1 ;;
  let n := match snd s2 with Some n => n | None => O end in
  s3 <- vocab_step env src a (fst (fst s2)) (snd (fst s2)) ;;
  Ok {| k_len := n; k_ids := fst s3; k_nums := snd s3; k_ranks := ranks_step src n |}.

(* phase 2: scores, ranks, fields *)
Definition eff_fields (src : option ilist) (a : cargs) : list (fname * farg) :=
  match src with
  | Some s => dict_union (map (fun f => (fst f, FArr (np1 (snd f)))) (fields s)) (c_fields a)
  | None => c_fields a
  end.

(* the array handed to check_1d for the score field; None = no scores *)
Definition score_arr (n : nat) (eff : list (fname * farg)) (a : cargs) : res (option (list nat * list val)) :=
  match c_scores a with
  | SFalse => Ok None
  | SNone => match lookup F_SCORE eff with
             | Some (FArr x) => Ok (Some (a_shape x, map to_np (a_data x)))
             | Some FFalse => Ok (Some ([], [VZ 0]))           (* np.require(False, float32): 0-d *)
             | None => Ok None
             end
  | SScalar v => if has_key F_SCORE (c_fields a) then Err EValue else Ok (Some ([n], repeat (to_np v) n))
  | SArr x => if has_key F_SCORE (c_fields a) then Err EValue else Ok (Some (a_shape x, map to_np (a_data x)))
  end.

Fixpoint other_fields (n : nat) (eff : list (fname * farg)) : res (list (fname * list val)) :=
  match eff with
  | [] => Ok []
  | (f, d) :: r =>
      if Nat.eqb f F_SCORE || Nat.eqb f F_RANK then other_fields n r else
      match d with
      | FFalse => other_fields n r
      | FArr x => if array_is_null x then other_fields n r
                  else if check_1d (a_shape x) (Some n) then
                         rest <- other_fields n r ;; Ok ((f, map to_np (a_data x)) :: rest)
                       else Err EType
      end
  end.

(* the rank= keyword: sets the ranks and makes the list ordered, unless ordered=False was given *)
Definition rank_phase (a : cargs) (ord0 : bool) (r0 : option (list Z)) (n : nat) : res (bool * option (list Z)) :=
  match lookup F_RANK (c_fields a) with
  | None => Ok (ord0, r0)
  | Some d =>
      match c_ordered a with
      | Some false => Ok (ord0, r0)                                 (* warning; ranks dropped *)
      | _ => match d with
             | FFalse => Err EType
             | FArr x => if check_1d (a_shape x) (Some n) then Ok (true, Some (map val_Z (a_data x))) else Err EType
             end
      end
  end.
Definition score_field (n : nat) (sc : option (list nat * list val)) : res (list (fname * list val)) :=
  match sc with
  | None => Ok []
  | Some (sh, d) => if check_1d sh (Some n) then Ok [(F_SCORE, d)] else Err EType
  end.
Definition ordered0 (src : option ilist) (a : cargs) : bool :=
  match c_ordered a with Some b => b | None => match src with Some s => ordered s | None => false end end.
Definition vocab0 (src : option ilist) (a : cargs) : option nat :=
  match c_vocab a with Some v => Some v | None => src_of src vocab end.

Definition construct (env : envt) (src : option ilist) (a : cargs) : res ilist :=
  k <- phase1 env src a ;;
  let n := k_len k in
  let eff := eff_fields src a in
  sc <- score_arr n eff a ;;
  rk <- rank_phase a (ordered0 src a) (k_ranks k) n ;;
  scf <- score_field n sc ;;
  others <- other_fields n eff ;;
  Ok {| len := n; ids := k_ids k; nums := k_nums k; vocab := vocab0 src a; ordered := fst rk; ranks := snd rk;
        fields := scf ++ others |}.

(* ---------------------------------------------------------------- subsetting *)
Inductive sel :=
| SMask (m : list bool)
| SIdx (ix : list Z)
| SScal (i : Z)
| SSlice (start stop step : option Z).

Fixpoint mask_pos (m : list bool) (k : nat) : list nat :=
  match m with [] => [] | b :: r => if b then k :: mask_pos r (S k) else mask_pos r (S k) end.
Definition norm_idx (n : nat) (i : Z) : res nat :=
  let zn := Z.of_nat n in
  if (0 <=? i) && (i <? zn) then Ok (Z.to_nat i)
  else if (i <? 0) && (- zn <=? i) then Ok (Z.to_nat (i + zn))
  else Err EIndex.
Fixpoint norm_idxs (n : nat) (ix : list Z) : res (list nat) :=
  match ix with
  | [] => Ok []
  | i :: r => k <- norm_idx n i ;; ks <- norm_idxs n r ;; Ok (k :: ks)
  end.
(* slice.indices(n) followed by range() *)
Fixpoint range_list (fuel : nat) (cur stop step : Z) : list nat :=
  match fuel with
  | O => []
  | S f => if (if 0 <? step then cur <? stop else stop <? cur)
           then Z.to_nat cur :: range_list f (cur + step) stop step else []
  end.
Definition slice_idx (n : nat) (start stop step : option Z) : res (list nat) :=
  let zn := Z.of_nat n in
  let st := match step with Some s => s | None => 1 end in
  if st =? 0 then Err EValue else
  let lower := if st <? 0 then -1 else 0 in
  let upper := if st <? 0 then zn - 1 else zn in
  let clamp x := if x <? 0 then Z.max (x + zn) lower else Z.min x upper in
  let b := match start with Some x => clamp x | None => if st <? 0 then upper else lower end in
  let e := match stop with Some x => clamp x | None => if st <? 0 then lower else upper end in
  Ok (range_list n b e st).
Definition sel_idx (n : nat) (s : sel) : res (list nat) :=
  match s with
  | SMask m => (* NumPy also accepts an empty Boolean index on any array (it selects nothing) *)
               if (length m =? n)%nat || (length m =? 0)%nat then Ok (mask_pos m O) else Err EIndex
  | SIdx ix => norm_idxs n ix
  | SScal i => norm_idxs n [i]
  | SSlice a b c => slice_idx n a b c
  end.
Definition pick {A} (d : A) (sigma : list nat) (xs : list A) : list A := map (fun k => nth k xs d) sigma.

Definition subset_args (l : ilist) (sigma : list nat) : cargs :=
  {| c_ids := option_map (fun i => znp1 (pick 0 sigma i)) (ids l);
     c_nums := option_map (fun n => znp1 (pick 0 sigma n)) (nums l);
     c_vocab := vocab l;
     c_ordered := Some (ordered l);
     c_scores := SNone;
     c_fields := map (fun f => (fst f, FArr (np1 (pick VNaN sigma (snd f))))) (fields l) |}.
Definition subset (env : envt) (l : ilist) (s : sel) : res ilist :=
  sigma <- sel_idx (len l) s ;; construct env None (subset_args l sigma).

(* ---------------------------------------------------------------- clone and conversions *)
Definition clone_args (l : ilist) : cargs :=
  {| c_ids := option_map znp1 (ids l); c_nums := option_map znp1 (nums l); c_vocab := vocab l;
     c_ordered := Some (ordered l); c_scores := SNone;
     c_fields := map (fun f => (fst f, FArr (np1 (snd f)))) (fields l) |}.
Definition clone (env : envt) (l : ilist) : res ilist := construct env None (clone_args l).

(* columns of to_df / to_arrow in order: item_id, item_num, [score,] rank, fields; reading them
   fills the caches of the list (first component of the result) *)
Record table := { t_ids : option (list Z); t_nums : option (list Z); t_rank : option (list Z);
                  t_fields : list (fname * list val) }.

Definition to_df (env : envt) (l : ilist) (wi wn : bool) : ilist * res table :=
  let want_i := wi && (is_some (ids l) || is_some (vocab l)) in
  let want_n := wn && (is_some (nums l) || is_some (vocab l)) in
  let '(l1, ri) := if want_i then let '(l', r) := force_ids env l in (l', res_map Some r) else (l, Ok None) in
  match ri with
  | Err e => (l1, Err e)
  | Ok ci =>
    let '(l2, rn) := if want_n then let '(l', r) := force_nums env l1 MError in (l', res_map Some r) else (l1, Ok None) in
    match rn with
    | Err e => (l2, Err e)
    | Ok cn =>
      if negb (is_some ci) && negb (is_some cn) then (l2, Err ERuntime) else
      let l3 := force_ranks l2 in
      (l3, Ok {| t_ids := ci; t_nums := cn; t_rank := get_ranks l3; t_fields := fields l3 |})
    end
  end.

Definition table_args (t : table) (voc : option nat) (k : kind) : cargs :=
  {| c_ids := option_map znp1 (t_ids t); c_nums := option_map znp1 (t_nums t); c_vocab := voc;
     c_ordered := None; c_scores := SNone;
     c_fields := match t_rank t with Some r => [(F_RANK, FArr {| a_kind := k; a_shape := [length r]; a_data := map VZ r |})] | None => [] end
                 ++ map (fun f => (fst f, FArr {| a_kind := k; a_shape := [length (snd f)]; a_data := snd f |})) (t_fields t) |}.

(* ItemList.from_df(l.to_df(ids=wi, numbers=wn), vocabulary=l.vocabulary) *)
Definition via_df (env : envt) (l : ilist) (wi wn : bool) : ilist * res ilist :=
  let '(l', rt) := to_df env l wi wn in
  (l', t <- rt ;; construct env None (table_args t (vocab l) KNumpy)).

(* to_arrow: an empty list has no column types at all *)
Definition to_arrow (env : envt) (l : ilist) (wi wn : bool) : ilist * res table :=
  if (len l =? 0)%nat then (l, Ok {| t_ids := None; t_nums := None; t_rank := None; t_fields := [] |}) else
  let want_i := wi && (is_some (ids l) || is_some (vocab l)) in
  let want_n := wn && (is_some (nums l) || is_some (vocab l)) in
  let '(l1, ri) := if want_i then let '(l', r) := force_ids env l in (l', res_map Some r) else (l, Ok None) in
  match ri with
  | Err e => (l1, Err e)
  | Ok ci =>
    let '(l2, rn) := if want_n then let '(l', r) := force_nums env l1 MError in (l', res_map Some r) else (l1, Ok None) in
    match rn with
    | Err e => (l2, Err e)
    | Ok cn =>
      let l3 := force_ranks l2 in
      (l3, Ok {| t_ids := ci; t_nums := cn; t_rank := get_ranks l3; t_fields := fields l3 |})
    end
  end.
(* ItemList.from_arrow(l.to_arrow(ids=wi, numbers=wn), vocabulary=l.vocabulary) *)
Definition via_arrow (env : envt) (l : ilist) (wi wn : bool) : ilist * res ilist :=
  let '(l', rt) := to_arrow env l wi wn in
  (l', t <- rt ;;
       if negb (is_some (t_ids t)) && negb (is_some (t_nums t)) then Err EType
       else construct env None (table_args t (vocab l) KArrow)).

(* to_arrow(columns=...): the caller names the columns, in the caller's order.  A column is filled by
   what its NAME says -- item_id: ids(); item_num: numbers() (missing="error"); rank: ranks() or nulls
   for an unordered list; any other name: the field of that name or nulls -- and the readers run in
   column order (so the caches fill, and the first error is raised, in that order).  The column
   types only type the null columns; from_arrow drops entirely-null columns of a non-empty table. *)
Inductive col := CId | CNum | CName (f : fname).        (* CName F_RANK is the rank column *)
Definition t_none : table := {| t_ids := None; t_nums := None; t_rank := None; t_fields := [] |}.
Definition t_put_ids (t : table) (i : list Z) : table :=
  {| t_ids := Some i; t_nums := t_nums t; t_rank := t_rank t; t_fields := t_fields t |}.
Definition t_put_nums (t : table) (n : list Z) : table :=
  {| t_ids := t_ids t; t_nums := Some n; t_rank := t_rank t; t_fields := t_fields t |}.
Definition t_put_rank (t : table) (r : option (list Z)) : table :=
  {| t_ids := t_ids t; t_nums := t_nums t; t_rank := r; t_fields := t_fields t |}.
Definition t_put_field (t : table) (f : fname) (vs : list val) : table :=
  {| t_ids := t_ids t; t_nums := t_nums t; t_rank := t_rank t; t_fields := dict_set f vs (t_fields t) |}.

Fixpoint arrow_cols (env : envt) (l : ilist) (cols : list col) (t : table) : ilist * res table :=
  match cols with
  | [] => (l, Ok t)
  | CId :: r => let '(l', ri) := force_ids env l in
                match ri with Ok i => arrow_cols env l' r (t_put_ids t i) | Err e => (l', Err e) end
  | CNum :: r => let '(l', rn) := force_nums env l MError in
                 match rn with Ok n => arrow_cols env l' r (t_put_nums t n) | Err e => (l', Err e) end
  | CName f :: r =>
      if Nat.eqb f F_RANK then let l' := force_ranks l in arrow_cols env l' r (t_put_rank t (get_ranks l'))
      else arrow_cols env l r (match get_field l f with Some vs => t_put_field t f vs | None => t end)
  end.
(* an empty list: one empty array per requested column, no reader is called *)
Fixpoint empty_cols (cols : list col) (t : table) : table :=
  match cols with
  | [] => t
  | CId :: r => empty_cols r (t_put_ids t [])
  | CNum :: r => empty_cols r (t_put_nums t [])
  | CName f :: r => empty_cols r (if Nat.eqb f F_RANK then t_put_rank t (Some []) else t_put_field t f [])
  end.
(* ItemList.from_arrow(l.to_arrow(columns=cols), vocabulary=l.vocabulary if kv else None) *)
Definition via_arrow_cols (env : envt) (l : ilist) (cols : list col) (kv : bool) : ilist * res ilist :=
  let '(l', rt) := if (len l =? 0)%nat then (l, Ok (empty_cols cols t_none)) else arrow_cols env l cols t_none in
  (l', t <- rt ;;
       if negb (is_some (t_ids t)) && negb (is_some (t_nums t)) then Err EType
       else construct env None (table_args t (if kv then vocab l else None) KArrow)).

(* ---------------------------------------------------------------- operation sequences *)
Inductive op :=
| ONew (a : cargs)
| OCopy (k : nat) (a : cargs)
| OSub (k : nat) (s : sel)
| OIds (k : nat)
| ONums (k : nat) (m : missing)
| ORanks (k : nat)
| OAlt (k : nat) (v : nat) (m : missing)
| OClone (k : nat)
| ODf (k : nat) (wi wn : bool)
| OArrow (k : nat) (wi wn : bool)
| OArrowC (k : nat) (cols : list col) (kv : bool).

Fixpoint update {A} (k : nat) (x : A) (l : list A) : list A :=
  match l, k with
  | [], _ => []
  | _ :: r, O => x :: r
  | y :: r, S k' => y :: update k' x r
  end.

(* what a step reports: None = completed, Some e = raised e *)
Definition outcome := option err.
Definition out_of {A} (r : res A) : outcome := match r with Ok _ => None | Err e => Some e end.
Definition push (ls : list ilist) (r : res ilist) : list ilist * outcome :=
  match r with Ok l => (ls ++ [l], None) | Err e => (ls, Some e) end.

Definition step (env : envt) (ls : list ilist) (o : op) : list ilist * outcome :=
  let pickl k := nth_error ls (k mod (length ls)) in
  let idx k := (k mod (length ls))%nat in
  match o with
  | ONew a => push ls (construct env None a)
  | OCopy k a => match pickl k with None => (ls, Some ENoList) | Some s => push ls (construct env (Some s) a) end
  | OSub k s => match pickl k with None => (ls, Some ENoList) | Some l => push ls (subset env l s) end
  | OIds k => match pickl k with None => (ls, Some ENoList)
              | Some l => let '(l', r) := force_ids env l in (update (idx k) l' ls, out_of r) end
  | ONums k m => match pickl k with None => (ls, Some ENoList)
                 | Some l => let '(l', r) := force_nums env l m in (update (idx k) l' ls, out_of r) end
  | ORanks k => match pickl k with None => (ls, Some ENoList)
                | Some l => (update (idx k) (force_ranks l) ls, None) end
  | OAlt k v m => match pickl k with None => (ls, Some ENoList)
                  | Some l => (* ids() caches the identifiers even when the look-up then fails *)
                      if same_vocab (vocab l) v then let '(l', r) := force_nums env l m in (update (idx k) l' ls, out_of r)
                      else let '(l', r) := force_ids env l in
                           (update (idx k) l' ls, out_of (i <- r ;; apply_missing m (vnums (venv env v) i))) end
  | OClone k => match pickl k with None => (ls, Some ENoList) | Some l => push ls (clone env l) end
  | ODf k wi wn => match pickl k with None => (ls, Some ENoList)
                   | Some l => let '(l', r) := via_df env l wi wn in push (update (idx k) l' ls) r end
  | OArrow k wi wn => match pickl k with None => (ls, Some ENoList)
                      | Some l => let '(l', r) := via_arrow env l wi wn in push (update (idx k) l' ls) r end
  | OArrowC k cols kv => match pickl k with None => (ls, Some ENoList)
                         | Some l => let '(l', r) := via_arrow_cols env l cols kv in push (update (idx k) l' ls) r end
  end.

Fixpoint run (env : envt) (ls : list ilist) (ops : list op) : list ilist :=
  match ops with [] => ls | o :: r => run env (fst (step env ls o)) r end.

(* ---------------------------------------------------------------- observations (correspondence) *)
Definition FNAMES : list fname := [0; 2; 3; 4]%nat.
Record lobs := {
  o_len : nat; o_ordered : bool; o_vocab : option nat;
  o_ids : res (list Z); o_neg : res (list Z); o_err : res (list Z);
  o_alt : list (res (list Z) * res (list Z));     (* per vocabulary of the environment: negative, error *)
  o_ranks : option (list Z);
  o_fields : list (option (list val))             (* per name of FNAMES *)
}.
Definition observe (env : envt) (l : ilist) : lobs :=
  {| o_len := len l; o_ordered := ordered l; o_vocab := vocab l;
     o_ids := get_ids env l; o_neg := get_nums env l MNegative; o_err := get_nums env l MError;
     o_alt := map (fun v => (alt_nums env l v MNegative, alt_nums env l v MError)) (seq 0 (length env));
     o_ranks := get_ranks l;
     o_fields := map (get_field l) FNAMES |}.

Definition err_eq_dec : forall a b : err, {a = b} + {a <> b}. Proof. decide equality. Defined.
Definition val_eq_dec : forall a b : val, {a = b} + {a <> b}. Proof. decide equality; apply Z.eq_dec. Defined.
Definition res_eq_dec {A} (d : forall a b : A, {a = b} + {a <> b}) : forall a b : res A, {a = b} + {a <> b}.
Proof. decide equality. apply err_eq_dec. Defined.
Definition opt_eq_dec {A} (d : forall a b : A, {a = b} + {a <> b}) : forall a b : option A, {a = b} + {a <> b}.
Proof. decide equality. Defined.
Definition lz_dec := list_eq_dec Z.eq_dec.
Definition lobs_eq_dec : forall a b : lobs, {a = b} + {a <> b}.
Proof.
  decide equality.
  - apply (list_eq_dec (opt_eq_dec (list_eq_dec val_eq_dec))).
  - apply (opt_eq_dec lz_dec).
  - apply list_eq_dec. intros [x1 x2] [y1 y2].
    destruct (res_eq_dec lz_dec x1 y1); [|right; congruence].
    destruct (res_eq_dec lz_dec x2 y2); [left|right]; congruence.
  - apply (res_eq_dec lz_dec).
  - apply (res_eq_dec lz_dec).
  - apply (res_eq_dec lz_dec).
  - apply (opt_eq_dec Nat.eq_dec).
  - apply bool_dec.
  - apply Nat.eq_dec.
Defined.

(* one step as the harness sees it: outcome, the list created or touched (if any) *)
Definition touched (ls ls' : list ilist) (o : op) : option ilist :=
  let idx k := (k mod (length ls))%nat in
  if (length ls <? length ls')%nat then last (map Some ls') None else
  match o with
  | ONew _ => None
  | OCopy k _ | OSub k _ | OIds k | ONums k _ | ORanks k | OAlt k _ _ | OClone k | ODf k _ _ | OArrow k _ _ | OArrowC k _ _ =>
      nth_error ls' (idx k)
  end.
Fixpoint trace (env : envt) (ls : list ilist) (ops : list op) : list (outcome * option lobs) * list ilist :=
  match ops with
  | [] => ([], ls)
  | o :: r =>
      let '(ls', out) := step env ls o in
      let '(t, fin) := trace env ls' r in
      ((out, option_map (observe env) (touched ls ls' o)) :: t, fin)
  end.

Definition step_obs_eq_dec : forall a b : outcome * option lobs, {a = b} + {a <> b}.
Proof.
  intros [a1 a2] [b1 b2].
  destruct (opt_eq_dec err_eq_dec a1 b1); [|right; congruence].
  destruct (opt_eq_dec lobs_eq_dec a2 b2); [left|right]; congruence.
Defined.

(* the correspondence test: per-step outcomes and observations, and the final state of every list *)
Definition agree (env : envt) (ops : list op) (steps : list (outcome * option lobs)) (final : list lobs) : bool :=
  let '(t, fin) := trace env [] ops in
  (if list_eq_dec step_obs_eq_dec t steps then true else false)
  && (if list_eq_dec lobs_eq_dec (map (observe env) fin) final then true else false).
