(* C08 -- identifier level of the bias and popularity scorers: vocabularies in arrival order, resolution
   of identifiers to numbers (Vocabulary.number(missing="none") / ItemList.numbers(missing="negative")),
   queries given by identifiers, and the index juggling of PopScorer.train / TimeBoundedPopScore.train
   (reindex by the vocabulary, _train_internal ending in sort_index(), reindex by the vocabulary again).
   An identifier is an integer code: the identifier itself for integer ids, an order-preserving code for
   string ids (the harness uses the rank among the strings of the case).  Nothing here looks at the value
   of an identifier other than comparing two of them.  Definitions only; proofs in Proofs/C08_vocab_proofs.v. *)
From Coq Require Import ZArith QArith List Bool Arith.
From LK Require Import Lib.QLib Lib.SortPerm Model.C08_bias.
Import ListNotations.
Open Scope Q_scope.

Definition ident : Type := Z.
(* a vocabulary: the identifiers in order of arrival; the number of an identifier is its position *)
Definition vocab : Type := list ident.

(* Vocabulary.number(x, missing="none"): position of x, None when x is not in the vocabulary *)
Fixpoint number_from (k : nat) (v : vocab) (x : ident) : option nat :=
  match v with
  | [] => None
  | y :: r => if Z.eqb y x then Some k else number_from (S k) r x
  end.
Definition number (v : vocab) (x : ident) : option nat := number_from 0 v x.

(* a query as the caller gives it: RecQuery(user_id, user_items), a bare identifier (user_id only),
   an item list (user_items only) or None (neither) -- RecQuery.create maps all of them to this pair *)
Record idquery := {
  iq_user : option ident;                        (* None = no user id in the query *)
  iq_hist : option (list (ident * Q))            (* rated history by item identifier *)
}.

Definition resolve_query (users items : vocab) (q : idquery) : query :=
  {| q_user := match iq_user q with Some x => number users x | None => None end;
     q_hist := option_map (map (fun p => (number items (fst p), snd p))) (iq_hist q) |}.

(* BiasScorer.__call__ on identifiers *)
Definition bias_scores_ids (m : bmodel) (d : damp) (users items : vocab) (q : idquery) (its : list ident) : list Q :=
  bias_scores m d (resolve_query users items q) (map (number items) its).

(* ---- popularity: series indexed by identifier ---- *)
Definition series (A : Type) : Type := list (ident * A).

Definition id_leb {A} (a b : ident * A) : bool := Z.leb (fst a) (fst b).
(* Series.sort_index() *)
Definition sort_index {A} (s : series A) : series A := isort id_leb s.

Definition lookup_id {A} (x : ident) (s : series A) : option A :=
  match find (fun p => Z.eqb (fst p) x) s with Some p => Some (snd p) | None => None end.
(* Series.reindex(ids).values for a score series: a label that is absent gives NaN *)
Definition reindex_scores (ids : vocab) (s : series (option Q)) : list (option Q) :=
  map (fun x => match lookup_id x s with Some v => v | None => None end) ids.

(* PopScorer.train: counts = item_stats()["count"].reindex(items.ids()) -- `counts` below, one per
   vocabulary entry; _train_internal transforms them in place (pop_scores) and ends with sort_index();
   the result is brought back to vocabulary order with reindex(items.ids()).values.
   TimeBoundedPopScore.train has the same shape (value_counts().reindex(items.index), _train_internal,
   reindex(items.ids())). *)
Definition pop_train_ids (items : vocab) (v : variant) (counts : list nat) : list (option Q) :=
  reindex_scores items (sort_index (combine items (pop_scores v counts))).

(* PopScorer.__call__ on identifiers *)
Definition pop_call_ids (items : vocab) (item_scores : list (option Q)) (its : list ident) : list (option Q) :=
  pop_call item_scores (map (number items) its).

(* comparison with an observation: count and rank against the trained model, the cumulative share
   through the verified checker (ties may come in either order) *)
Definition agree_pop_ids (tol : Q) (items : vocab) (v : variant) (counts : list nat) (obs : list (option Q)) : bool :=
  match v with
  | VQuantile => quantile_ok_b (fun o q => close tol o q) counts obs
  | _ => all2 (agree_opt tol) (pop_train_ids items v counts) obs
  end.

(* ---- item lists as the caller builds them ----
   An ItemList is given by identifiers, or by numbers against a vocabulary of its own
   (ItemList(item_nums=..., vocabulary=own)): candidates taken from another dataset / split / catalogue
   slice, the same items in another order, a superset.  ItemList.numbers(vocabulary=target) goes through the
   identifiers: ids = own[nums], then the number of each identifier in the target vocabulary.  Nothing looks
   at the length of `own`, and a number is never carried over from one vocabulary to the other. *)
Inductive ilist :=
| ByIds (its : list ident)
| ByNums (own : vocab) (nums : list nat).

Definition via_own (own target : vocab) (k : nat) : option nat :=
  match nth_error own k with Some x => number target x | None => None end.

Definition ilist_numbers (target : vocab) (l : ilist) : list (option nat) :=
  match l with
  | ByIds its => map (number target) its
  | ByNums own nums => map (via_own own target) nums
  end.

(* the identifiers a list stands for *)
Definition denotes (l : ilist) (its : list ident) : Prop :=
  match l with
  | ByIds a => a = its
  | ByNums own nums => Forall2 (fun n x => nth_error own n = Some x) nums its
  end.

(* PopScorer.__call__ / TimeBoundedPopScore.__call__ on an item list *)
Definition pop_call_list (items : vocab) (item_scores : list (option Q)) (l : ilist) : list (option Q) :=
  pop_call item_scores (ilist_numbers items l).

(* BiasScorer.__call__ on item lists: the scored items and the rated history (list, ratings) *)
Definition bias_scores_list (m : bmodel) (d : damp) (users items : vocab) (qu : option ident)
    (hist : option (ilist * list Q)) (l : ilist) : list Q :=
  bias_scores m d
    {| q_user := match qu with Some x => number users x | None => None end;
       q_hist := option_map (fun h => combine (ilist_numbers items (fst h)) (snd h)) hist |}
    (ilist_numbers items l).
