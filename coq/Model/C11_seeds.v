(* C11 -- seeded operations.  Executable definitions only.

   (i)   A small call-graph language for the seed-forwarding graph generated into Gen/C11_rng.v:
         a function body is a list of statements (draw from my generator / call another function
         handing it a generator derived from mine, or nothing, or something else / use process-global
         randomness).  `run` executes a body against a generator state and an ambient source of
         entropy (the process-global generator, OS entropy: whatever is not the caller's seed).
         A statement may be conditional on ambient state (SCond): the draw under a logging-level test,
         the per-thread spawn.  Such a statement is never closed.
   (ii)  Rankers with user-derived seeds versus rankers with one fixed generator.
   (iii) Row-parallel computations: fixed-size consecutive chunks, joined in chunk order.
   (v)   ONE training-options object serving a sequence of trainings: random_generator() either builds a
         generator from the seed on every call, or memoises it on the object (train_all). *)
From Coq Require Import ZArith List Bool String.
Import ListNotations.
Local Open Scope string_scope.

(* ---- (i) the call-graph language --------------------------------------------------------- *)
Inductive rarg := ASeeded | ANone | AOmitted | AUnseeded.
(* SCond what s: a use s of the function's own generator that happens only when ambient state `what`
   (logging level, environment, thread count ...) says so *)
Inductive stmt := SDraw | SCall (callee : string) (a : rarg) | SGlobal (what : string) | SCond (what : string) (s : stmt).
Record fn := mkFn { fn_name : string; fn_takes : bool; fn_primitive : bool; fn_body : list stmt }.

Inductive rg_plan := UseGlobal | FromArgument.
Inductive derive_plan := DeriveFromUser | SpawnNext.
Inductive join_kind := JScatter | JConcat.

Definition stmt_closed (s : stmt) : bool :=
  match s with
  | SDraw => true
  | SCall _ ASeeded => true
  | _ => false
  end.
Definition body_closed (b : list stmt) : bool := forallb stmt_closed b.

(* the generated obligation: every function that is not one of the hand-modelled normalisation
   primitives of lenskit.random forwards its own randomness to every callee and uses no global one *)
Definition graph_closed (g : list fn) : bool := forallb (fun f => fn_primitive f || body_closed (fn_body f)) g.

Section Run.
  Context {G E : Type}.
  Variable draw : G -> Z * G.                       (* one draw from a generator *)
  Variable opaque : string -> G -> list Z * G.      (* a library callee given a generator: any deterministic function of it *)
  Variable fresh : E -> G * E.                      (* a generator made from ambient entropy *)
  Variable ambient : E -> Z * E.                    (* a direct use of process-global randomness *)
  Variable resolve : string -> option fn.           (* dynamic dispatch: which body a callee name denotes *)

  Fixpoint run (fuel : nat) (body : list stmt) (g : G) (e : E) : list Z * G * E :=
    match fuel with
    | O => ([], g, e)
    | S k =>
        match body with
        | [] => ([], g, e)
        | s :: rest =>
            let '(o1, g1, e1) :=
              match s with
              | SDraw => let (v, g') := draw g in ([v], g', e)
              | SGlobal _ => let (v, e') := ambient e in ([v], g, e')
              | SCond _ s1 => let (v, e') := ambient e in
                              if Z.odd v then run k [s1] g e' else ([], g, e')
              | SCall c ASeeded =>
                  match resolve c with
                  | Some f => run k (fn_body f) g e
                  | None => let (o, g') := opaque c g in (o, g', e)
                  end
              | SCall c _ =>
                  let (g0, e') := fresh e in
                  match resolve c with
                  | Some f => let '(o, _, e'') := run k (fn_body f) g0 e' in (o, g, e'')
                  | None => let (o, _) := opaque c g0 in (o, g, e')
                  end
              end in
            let '(o2, g2, e2) := run k rest g1 e1 in
            ((o1 ++ o2)%list, g2, e2)
        end
    end.

  (* a call sequence against one generator *)
  Fixpoint run_seq (fuel : nat) (calls : list (list stmt)) (g : G) (e : E) : list (list Z) * G * E :=
    match calls with
    | [] => ([], g, e)
    | b :: t => let '(o, g1, e1) := run fuel b g e in
                let '(os, g2, e2) := run_seq fuel t g1 e1 in (o :: os, g2, e2)
    end.
End Run.

(* names in the generated graph: a function name, or a method family resolved by the objects at hand *)
Definition find_fn (g : list fn) (name : string) : option fn := find (fun f => String.eqb (fn_name f) name) g.

Fixpoint assoc {A} (k : string) (l : list (string * A)) : option A :=
  match l with [] => None | (k', v) :: t => if String.eqb k k' then Some v else assoc k t end.

Definition resolve_in (g : list fn) (families : list (string * list string)) (disp : string -> nat) (name : string) : option fn :=
  match find_fn g name with
  | Some f => if fn_primitive f then None else Some f
  | None =>
      match assoc name families with
      | Some members =>
          match nth_error members (disp name) with
          | Some m => match find_fn g m with Some f => if fn_primitive f then None else Some f | None => None end
          | None => None
          end
      | None => None
      end
  end.

(* ---- (ii) rankers ------------------------------------------------------------------------ *)
Record req (P : Type) := mkReq { r_user : option Z; r_payload : P }.
Arguments mkReq {P}. Arguments r_user {P}. Arguments r_payload {P}.

Section Rankers.
  Context {Gn P A : Type}.
  Variable plan : bool -> derive_plan.              (* generated: DerivingRNG.__call__ *)
  Variable derive : Z -> Gn.                        (* make_seed(base, user id) -> generator *)
  Variable spawn : nat -> Gn.                       (* k-th child of the base seed *)
  Variable out : Gn -> P -> A.                      (* the ranker body given its generator *)

  (* state = how many children the base seed has spawned *)
  Definition serve_derived (st : nat) (r : req P) : nat * A :=
    match r_user r with
    | Some u =>
        match plan true with
        | DeriveFromUser => (st, out (derive u) (r_payload r))
        | SpawnNext => (S st, out (spawn st) (r_payload r))
        end
    | None =>
        match plan false with
        | DeriveFromUser => (st, out (derive 0%Z) (r_payload r))
        | SpawnNext => (S st, out (spawn st) (r_payload r))
        end
    end.

  Fixpoint serve_all (st : nat) (rs : list (req P)) : list A :=
    match rs with
    | [] => []
    | r :: t => let (st', a) := serve_derived st r in a :: serve_all st' t
    end.

  (* a ranker with one fixed generator: every request advances it *)
  Variable outg : Gn -> P -> A * Gn.
  Fixpoint serve_fixed (g : Gn) (rs : list (req P)) : list A :=
    match rs with
    | [] => []
    | r :: t => let (a, g') := outg g (r_payload r) in a :: serve_fixed g' t
    end.
End Rankers.

(* ---- (iii) chunked row-parallel work ----------------------------------------------------- *)
Section Chunks.
  Context {A : Type}.

  Fixpoint chunks_aux (fuel c : nat) (l : list A) : list (list A) :=
    match fuel with
    | O => []
    | S k => match l with [] => [] | _ => firstn c l :: chunks_aux k c (skipn c l) end
    end.
  (* for start in range(0, n, c): end = min(start + c, n) *)
  Definition chunks (c : nat) (l : list A) : list (list A) := chunks_aux (List.length l) c l.

  (* ctx.left[start:end, :] = M *)
  Definition write (arr : list A) (start : nat) (vals : list A) : list A :=
    (firstn start arr ++ vals ++ skipn (start + List.length vals) arr)%list.

  Fixpoint scatter (arr : list A) (start : nat) (blocks : list (list A)) : list A :=
    match blocks with
    | [] => arr
    | b :: t => scatter (write arr start b) (start + List.length b) t
    end.
End Chunks.

(* per-row work joined the way the fork/join loops do it *)
Definition joined_concat {A B} (f : A -> B) (c : nat) (rows : list A) : list B :=
  List.concat (map (map f) (chunks c rows)).
Definition joined_scatter {A} (f : A -> A) (c : nat) (rows : list A) : list A :=
  scatter rows 0 (map (map f) (chunks c rows)).
(* similarity rows: each row yields a list of (column, value); blocks are concatenated *)
Definition joined_rows {A B} (f : A -> list B) (c : nat) (rows : list A) : list B :=
  List.concat (map (fun blk => List.concat (map f blk)) (chunks c rows)).

(* ---- (iv) filling rows from a generator, block by block -------------------------------------- *)
Section Fill.
  Context {G A : Type}.
  Variable draw : G -> A * G.

  (* rng.standard_normal((n, k)): n rows in order from one generator *)
  Fixpoint fill (n : nat) (g : G) : list A * G :=
    match n with
    | O => ([], g)
    | S m => let (v, g1) := draw g in let (vs, g2) := fill m g1 in (v :: vs, g2)
    end.

  (* the same rows filled in consecutive blocks, every block continuing the one generator *)
  Fixpoint fill_blocks (sizes : list nat) (g : G) : list A * G :=
    match sizes with
    | [] => ([], g)
    | n :: t => let (vs, g1) := fill n g in let (ws, g2) := fill_blocks t g1 in ((vs ++ ws)%list, g2)
    end.

  (* one child generator per block (rng.spawn(number of blocks)) *)
  Variable child : G -> nat -> G.
  Fixpoint fill_children (i : nat) (sizes : list nat) (g : G) : list A :=
    match sizes with
    | [] => []
    | n :: t => (fst (fill n (child g i)) ++ fill_children (S i) t g)%list
    end.
End Fill.

(* ---- (v) one options object, several trainings ------------------------------------------------ *)
(* what TrainingOptions.random_generator() does (generated: training_options_plan) *)
Inductive opt_plan := FreshPerCall | Memoised.
Definition plan_fresh (p : opt_plan) : bool := match p with FreshPerCall => true | Memoised => false end.

Section Options.
  Context {S G M : Type}.
  Variable mk : S -> G.                             (* random_generator(seed) *)

  (* the options object: its seed and the slot in which a memoising random_generator() keeps its generator;
     a training is any function of the generator it is given, returning the model and the advanced generator
     (Python generators are mutable objects: what the training draws is gone from the memoised one too) *)
  Definition train_one (plan : opt_plan) (seed : S) (slot : option G) (t : G -> M * G) : M * option G :=
    match plan with
    | FreshPerCall => (fst (t (mk seed)), slot)
    | Memoised => let g := match slot with Some g => g | None => mk seed end in
                  let (m, g') := t g in (m, Some g')
    end.

  Fixpoint train_all (plan : opt_plan) (seed : S) (slot : option G) (ts : list (G -> M * G)) : list M :=
    match ts with
    | [] => []
    | t :: rest => let (m, slot') := train_one plan seed slot t in m :: train_all plan seed slot' rest
    end.

  (* every training done with its own fresh, equal options object *)
  Definition train_fresh (seed : S) (ts : list (G -> M * G)) : list M := map (fun t => fst (t (mk seed))) ts.
End Options.

(* ---- correspondence helpers -------------------------------------------------------------- *)
Definition all_equal (l : list Z) : bool :=
  match l with [] => true | x :: t => forallb (Z.eqb x) t end.

Fixpoint zlist_eqb (a b : list Z) : bool :=
  match a, b with
  | [], [] => true
  | x :: s, y :: t => Z.eqb x y && zlist_eqb s t
  | _, _ => false
  end.

(* equal up to rounding: integers in units of 1e-9 of the common scale, entry by entry within tol *)
Fixpoint zlist_close (tol : Z) (a b : list Z) : bool :=
  match a, b with
  | [], [] => true
  | x :: s, y :: t => Z.leb (Z.abs (x - y)) tol && zlist_close tol s t
  | _, _ => false
  end.

(* answers observed for a sequence of identified requests under the model: a function of the user
   and the payload alone.  `table` is what the implementation answered the first time it saw the
   request (user, payload digest); the observed answer digests must follow it. *)
Fixpoint lookup2 (u p : Z) (t : list (Z * Z * Z)) : option Z :=
  match t with
  | [] => None
  | (u', p', a) :: r => if Z.eqb u u' && Z.eqb p p' then Some a else lookup2 u p r
  end.

Definition agree_derived (plan : bool -> derive_plan) (table : list (Z * Z * Z)) (reqs : list (Z * Z)) (answers : list Z) : bool :=
  let rs := map (fun up => mkReq (Some (fst up)) (snd up)) reqs in
  let model := serve_all plan (fun u => u) (fun k => (- Z.of_nat k - 1)%Z)
                 (fun g p => match lookup2 g p table with Some a => a | None => (-1)%Z end) 0 rs in
  zlist_eqb model answers.
