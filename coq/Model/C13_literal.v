(* C13 -- literal values: which Python values PipelineLiteral.represent writes as JSON, which it pickles,
   and what comes back after the document went through JSON text.  Definitions only.

   A Python value is described down to the TYPE of every part: exactly-None/bool/int/float/str, lists,
   tuples, dicts (keys are values too), instances of proper subclasses of the basic types (NumPy float64,
   IntEnum members, OrderedDict ...: `PSub base`) and everything else (`POther`: arrays, sets, bytes,
   NumPy integers, objects).  Number tokens are the JSON library's rendering, handed over by the harness.

   `literal_json_iff_exact` is GENERATED from the source of PipelineLiteral.represent: true when the JSON
   encoding is chosen only for values made of exactly the basic JSON types with finite floats and string
   keys (validation against JsonValue AND the exactness test), false for validation alone (which also
   lets subclass instances and non-finite floats through). *)
From Coq Require Import String Ascii List Bool Arith.
From LK Require Import Lib.StrDict Gen.C13_shape Model.C13_json Model.C13_config.
Import ListNotations.
Open Scope string_scope.

Inductive pyv : Type :=
| PNone
| PBool (b : bool)
| PInt (tok : string)          (* exactly int, decimal token *)
| PFloat (tok : string)        (* exactly float, finite *)
| PFloatNF (what : string)     (* exactly float: nan, inf, -inf *)
| PStr (s : string)
| PList (l : list pyv)
| PTuple (l : list pyv)
| PDict (kv : list (pyv * pyv))
| PSub (base : pyv)            (* passes as `base` for a lax JSON validator without being exactly that type *)
| POther (what : string).

Definition is_pstr (v : pyv) : bool := match v with PStr _ => true | _ => false end.
Definition key_str (v : pyv) : string := match v with PStr s => s | _ => "" end.

(* made of exactly the basic JSON types, finite floats, string keys *)
Fixpoint json_exact (v : pyv) : bool :=
  match v with
  | PNone | PBool _ | PInt _ | PFloat _ | PStr _ => true
  | PFloatNF _ | PTuple _ | PSub _ | POther _ => false
  | PList l => forallb json_exact l
  | PDict kv => forallb (fun p => match p with (k, x) => is_pstr k && json_exact x end) kv
  end.

(* accepted by pydantic's JsonValue validation (subclass instances and non-finite floats pass) *)
Fixpoint json_valid (v : pyv) : bool :=
  match v with
  | PNone | PBool _ | PInt _ | PFloat _ | PStr _ | PFloatNF _ => true
  | PTuple _ | POther _ => false
  | PSub b => json_valid b
  | PList l => forallb json_valid l
  | PDict kv => forallb (fun p => match p with (k, x) => (is_pstr k || match k with PSub (PStr _) => true | _ => false end) && json_valid x end) kv
  end.

Definition json_choice (v : pyv) : bool := if literal_json_iff_exact then json_exact v else json_valid v.

(* the JSON tree a value is written as when the JSON encoding is chosen *)
Fixpoint to_json (v : pyv) : json :=
  match v with
  | PNone => JTok "null"
  | PBool true => JTok "true"
  | PBool false => JTok "false"
  | PInt t => JTok t
  | PFloat t => JTok t
  | PFloatNF _ => JTok "null"
  | PStr s => JStr s
  | PList l => JArr (map to_json l)
  | PTuple l => JArr (map to_json l)
  | PDict kv => JObj (map (fun p => match p with (k, x) => (match k with PSub b => key_str b | _ => key_str k end, to_json x) end) kv)
  | PSub b => to_json b
  | POther _ => JTok "null"
  end.

(* PipelineLiteral.represent; `pickle v` is the base85 text of pickle.dumps(v) *)
Definition represent (pickle : pyv -> string) (v : pyv) : plit :=
  if json_choice v then {| l_enc := "json"; l_value := to_json v |}
  else {| l_enc := "base85"; l_value := JStr (pickle v) |}.

(* ---- what a JSON tree means as a Python value (json.loads / pydantic's parser) ---- *)
Definition is_digit (c : ascii) : bool := let n := nat_of_ascii c in Nat.leb 48 n && Nat.leb n 57.
Fixpoint all_digits (s : string) : bool :=
  match s with EmptyString => true | String c r => is_digit c && all_digits r end.
Definition is_int_tok (t : string) : bool :=
  match t with
  | EmptyString => false
  | String c r => if Ascii.eqb c "-"%char then negb (String.eqb r "") && all_digits r else all_digits t
  end.

Fixpoint of_json (j : json) : pyv :=
  match j with
  | JTok t => if String.eqb t "null" then PNone
              else if String.eqb t "true" then PBool true
              else if String.eqb t "false" then PBool false
              else if is_int_tok t then PInt t else PFloat t
  | JStr s => PStr s
  | JArr l => PList (map of_json l)
  | JObj kv => PDict (map (fun p => match p with (k, x) => (PStr k, of_json x) end) kv)
  end.

(* PipelineLiteral.decode on an entry of a (parsed) document *)
Definition decode (unpickle : string -> option pyv) (l : plit) : option pyv :=
  if String.eqb (l_enc l) "json" then Some (of_json (l_value l))
  else if String.eqb (l_enc l) "base85" then match l_value l with JStr s => unpickle s | _ => None end
  else None.

(* number tokens as the JSON library writes them *)
Definition float_tok_ok (t : string) : bool :=
  negb (is_int_tok t) && negb (String.eqb t "null") && negb (String.eqb t "true") && negb (String.eqb t "false").
Fixpoint pyv_wf (v : pyv) : bool :=
  match v with
  | PInt t => is_int_tok t
  | PFloat t => float_tok_ok t
  | PList l => forallb pyv_wf l
  | PTuple l => forallb pyv_wf l
  | PDict kv => forallb (fun p => match p with (k, x) => pyv_wf k && pyv_wf x end) kv
  | PSub b => pyv_wf b
  | _ => true
  end.

(* ---- correspondence cases: the entry the implementation wrote for a generated literal ---- *)
Definition lit_agree (pk : string) (v : pyv) (enc : string) (value : json) : bool :=
  let l := represent (fun _ => pk) v in
  pyv_wf v && String.eqb (l_enc l) enc && json_eqb (l_value l) value.
