(* C06 -- ranking metrics.  Executable definitions only.

   Part 1: the vocabulary the generated file (Gen/C06_metrics.v, regenerated from
           metrics/ranking/*.py on every run) is written in: item lists, test lists, the NumPy /
           pandas operations the sources use, exceptions.
   Part 2: the hand-written reference model of every metric (what the correspondence cases
           evaluate; proved equal to the generated functions in Proofs/C06_gen.v).
   Numbers are exact rationals; NaN / inf are RNone (QLib.res). *)
From Coq Require Import ZArith QArith Qabs List Bool.
From LK Require Import Lib.QLib Lib.RankLib.
Import ListNotations.
Open Scope Q_scope.

(* ---------------------------------------------------------------------------------------- *)
(* Part 1: vocabulary                                                                        *)
(* ---------------------------------------------------------------------------------------- *)

Inductive exc (A : Type) : Type := Raise (e : nat) | Ret (a : A).
Arguments Raise {A} e.
Arguments Ret {A} a.
Definition EValue : nat := 1.   (* ValueError: top-k filtering requires ordered list *)
Definition EKey : nat := 2.     (* KeyError: test items have no gain field *)

(* recommendations: ordered flag + identifiers in rank order *)
Record ilist : Type := { il_ordered : bool; il_ids : list Z }.
(* test items: identifier and gain (binary metrics ignore the gain); whether the gain field exists *)
Record tlist : Type := { tl_items : list (Z * Q); tl_has_gain : bool }.
Definition gseries : Type := list (Z * Q).     (* pandas Series indexed by item id *)

Definition il_len (l : ilist) : nat := length (il_ids l).
Definition il_slice_to (l : ilist) (n : nat) : ilist :=
  {| il_ordered := il_ordered l; il_ids := firstn n (il_ids l) |}.
Definition tl_ids (t : tlist) : list Z := map fst (tl_items t).
Definition tl_len (t : tlist) : nat := length (tl_items t).
Definition tl_field (t : tlist) : option gseries := if tl_has_gain t then Some (tl_items t) else None.

Definition mem (i : Z) (l : list Z) : bool := existsb (Z.eqb i) l.
Definition np_isin (a b : list Z) : list bool := map (fun i => mem i b) a.
Definition mask_count (m : list bool) : nat := length (filter (fun b : bool => b) m).  (* mask.sum() *)
Definition np_any (m : list bool) : bool := existsb (fun b : bool => b) m.
Fixpoint nonzero_from (r : nat) (m : list bool) : list nat :=
  match m with
  | [] => []
  | b :: m' => if b then r :: nonzero_from (S r) m' else nonzero_from (S r) m'
  end.
Definition np_nonzero (m : list bool) : list nat := nonzero_from 0 m.
Definition np_arange (a b : nat) : list nat := seq a (b - a).
Definition np_power (g : Q) (l : list nat) : list Q := map (fun i => g ^ Z.of_nat i) l.
Fixpoint mask_select {A} (a : list A) (m : list bool) : list A :=
  match a, m with
  | x :: a', b :: m' => if b then x :: mask_select a' m' else mask_select a' m'
  | _, _ => []
  end.
Fixpoint mask_set (a : list Q) (m : list bool) (v : Q) : list Q :=
  match a, m with
  | x :: a', b :: m' => (if b then v else x) :: mask_set a' m' v
  | _, _ => a
  end.
(* division of NumPy scalars: 0/0 -> nan, x/0 -> inf; both reported as "not finite" *)
Definition np_div (a b : Q) : res := if Qeq_bool b 0 then RNone else RVal (a / b).
Definition arr_mean (a : list Q) : res := np_div (Qsum a) (Qofnat (length a)).
Definition np_maximum (a : list Q) (c : Q) : list Q := map (fun x => Qmaxq x c) a.
Definition np_reciprocal (a : list Q) : list Q := map Qinv a.
Definition np_zeros (n : nat) : list Q := repeat 0 n.

Fixpoint gain_of (s : gseries) (i : Z) (fill : Q) : Q :=
  match s with
  | [] => fill
  | e :: s' => if Z.eqb i (fst e) then snd e else gain_of s' i fill
  end.
Definition ser_reindex (s : gseries) (items : list Z) (fill : Q) : list Q :=
  map (fun i => gain_of s i fill) items.
Definition ser_values (s : gseries) : list Q := map snd s.
Definition ser_sort_desc (s : gseries) : gseries := sort_desc_by (fun e : Z * Q => snd e) s.
Definition ser_nlargest (n : nat) (s : gseries) : gseries := firstn n (ser_sort_desc s).

(* ---------------------------------------------------------------------------------------- *)
(* Part 2: reference model                                                                   *)
(* ---------------------------------------------------------------------------------------- *)

Definition topk (k : option nat) (l : list Z) : list Z :=
  match k with Some n => firstn n l | None => l end.

(* RankingMetricBase.truncate: a cutoff on an unordered list is an error *)
Definition with_topk (k : option nat) (recs : ilist) (f : list Z -> exc res) : exc res :=
  match k with
  | Some n => if il_ordered recs then f (firstn n (il_ids recs)) else Raise EValue
  | None => f (il_ids recs)
  end.

Definition trunc_ok (k : option nat) (recs : ilist) : bool :=
  match k with Some _ => il_ordered recs | None => true end.
Definition trunc_il (k : option nat) (recs : ilist) : ilist :=
  {| il_ordered := il_ordered recs; il_ids := topk k (il_ids recs) |}.

Definition rel (t : tlist) (i : Z) : bool := mem i (tl_ids t).
Definition b2q (b : bool) : Q := if b then 1 else 0.
Definition relq (t : tlist) (i : Z) : Q := b2q (rel t i).
Definition ngood (t : tlist) (L : list Z) : nat := length (filter (rel t) L).

Definition hit_model (k : option nat) (recs : ilist) (t : tlist) : exc res :=
  if Nat.eqb (tl_len t) 0 then Ret RNone
  else with_topk k recs (fun L => Ret (RVal (if existsb (rel t) L then 1 else 0))).

Definition precision_model (k : option nat) (recs : ilist) (t : tlist) : exc res :=
  with_topk k recs (fun L =>
    if Nat.eqb (length L) 0 then Ret RNone
    else Ret (np_div (Qofnat (ngood t L)) (Qofnat (length L)))).

Definition recall_denom (k : option nat) (ntest : nat) : nat :=
  match k with Some n => Nat.min n ntest | None => ntest end.
Definition recall_model (k : option nat) (recs : ilist) (t : tlist) : exc res :=
  with_topk k recs (fun L =>
    Ret (np_div (Qofnat (ngood t L)) (Qofnat (recall_denom k (tl_len t))))).

Fixpoint rr_from (r : nat) (t : tlist) (L : list Z) : Q :=
  match L with
  | [] => 0
  | i :: L' => if rel t i then 1 / Qofnat r else rr_from (S r) t L'
  end.
Definition recip_model (k : option nat) (recs : ilist) (t : tlist) : exc res :=
  if Nat.eqb (tl_len t) 0 then Ret RNone
  else with_topk k recs (fun L => Ret (RVal (rr_from 1 t L))).

(* sum over the 1-based ranks r = 1..|a| of a_r * w(r) *)
Definition ranksum (w : nat -> Q) (a : list Q) : Q :=
  bigsum 1 (length a) (fun r => nth (r - 1) a 0 * w r).

Definition pw (g : Q) (r : nat) : Q := g ^ Z.of_nat (r - 1).      (* patience^(r-1) at rank r *)
Definition rbp_sum (g : Q) (t : tlist) (L : list Z) : Q := ranksum (pw g) (map (relq t) L).
Definition rbp_max (g : Q) (t : tlist) (L : list Z) : Q := bigsum 1 (Nat.min (tl_len t) (length L)) (pw g).
Definition rbp_model (g : Q) (normalize : bool) (k : option nat) (recs : ilist) (t : tlist) : exc res :=
  with_topk k recs (fun L =>
    if Nat.eqb (tl_len t) 0 then Ret RNone
    else if normalize then Ret (np_div (rbp_sum g t L) (rbp_max g t L))
    else Ret (RVal (rbp_sum g t L * (1 - g)))).

(* discount of rank r, clamped at 1, inverted *)
Definition dweight (disc : nat -> Q) (r : nat) : Q := / Qmaxq (disc r) 1.
Definition dcg_of (disc : nat -> Q) (scores : list Q) : Q := ranksum (dweight disc) scores.
Definition scores_graded (t : tlist) (L : list Z) : list Q := map (fun i => gain_of (tl_items t) i 0) L.
Definition scores_binary (t : tlist) (L : list Z) : list Q := map (relq t) L.

Definition dcg_model (disc : nat -> Q) (graded : bool) (k : option nat) (recs : ilist) (t : tlist) : exc res :=
  with_topk k recs (fun L =>
    if graded then
      if tl_has_gain t then Ret (RVal (dcg_of disc (scores_graded t L))) else Raise EKey
    else Ret (RVal (dcg_of disc (scores_binary t L)))).

(* `if self.k:` -- a cutoff of 0 is treated like no cutoff *)
Definition ideal_gains (k : option nat) (gains : list Q) : list Q :=
  match k with
  | Some n => if Nat.eqb n 0 then sort_desc gains else firstn n (sort_desc gains)
  | None => sort_desc gains
  end.
Definition ideal_count (k : option nat) (ntest : nat) : nat :=
  match k with
  | Some n => if Nat.eqb n 0 then ntest else Nat.min n ntest
  | None => ntest
  end.
Definition ndcg_model (disc : nat -> Q) (graded : bool) (k : option nat) (recs : ilist) (t : tlist) : exc res :=
  with_topk k recs (fun L =>
    if graded then
      if tl_has_gain t then
        Ret (np_div (dcg_of disc (scores_graded t L))
                    (dcg_of disc (ideal_gains k (map snd (tl_items t)))))
      else Raise EKey
    else Ret (np_div (dcg_of disc (scores_binary t L))
                     (bigsum 1 (ideal_count k (tl_len t)) (dweight disc)))).

(* popularity quantiles: average rank among the items with a positive count, over their number *)
Definition count_lt (cs : list nat) (c : nat) : nat := length (filter (fun x => Nat.ltb x c) cs).
Definition count_eq (cs : list nat) (c : nat) : nat := length (filter (fun x => Nat.eqb x c) cs).
Definition rank_avg (cs : list nat) (c : nat) : Q :=
  Qofnat (count_lt cs c) + (Qofnat (count_eq cs c) + 1) / 2.
Definition pos_counts (counts : list (Z * nat)) : list nat :=
  filter (fun c => Nat.ltb 0 c) (map snd counts).
Definition quantile (counts : list (Z * nat)) (c : nat) : Q :=
  if Nat.ltb 0 c then rank_avg (pos_counts counts) c / Qofnat (length (pos_counts counts)) else 0.
Definition pop_item_ranks (counts : list (Z * nat)) : gseries :=
  map (fun e => (fst e, quantile counts (snd e))) counts.
(* q_i: quantile of item i's count; 0 for items without interactions or outside the data *)
Fixpoint count_of (counts : list (Z * nat)) (i : Z) : nat :=
  match counts with
  | [] => 0%nat
  | e :: c' => if Z.eqb i (fst e) then snd e else count_of c' i
  end.
Definition item_quantile (counts : list (Z * nat)) (i : Z) : Q := quantile counts (count_of counts i).
Definition pop_model (counts : list (Z * nat)) (k : option nat) (recs : ilist) (t : tlist) : exc res :=
  with_topk k recs (fun L =>
    if Nat.eqb (length L) 0 then Ret RNone
    else Ret (arr_mean (map (item_quantile counts) L))).

(* results agree up to equality of rationals *)
Definition exc_eq (a b : exc res) : Prop :=
  match a, b with
  | Raise e, Raise e' => e = e'
  | Ret x, Ret y => res_eq x y
  | _, _ => False
  end.

(* the result is a number within [lo, hi] *)
Definition exc_in (lo hi : Q) (r : exc res) : Prop :=
  match r with Ret (RVal v) => lo <= v <= hi | _ => False end.
(* a <= b: same error, both undefined, or numbers in that order *)
Definition exc_le (a b : exc res) : Prop :=
  match a, b with
  | Raise e, Raise e' => e = e'
  | Ret RNone, Ret RNone => True
  | Ret (RVal x), Ret (RVal y) => x <= y
  | _, _ => False
  end.

(* ---- one entry point for the case files ---- *)
Inductive metric : Type :=
| MHit | MPrecision | MRecall | MRecip
| MRBP (patience : Q) (normalize : bool)
| MDCG (graded : bool) | MNDCG (graded : bool)
| MPop (counts : list (Z * nat)).

Definition tbl_disc (tbl : list Q) : nat -> Q := fun r => nth (r - 1) tbl 1.
(* a tabulated discount continued by its last value *)
Definition tbl_disc_ext (tbl : list Q) : nat -> Q := fun r => nth (r - 1) tbl (last tbl 1).
Fixpoint adj_le (tbl : list Q) : bool :=
  match tbl with
  | a :: ((b :: _) as t') => Qle_bool (Qmaxq a 1) (Qmaxq b 1) && adj_le t'
  | _ => true
  end.

Definition measure (m : metric) (disc : nat -> Q) (k : option nat) (recs : ilist) (t : tlist) : exc res :=
  match m with
  | MHit => hit_model k recs t
  | MPrecision => precision_model k recs t
  | MRecall => recall_model k recs t
  | MRecip => recip_model k recs t
  | MRBP g n => rbp_model g n k recs t
  | MDCG g => dcg_model disc g k recs t
  | MNDCG g => ndcg_model disc g k recs t
  | MPop c => pop_model c k recs t
  end.

(* observation: error code (0 = none) and value (None = NaN / inf) *)
Definition agree_exc (tol : Q) (r : exc res) (err : nat) (obs : option Q) : bool :=
  match r with
  | Raise e => Nat.eqb e err
  | Ret v => Nat.eqb err 0 && agree_res tol v obs
  end.
Definition agree_all (tol : Q) (disc : nat -> Q) (k : option nat) (recs : ilist) (t : tlist)
    (ms : list metric) (obs : list (nat * option Q)) : bool :=
  all2 (fun m o => agree_exc tol (measure m disc k recs t) (fst o) (snd o)) ms obs.

(* ---------------------------------------------------------------------------------------- *)
(* A recommendation list with an EXPLICIT rank column: (rank, id) entries in list order.     *)
(* "The first k recommendations" are the first k entries (rl_first); rank_cut is the other    *)
(* reading (keep the entries whose stored rank is <= k), which agrees for the implicit ranks  *)
(* 1..n only (Props/C06.v: first_k_is_positional).                                            *)
(* ---------------------------------------------------------------------------------------- *)
Definition rl_ids (l : list (Z * Z)) : list Z := map snd l.
Definition rl_first (k : option nat) (l : list (Z * Z)) : list (Z * Z) :=
  match k with Some n => firstn n l | None => l end.
Definition rank_cut (n : nat) (l : list (Z * Z)) : list Z :=
  map snd (filter (fun e => (fst e <=? Z.of_nat n)%Z) l).
Fixpoint implicit_from (r : Z) (ids : list Z) : list (Z * Z) :=
  match ids with [] => [] | x :: tl => (r, x) :: implicit_from (r + 1) tl end.

