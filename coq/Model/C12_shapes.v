(* C12 -- vocabulary of the shapes harness/translate/c12.py extracts from batch/*.py and
   parallel/*.py.  Definitions only. *)
From Coq Require Import List.
Import ListNotations.

(* how an invoker's map produces its results *)
Inductive map_shape :=
| MapYieldEachInOrder     (* for task in tasks: res = self.function(self.model, task); yield res *)
| MapExecutorMap.         (* return self.pool.map(worker.worker, <tasks in order>) with worker = func(model, arg) *)

(* what shm_deserialize hands to pickle.loads for a stored buffer (shm, n) *)
Inductive slice_kind :=
| SliceRecorded           (* shm.buf[:n] *)
| WholeBuffer.            (* shm.buf *)

(* statements of _run_pipeline, per invocation *)
Inductive rp_step :=
| RPQueryFromUserId       (* if hasattr(key, "user_id"): inputs["query"] = key.user_id *)
| RPItemsIfTestItems      (* match inv.items: case "test-items": inputs["items"] = test_items *)
| RPExtraOverride         (* inputs.update(inv.extra_inputs) *)
| RPRunAll                (* outs = pipeline.run_all( *nodes, **inputs ) with nodes = inv.components.keys() *)
| RPCopyOutputs.          (* for cname, oname in inv.components.items(): result[oname] = outs[cname] *)

(* the loop of BatchPipelineRunner.run *)
Inductive batch_loop :=
| AddEachOutputUnderItsKey.   (* for key, outs in worker.map(test_iter): for cn, cr in outs.items(): results.add_result(cn, key, cr) *)

(* the module-level helpers batch.recommend / score / predict: which request they put on their runner, with which of their own parameters *)
Inductive helper_setup :=
| HSRecommendN            (* runner.recommend(n=n): the list length is handed on whatever its value (None, 0, ...) *)
| HSScore                 (* runner.score() *)
| HSPredict.              (* runner.predict() *)

Inductive shutdown_step := ShutPool | ShutManager.

(* what SHMPickler.reducer_override does with an object, rule by rule, in source order; anything that is
   not a tensor or a tensor storage (NumPy arrays included) is left to the object's own reduction *)
Inductive reduce_rule :=
| RTensorCSR              (* torch.sparse_csr_tensor, (crow_indices, col_indices, values, shape) *)
| RTensorCSC              (* torch.sparse_csc_tensor, (ccol_indices, row_indices, values, shape) *)
| RTensorTorch            (* every other tensor (dense, COO coalesced or not, BSR, BSC): torch's reduce_tensor *)
| RStorageTorch           (* torch.UntypedStorage: torch's reduce_storage *)
| ROwnReduction.          (* return NotImplemented: the object's own __reduce_ex__(5), for ndarray NumPy's *)

(* what worker.initalize (the initialiser the executor runs once in every fresh worker process) does, statement by
   statement (logging left out); the extractor refuses every other statement *)
Inductive init_step :=
| InitDeclareGlobals      (* global __work_context, __progress *)
| InitCurrentProcess      (* proc = mp.current_process() *)
| InitFilterWarnings      (* warnings.filterwarnings("ignore", "Sparse CSR tensor support is in beta state", UserWarning) *)
| InitRebuildContext.     (* __work_context = shm_deserialize(ctx)   (an exception is re-raised) *)
