(* C17 -- physical layout of the arrays handed to the builder: NumPy strided views (C / Fortran order,
   transposed views, strided and reversed slices), sliced Arrow arrays, (sliced) Arrow list arrays given
   by their raw offsets / values / null mask.  Definitions only; proofs are in Proofs/C17_layout.v.

   The correspondence cases describe the supplied arrays at this level (base buffer, offset, strides /
   raw offsets, window), so the decoding "which value belongs to which entity" is done by the model:
   * nd1 / nd_rows: element i (resp. (i, j)) of a view is buf[off + i*st] (resp. buf[off + i*s0 + j*s1]);
   * ravel: ndarray.ravel() walks the LOGICAL matrix in row-major order whatever the strides;
   * dense_from_numpy: builder._add_dense_vector_attribute_numpy =
       FixedSizeListArray.from_arrays(values.ravel(), ncol)  (chunk = from_arrays);
   * la_window: the lists of an Arrow ListArray sliced at o with length n; la_flatten = ListArray.flatten()
     (what _expand_and_align_list_array puts into the value buffer of the column). *)
From Coq Require Import ZArith List Bool Arith.
From LK Require Import Model.C17_attributes.
Import ListNotations.

(* an element of a buffer addressed by an element index that strides may make negative *)
Definition buf_at {A} (d : A) (buf : list A) (k : Z) : A :=
  if (k <? 0)%Z then d else nth (Z.to_nat k) buf d.

(* 1-D strided view *)
Definition nd1 {A} (d : A) (buf : list A) (off st : Z) (n : nat) : list A :=
  map (fun i => buf_at d buf (off + Z.of_nat i * st)%Z) (seq 0 n).

(* 2-D strided view, as the list of its logical rows *)
Definition nd_rows {A} (d : A) (buf : list A) (off s0 s1 : Z) (n m : nat) : list (list A) :=
  map (fun i => nd1 d buf (off + Z.of_nat i * s0)%Z s1 m) (seq 0 n).

Definition ravel {A} (rows : list (list A)) : list A := concat rows.

Definition dense_from_numpy (buf : list elem) (off s0 s1 : Z) (n m : nat) : list (option (list elem)) :=
  map Some (chunk n m (ravel (nd_rows None buf off s0 s1 n m))).

(* Arrow array sliced at o with length n *)
Definition arrow_slice {A} (xs : list A) (o n : nat) : list A := firstn n (skipn o xs).

(* Arrow ListArray (raw offsets over shared values, null mask) sliced at o with length n *)
Definition la_window {A} (la : listarray A) (o n : nat) : list (option (list A)) :=
  map (fun r => if nth (o + r) (la_null la) true then None
                else Some (slice (la_values la) (nth (o + r) (la_offsets la) 0) (nth (S (o + r)) (la_offsets la) 0)))
      (seq 0 n).
Definition la_flatten {A} (la : listarray A) (o n : nat) : list A := flat_values (la_window la o n).
