(* C19 -- which generator stream a call gets when the seed is user-derived (lenskit/random.py: DerivingRNG,
   make_seed).  Definitions only; proofs in Proofs/C19_seed.v.

   A NumPy generator stream is determined by the SeedSequence it is built from, i.e. by the pair
   (entropy words, spawn key).  DerivingRNG holds a base SeedSequence (entropy `base`, no spawn key):
   * anonymous query: `self.seed.spawn(1)[0]` -- the k-th anonymous call on the component gets the k-th child,
     entropy `base`, spawn key [k];
   * identified query: `make_seed(self.seed, user_id)` -- entropy `base ++ [word user_id]`, no spawn key, where an
     int contributes itself and a str (utf-8) / bytes / UUID (its 16 bytes) contributes `_bytes_seed` of the bytes.
   Which branch does what is regenerated from the source (Gen/C19_len.v: seed_words, seed_digest,
   seed_derivation).  The digest is a parameter here: MD5 is not modelled. *)
From Coq Require Import ZArith List.
Import ListNotations.
Open Scope Z_scope.

Inductive ukey :=
| UInt (z : Z)                 (* int / numpy integer user id *)
| UStr (utf8 : list Z)         (* str, as its utf-8 bytes *)
| UBytes (b : list Z)          (* bytes *)
| UUuid (b : list Z).          (* UUID, as its 16 bytes *)

Definition key_bytes (k : ukey) : option (list Z) :=
  match k with UInt _ => None | UStr b | UBytes b | UUuid b => Some b end.

(* (entropy, spawn key) *)
Definition stream_id := (list Z * list Z)%type.

Section SeedMaterial.
  Variable digest : list Z -> Z.          (* lenskit.random._bytes_seed *)

  Definition key_word (k : ukey) : Z :=
    match k with UInt z => z | UStr b | UBytes b | UUuid b => digest b end.

  Definition user_stream (base : list Z) (k : ukey) : stream_id := (base ++ [key_word k], []).
  Definition anonymous_stream (base : list Z) (call : nat) : stream_id := (base, [Z.of_nat call]).

  (* the stream of one call of a sequence on one component: `call` counts the anonymous calls made before *)
  Definition call_stream (base : list Z) (call : nat) (user : option ukey) : stream_id :=
    match user with Some k => user_stream base k | None => anonymous_stream base call end.
End SeedMaterial.

(* a digest separates a family of byte strings *)
Definition separates (digest : list Z -> Z) (family : list (list Z)) : Prop :=
  forall a b, In a family -> In b family -> digest a = digest b -> a = b.
