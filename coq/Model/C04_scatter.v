(* C04 -- the mechanism every scorer shares: candidate identifiers are resolved against the
   training vocabulary with a marker for unknown items, a kernel scores the known numbers, the
   scores are scattered back through the known mask, and the result is a copy of the input list
   with only the score replaced.  Also: the multiply-first shortcut of the `implicit` bridge, the
   vocabulary look-up policies recorded by the generated sites table, and the boolean checks the
   correspondence runs evaluate on what the implementation returned.
   Definitions only; proofs are in Proofs/C04_proofs.v. *)
From Coq Require Import ZArith QArith Qabs List Bool String.
From LK Require Import Lib.QLib.
Import ListNotations.
Open Scope Q_scope.

Fixpoint number_from (n : nat) (vocab : list Z) (i : Z) : option nat :=
  match vocab with [] => None | j :: r => if Z.eqb i j then Some n else number_from (S n) r i end.
Definition number := number_from 0.

Section Scatter.
Variable F : Type.                                   (* all other fields of a list entry *)
Definition entry := (Z * F)%type.
Definition scored := (Z * F * option Q)%type.
Definition sid (s : scored) : Z := fst (fst s).
Definition sfields (s : scored) : F := snd (fst s).
Definition sscore (s : scored) : option Q := snd s.

(* the score of one item: a function of the model (vocab, f) and the item alone *)
Definition score1 (vocab : list Z) (f : nat -> option Q) (i : Z) : option Q :=
  match number vocab i with Some k => f k | None => None end.
Definition scatter (vocab : list Z) (f : nat -> option Q) (items : list entry) : list scored :=
  map (fun it => (fst it, snd it, score1 vocab f (fst it))) items.

(* the mechanism as the code writes it:
     nums = items.numbers(vocabulary=..., missing="negative"); mask = nums >= 0
     scores = full(len(items), nan); scores[mask] = kernel(nums[mask]); ItemList(items, scores=scores) *)
Definition numbers (vocab : list Z) (items : list entry) : list (option nat) :=
  map (fun it => number vocab (fst it)) items.
Definition known (nums : list (option nat)) : list nat :=
  flat_map (fun o => match o with Some k => [k] | None => [] end) nums.
Fixpoint fill (nums : list (option nat)) (vals : list (option Q)) : list (option Q) :=
  match nums with
  | [] => []
  | None :: r => None :: fill r vals
  | Some _ :: r => match vals with v :: vs => v :: fill r vs | [] => None :: fill r [] end
  end.
Definition with_scores (items : list entry) (scores : list (option Q)) : list scored :=
  map (fun p => (fst (fst p), snd (fst p), snd p)) (combine items scores).
Definition mask_scatter (vocab : list Z) (kernel : list nat -> list (option Q)) (items : list entry) : list scored :=
  let nums := numbers vocab items in
  with_scores items (fill nums (kernel (known nums))).
End Scatter.
Arguments scatter {F}. Arguments mask_scatter {F}. Arguments numbers {F}. Arguments with_scores {F}.
Arguments sid {F}. Arguments sfields {F}. Arguments sscore {F}.

(* ---- the multiply-first shortcut of lenskit.implicit.BaseRec.__call__ ----
   mult_first: prod = item_embeddings @ uf; prod[good]      else: item_embeddings[good] @ uf *)
Fixpoint qdot (a b : list Q) : Q :=
  match a, b with x :: a', y :: b' => x * y + qdot a' b' | _, _ => 0 end.
Definition dot_then_select (emb : list (list Q)) (uf : list Q) (good : list nat) : list Q :=
  let prod := map (fun e => qdot e uf) emb in map (fun k => nth k prod 0) good.
Definition select_then_dot (emb : list (list Q)) (uf : list Q) (good : list nat) : list Q :=
  map (fun e => qdot e uf) (map (fun k => nth k emb []) good).

(* ---- vocabulary look-up sites (the generated table Gen/C04_sites.v uses these) ---- *)
Inductive policy := PNegative | PNone | PError | POther.
Inductive subject := SCandidates | SHistory | SUser | SOtherSubject.
Inductive site :=
| LookupItems (file func : string) (subj : subject) (pol : policy)     (* <list>.numbers(..., missing=...) *)
| LookupUser (file func : string) (pol : policy)                       (* <vocab>.number(user, missing=...) *)
| Guarded (file func : string) (what : string)                         (* a look-up guarded by a membership test *)
| Reindex (file func : string)                                         (* scores.reindex(items.ids()) *)
| ReturnCopy (file func : string) (from_param : bool)                  (* return ItemList(<items parameter>, scores=...) *)
| ReturnOther (file func : string) (what : string).

Definition policy_eqb (a b : policy) : bool :=
  match a, b with PNegative, PNegative | PNone, PNone | PError, PError | POther, POther => true | _, _ => false end.
Definition site_ok (s : site) : bool :=
  match s with
  | LookupItems _ _ SCandidates pol => policy_eqb pol PNegative
  | LookupItems _ _ SHistory pol => policy_eqb pol PNegative
  | LookupItems _ _ _ _ => false
  | LookupUser _ _ pol => policy_eqb pol PNone
  | Guarded _ _ _ => true
  | Reindex _ _ => true
  | ReturnCopy _ _ from_param => from_param
  | ReturnOther _ _ _ => false
  end.

(* ---- checks evaluated on the implementation's answers ---- *)
Definition obs := list (Z * option Q).                      (* result: (item id, score) in result order *)

Definition ids_eqb (a b : list Z) : bool := all2 Z.eqb a b.
Definition aligned_b (cands : list Z) (o : obs) : bool := ids_eqb cands (map fst o).
Fixpoint lookup (i : Z) (o : obs) : option (option Q) :=
  match o with [] => None | (j, s) :: r => if Z.eqb i j then Some s else lookup i r end.
(* Tolerance of the metamorphic comparisons (permuted list, halves against the full list).  The scores are single-precision
   products evaluated by a different BLAS / torch / scipy kernel when the list has another size (gemv over the whole item
   table then gather, against a gather then a short dot): the two results differ by about eps32 * sum |terms|, which is NOT
   small relative to the result when the terms cancel (embedding products of size 20 summing to 1 differ by 1.2e-6, i.e.
   1.2 * 2^-20 relative).  The policy is therefore 2^-16 relative to the larger of the two scores with an absolute floor of
   2^-16 for scores below 1:   |x - y| <= 2^-16 * max(1, |x|, |y|).
   Repeated calls (same list, same query) are compared exactly (`same_b`), never with this tolerance. *)
Definition tol_meta : Q := 1 # 65536.                        (* 2^-16 *)
Definition score_close (tol : Q) (a b : option Q) : bool :=
  match a, b with
  | None, None => true
  | Some x, Some y => Qle_bool (Qabs (x - y)) (tol * Qmaxq 1 (Qmaxq (Qabs x) (Qabs y)))
  | _, _ => false
  end.
(* every entry of `other` carries the score the base call gave to the same item *)
Definition consistent_b (tol : Q) (base other : obs) : bool :=
  forallb (fun e => match lookup (fst e) base with Some s => score_close tol (snd e) s | None => false end) other.
Definition same_b (a b : obs) : bool :=
  all2 (fun x y => Z.eqb (fst x) (fst y) &&
                   match snd x, snd y with None, None => true | Some p, Some q => Qeq_bool p q | _, _ => false end) a b.
Inductive unknown_policy := UMissing | UBaseline | UAny.
Definition unknown_ok (pol : unknown_policy) (vocab : list Z) (o : obs) : bool :=
  forallb (fun e => match number vocab (fst e), pol with
                    | None, UMissing => match snd e with None => true | Some _ => false end
                    | None, UBaseline => match snd e with Some _ => true | None => false end
                    | None, UAny => true
                    | Some _, _ => true
                    end) o.

Record call_obs := {
  c_cands : list Z; c_perm : list Z; c_half_a : list Z; c_half_b : list Z;
  c_base : obs; c_repeat : obs; c_permuted : obs; c_a : obs; c_b : obs; c_again : obs;
  c_fresh : obs      (* a fresh query object of the same content, history and candidates given plainly by identifier *)
}.
Definition call_ok (tol : Q) (pol : unknown_policy) (vocab : list Z) (c : call_obs) : bool :=
  aligned_b (c_cands c) (c_base c) && aligned_b (c_cands c) (c_repeat c) && aligned_b (c_cands c) (c_again c)
  && aligned_b (c_perm c) (c_permuted c) && aligned_b (c_half_a c) (c_a c) && aligned_b (c_half_b c) (c_b c)
  && unknown_ok pol vocab (c_base c)
  && aligned_b (c_cands c) (c_fresh c)
  && same_b (c_base c) (c_repeat c) && same_b (c_base c) (c_again c) && same_b (c_base c) (c_fresh c)
  && consistent_b tol (c_base c) (c_permuted c) && consistent_b tol (c_base c) (c_a c) && consistent_b tol (c_base c) (c_b c).

(* ---- the caller's inputs read back after every call ----
   One query object is handed to the base / repeat / permuted / half / again calls.  `hist` is the query's history as
   (item id, rating) pairs; after each call it is read back and compared with what was supplied.  The flag of an entry
   stands for everything else the harness compares bit for bit outside Coq: the user identifier, the other history fields
   and their storage types, the very array objects handed over, and the candidate list (ids, fields, flags, no score). *)
Definition hist := list (Z * option Q).
Definition opt_hist_eqb (a b : option hist) : bool :=
  match a, b with None, None => true | Some x, Some y => same_b x y | _, _ => false end.
Definition kept_ok (supplied : option hist) (afters : list (option hist * bool)) : bool :=
  forallb (fun a => snd a && opt_hist_eqb supplied (fst a)) afters.
Definition call_kept_ok (tol : Q) (pol : unknown_policy) (vocab : list Z) (c : call_obs)
    (supplied : option hist) (afters : list (option hist * bool)) : bool :=
  call_ok tol pol vocab c && kept_ok supplied afters.

(* ---- every candidate scored ALONE (added in the round-3 fixer round) ----
   `picks` are candidates of the base list, `singles` the answers of the one-item calls made with the same query object:
   each lists exactly its item and carries the score the base call gave to that item. *)
Definition singles_ok (tol : Q) (base : obs) (picks : list Z) (singles : list obs) : bool :=
  all2 (fun i o => aligned_b [i] o && consistent_b tol base o) picks singles.

(* ---- a kernel evaluated in blocks ----
   Scorers that bound their working set (FlexMF-style batches, k-NN similarity blocks) cut the KNOWN numbers into blocks of
   at most `b`, evaluate the kernel per block and lay the answers end to end; the scatter through the mask is unchanged.
   `chunks_fuel` is total for every b (b = 0 included: the fuel runs out and the rest is one block). *)
Fixpoint chunks_fuel (fuel b : nat) (ks : list nat) : list (list nat) :=
  match fuel with
  | O => [ks]
  | S fu => match ks with [] => [] | _ => firstn b ks :: chunks_fuel fu b (skipn b ks) end
  end.
Definition chunks (b : nat) (ks : list nat) : list (list nat) := chunks_fuel (List.length ks) b ks.
Definition blocked (b : nat) (kernel : list nat -> list (option Q)) (ks : list nat) : list (option Q) :=
  flat_map kernel (chunks b ks).
(* the defective variant: block answers written by POSITION IN THE KNOWN LIST into the full-length score vector
   (scores[start:end] = block) instead of through the mask *)
Fixpoint write_at (start : nat) (vals : list (option Q)) (scores : list (option Q)) : list (option Q) :=
  match start, scores with
  | _, [] => []
  | O, s :: r => match vals with v :: vs => v :: write_at O vs r | [] => s :: r end
  | S k, s :: r => s :: write_at k vals r
  end.
Definition positional_scatter {F} (vocab : list Z) (kernel : list nat -> list (option Q)) (items : list (entry F)) : list (scored F) :=
  let nums := numbers vocab items in
  with_scores items (write_at 0 (kernel (known nums)) (map (fun _ => None) items)).

(* ---- integer configuration fields of the scorers that the generator sets to small values ----
   mirrors harness/props/c04.py KNOBS (compared on every run); Gen/C04_sites.v `config_int_fields` is what the source has *)
Definition explored_int_fields : list (string * string) :=
  [ ("ItemKNNConfig", "max_nbrs"); ("ItemKNNConfig", "min_nbrs"); ("ItemKNNConfig", "save_nbrs"); ("ItemKNNConfig", "block_size")
  ; ("UserKNNConfig", "max_nbrs"); ("UserKNNConfig", "min_nbrs")
  ; ("ALSConfig", "embedding_size"); ("ALSConfig", "epochs")
  ; ("FunkSVDConfig", "features"); ("FunkSVDConfig", "epochs")
  ; ("BiasedSVDConfig", "embedding_size"); ("BiasedSVDConfig", "n_iter")
  ; ("FlexMFConfigBase", "embedding_size"); ("FlexMFConfigBase", "batch_size"); ("FlexMFConfigBase", "epochs")
  ; ("FlexMFImplicitConfig", "negative_count") ]%string.
(* components the harness cannot drive (hpfrec is not installed: HPF is covered by the sites table only) *)
Definition undriven_int_fields : list (string * string) := [ ("HPFConfig", "embedding_size") ]%string.
Definition field_eqb (a b : string * string) : bool := String.eqb (fst a) (fst b) && String.eqb (snd a) (snd b).
Definition int_field_explored (f : string * string) : bool := existsb (field_eqb f) (explored_int_fields ++ undriven_int_fields).
