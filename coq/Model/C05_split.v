(* C05 -- executable model of lenskit.splitting (records.py, users.py, temporal.py, split.py) and of
   DatasetBuilder.filter_interactions, branch by branch, after the `fix:` commits listed in
   notes/design/C05.md.  Definitions only.

   A record is (user, item, attribute, time); the attribute stands for every non-key column (the
   harness encodes the rating as an integer), times are integers in the unit of the stored column.
   Random choices are inputs: every rng.shuffle / rng.choice result and every np.argsort result is
   handed to the model (`draws`, `hdraw`), so the theorems quantify over all of them.
   The per-user hold-out bodies are the GENERATED ones (Gen/C05_holdout.v). *)
From Coq Require Import ZArith QArith List Bool.
From LK Require Import Lib.SplitLib Gen.C05_holdout.
Import ListNotations.
Open Scope Z_scope.

Record rec := mkRec { ru : Z; ri : Z; ra : Z; rt : Z }.
Definition dflt : rec := mkRec 0 0 0 0.
Definition pair_of (r : rec) : Z * Z := (ru r, ri r).

(* a train-test pair: TTSplit.train (a dataset: its interaction records) and TTSplit.test (an item
   list collection keyed by user: (user, that user's test records)) *)
Record fold := mkFold { f_train : list rec; f_test : list (Z * list rec) }.
Definition test_recs (f : fold) : list rec := concat (map snd (f_test f)).   (* = test_df (to_df) *)
Definition test_keys (f : fold) : list Z := map fst (f_test f).
Definition train_df (f : fold) : list rec := f_train f.
Definition test_size (f : fold) : nat := length (test_recs f).

Inductive result := Folds (l : list fold) | Err (e : err).

(* ItemListCollection.from_df(df, UserIDKey): one list per user present in the frame *)
Definition group_by_user (l : list rec) : list (Z * list rec) :=
  map (fun u => (u, filter (fun r => ru r =? u) l)) (nodup Z.eq_dec (map ru l)).

(* ---- records.py ------------------------------------------------------------------------------ *)
(* _make_pair: mask[test_is] = True; test = from_df(df[mask]); train = clear + add(df[~mask]) *)
Definition make_pair (test_only : bool) (recs : list rec) (test_is : list nat) : fold :=
  mkFold (if test_only then [] else take_mask dflt (fun p => negb (in_idx test_is p)) recs)
         (group_by_user (take_mask dflt (in_idx test_is) recs)).

Definition crossfold_records (recs : list rec) (k : Z) (test_only : bool) (perm : list nat) : result :=
  if k <=? 0 then Err EValue                      (* np.array_split: number sections must be larger than 0 *)
  else Folds (map (make_pair test_only recs) (array_split perm (Z.to_nat k))).

Definition sequence (l : list (option fold)) : result :=
  if forallb (fun o => match o with Some _ => true | None => false end) l
  then Folds (flat_map (fun o => match o with Some f => [f] | None => [] end) l)
  else Err EValue.

Definition sample_records (recs : list rec) (size : Z) (repeats : option Z) (disjoint test_only : bool)
           (draws : list (list nat)) : result :=
  let n := Z.of_nat (length recs) in
  match repeats with
  | None =>                                                        (* test_only is not forwarded here *)
      match np_choice (nth 0 draws []) n size with
      | None => Err EValue
      | Some p => Folds [make_pair false recs p]
      end
  | Some reps =>
      if disjoint && (n <=? reps * size) then
        crossfold_records recs reps false (nth 0 draws [])         (* fallback; test_only not forwarded *)
      else if disjoint then
        Folds (map (make_pair test_only recs) (slices (nth 0 draws []) size reps))
      else
        sequence (map (fun i => option_map (make_pair test_only recs) (np_choice (nth i draws []) n size))
                      (seq 0 (Z.to_nat reps)))
  end.

(* ---- holdout.py (generated bodies) ----------------------------------------------------------- *)
Inductive field := FTime | FAttr | FMissing.
(* F is the type of the configured fraction (binary64 floats in the case files) and `rm len f` is
   Python's round(len * f); the theorems hold for every F and rm *)
Inductive holdout (F : Type) :=
| HSampleN (n : Z) | HSampleFrac (f : F) | HLastN (n : Z) (fld : field) | HLastFrac (f : F) (fld : field).
Arguments HSampleN {F} n.
Arguments HSampleFrac {F} f.
Arguments HLastN {F} n fld.
Arguments HLastFrac {F} f fld.
(* the row of a user without interactions is an empty item list, which carries no fields at all *)
Definition col_of (fld : field) (row : list rec) : option (list Z) :=
  match row with
  | [] => None
  | _ => match fld with FTime => Some (map rt row) | FAttr => Some (map ra row) | FMissing => None end
  end.
(* what the libraries returned for one call of the hold-out: the rng.choice draw and the argsort *)
Definition hdraw : Type := list nat * list nat.
Definition no_draw : hdraw := ([], []).

Section Users.
Context {F : Type} (rm : Z -> F -> option Z).

Definition run_holdout (h : holdout F) (row : list rec) (d : hdraw) : hres :=
  let len := Z.of_nat (length row) in
  let ch := np_choice (fst d) in
  let srt := fun _ : list Z => snd d in
  match h with
  | HSampleN n => SampleN_call rm ch srt n len None
  | HSampleFrac f => SampleFrac_call rm ch srt f len None
  | HLastN n fld => LastN_call rm ch srt n len (col_of fld row)
  | HLastFrac f fld => LastFrac_call rm ch srt f len (col_of fld row)
  end.

(* ---- users.py ------------------------------------------------------------------------------------ *)
Definition user_row (recs : list rec) (u : Z) : list rec := filter (fun r => ru r =? u) recs.

Inductive tres := TOk (t : list (Z * list rec)) | TErr (e : err).
Fixpoint split_tests (recs : list rec) (h : holdout F) (us : list Z) (ds : list hdraw) : tres :=
  match us with
  | [] => TOk []
  | u :: us' =>
      let row := user_row recs u in
      match run_holdout h row (hd no_draw ds) with
      | HErr e => TErr e
      | HOk idx =>
          match split_tests recs h us' (tl ds) with
          | TErr e => TErr e
          | TOk t => TOk ((u, gather dflt row idx) :: t)
          end
      end
  end.

Definition mem_pair (p : Z * Z) (l : list (Z * Z)) : bool :=
  existsb (fun q => (fst p =? fst q) && (snd p =? snd q)) l.

(* filter_interactions(remove=...): anti-join on the (user, item) columns *)
Definition anti_join (recs : list rec) (pairs : list (Z * Z)) : list rec :=
  filter (fun r => negb (mem_pair (pair_of r) pairs)) recs.

Definition make_split (recs : list rec) (h : holdout F) (test_only : bool) (us : list Z) (ds : list hdraw) : option fold + err :=
  match split_tests recs h us ds with
  | TErr e => inr e
  | TOk t =>
      let train :=
        if test_only then []                                         (* clear_relationships *)
        else if (0 <? length t)%nat then anti_join recs (map pair_of (concat (map snd t)))
        else recs in                                                 (* no test users: nothing removed *)
      inl (Some (mkFold train t))
  end.

Fixpoint collect (l : list (option fold + err)) : result :=
  match l with
  | [] => Folds []
  | inr e :: _ => Err e
  | inl None :: _ => Err EValue
  | inl (Some f) :: r => match collect r with Folds fs => Folds (f :: fs) | Err e => Err e end
  end.

Definition split_sections (recs : list rec) (users : list Z) (h : holdout F) (test_only : bool)
           (secs : list (list nat)) (hds : list (list hdraw)) : result :=
  collect (map (fun j => make_split recs h test_only (gather 0 users (nth j secs [])) (nth j hds []))
               (seq 0 (length secs))).

Definition crossfold_users (recs : list rec) (users : list Z) (k : Z) (h : holdout F) (test_only : bool)
           (perm : list nat) (hds : list (list hdraw)) : result :=
  if k <=? 0 then Err EValue
  else split_sections recs users h test_only (array_split perm (Z.to_nat k)) hds.

(* the test users (positions in data.users.ids()) of each pair sample_users produces, branch by branch;
   None: numpy raised ValueError *)
Fixpoint all_some {A} (l : list (option A)) : option (list A) :=
  match l with
  | [] => Some []
  | None :: _ => None
  | Some x :: r => match all_some r with Some xs => Some (x :: xs) | None => None end
  end.
Definition user_fallback (nu size : Z) (repeats : option Z) (disjoint : bool) : bool :=
  match repeats with Some reps => disjoint && (nu <=? reps * size) | None => false end.
Definition user_sections (nu size : Z) (repeats : option Z) (disjoint : bool) (draws : list (list nat)) : option (list (list nat)) :=
  match repeats with
  | Some reps =>
      if disjoint && (nu <=? reps * size) then                       (* crossfold_users(data, repeats, method, rng=rng) *)
        if reps <=? 0 then None else Some (array_split (nth 0 draws []) (Z.to_nat reps))
      else if disjoint then Some (slices (nth 0 draws []) size reps) (* shuffle, unums[i*size:(i+1)*size] *)
      else all_some (map (fun i => np_choice (nth i draws []) nu size) (seq 0 (Z.to_nat reps)))
  | None => option_map (fun p => [p]) (np_choice (nth 0 draws []) nu size)   (* rng.choice(users, size) *)
  end.
(* test_only is forwarded only by the two sampling branches *)
Definition user_test_only (nu size : Z) (repeats : option Z) (disjoint test_only : bool) : bool :=
  match repeats with
  | Some _ => if user_fallback nu size repeats disjoint then false else test_only
  | None => false
  end.

Definition sample_users (recs : list rec) (users : list Z) (size : Z) (repeats : option Z)
           (disjoint test_only : bool) (h : holdout F) (draws : list (list nat)) (hds : list (list hdraw)) : result :=
  let nu := Z.of_nat (length users) in
  match user_sections nu size repeats disjoint draws with
  | None => Err EValue
  | Some secs => split_sections recs users h (user_test_only nu size repeats disjoint test_only) secs hds
  end.

End Users.

(* ---- temporal.py and filter_interactions(min_time, max_time) --------------------------------------- *)
Open Scope Q_scope.
Definition Qlt_b (a b : Q) : bool := (Qnum a * QDen b <? Qnum b * QDen a)%Z.
Definition Qle_b (a b : Q) : bool := (Qnum a * QDen b <=? Qnum b * QDen a)%Z.
Definition tq (r : rec) : Q := inject_Z (rt r).

Inductive colrep := ColInt | ColTs | ColNone.     (* integer seconds | timestamp[ns] | no timestamp column *)
(* a cut-off as given by the caller: UNIX seconds (int / float) or a naive wall-clock time
   (datetime or ISO text), both in seconds *)
Inductive cutoff := CNum (s : Q) | CWall (s : Q).
(* value the cut-off is compared with, in the unit of the column.  `off` is the local zone's offset
   (seconds east of UTC): only a naive wall-clock time against an integer column consults it
   (datetime.timestamp()). *)
Definition conv (c : colrep) (off : Z) (x : cutoff) : Q :=
  match c, x with
  | ColTs, CNum s => s * 1000000000        (* _make_time: fromtimestamp(s, utc), naive *)
  | ColTs, CWall s => s * 1000000000
  | _, CNum s => s                         (* _unix_time: numbers are kept *)
  | _, CWall s => s - inject_Z off
  end.

Definition time_fold (recs : list rec) (t : Q) (t2 : option Q) : fold :=
  mkFold (filter (fun r => Qlt_b (tq r) t) recs)                              (* filter_interactions(max_time=t) *)
         (group_by_user (filter (fun r => Qle_b t (tq r) &&                   (* ts_col >= t *)
                                          match t2 with None => true | Some e => Qlt_b (tq r) e end) recs)).
Fixpoint time_folds (recs : list rec) (cuts : list Q) (endt : option Q) : list fold :=
  match cuts with
  | [] => []
  | t :: rest => time_fold recs t (match rest with t' :: _ => Some t' | [] => endt end) :: time_folds recs rest endt
  end.
Definition split_global_time (c : colrep) (off : Z) (recs : list rec) (cuts : list cutoff) (endt : option cutoff) : result :=
  match c with
  | ColNone => Err ERuntime
  | _ => Folds (time_folds recs (map (conv c off) cuts) (option_map (conv c off) endt))
  end.
(* split_temporal_fraction = split_global_time at the quantile pandas computed (a number for an
   integer column, a timestamp for a timestamp column); the quantile itself is an input *)

Definition filter_window (c : colrep) (off : Z) (recs : list rec) (mn mx : option cutoff) : option (list rec) :=
  match c, mn, mx with
  | ColNone, None, None => Some recs
  | ColNone, _, _ => None                                            (* RuntimeError *)
  | _, _, _ =>
      Some (filter (fun r => match mn with None => true | Some a => Qle_b (conv c off a) (tq r) end &&
                             match mx with None => true | Some b => Qlt_b (tq r) (conv c off b) end) recs)
  end.
Close Scope Q_scope.

(* ---- comparison with an observation (canonical: every table sorted) -------------------------------- *)
Definition rec_leb (a b : rec) : bool :=
  if ru a <? ru b then true else if ru b <? ru a then false else
  if ri a <? ri b then true else if ri b <? ri a then false else
  if ra a <? ra b then true else if ra b <? ra a then false else rt a <=? rt b.
Definition rec_eqb (a b : rec) : bool := (ru a =? ru b) && (ri a =? ri b) && (ra a =? ra b) && (rt a =? rt b).
Fixpoint insert_by {A} (leb : A -> A -> bool) (x : A) (l : list A) : list A :=
  match l with [] => [x] | y :: r => if leb x y then x :: l else y :: insert_by leb x r end.
Definition sort_by {A} (leb : A -> A -> bool) (l : list A) : list A := fold_right (insert_by leb) [] l.
Fixpoint list_eqb {A} (eqb : A -> A -> bool) (a b : list A) : bool :=
  match a, b with
  | [], [] => true
  | x :: a', y :: b' => eqb x y && list_eqb eqb a' b'
  | _, _ => false
  end.
Definition same_recs (model obs : list rec) : bool := list_eqb rec_eqb (sort_by rec_leb model) (sort_by rec_leb obs).
Definition same_keys (model obs : list Z) : bool := list_eqb Z.eqb (sort_by Z.leb model) (sort_by Z.leb obs).

(* observed pair: train table, test lists flattened, test keys, train_df, test_df, test_size *)
Record obs_fold := mkObs { o_train : list rec; o_test : list rec; o_keys : list Z;
                           o_train_df : list rec; o_test_df : list rec; o_size : nat }.
Definition agree_fold (f : fold) (o : obs_fold) : bool :=
  same_recs (f_train f) (o_train o) && same_recs (test_recs f) (o_test o) && same_keys (test_keys f) (o_keys o) &&
  same_recs (train_df f) (o_train_df o) && same_recs (test_recs f) (o_test_df o) && (test_size f =? o_size o)%nat.
Fixpoint agree_folds (fs : list fold) (os : list obs_fold) : bool :=
  match fs, os with
  | [], [] => true
  | f :: fs', o :: os' => agree_fold f o && agree_folds fs' os'
  | _, _ => false
  end.
(* error code 0 = no error *)
Definition agree (r : result) (code : nat) (os : list obs_fold) : bool :=
  match r with
  | Err e => (err_code e =? code)%nat
  | Folds fs => (code =? 0)%nat && agree_folds fs os
  end.
Definition agree_rows (r : option (list rec)) (code : nat) (rows : list rec) : bool :=
  match r with
  | None => (code =? 3)%nat
  | Some l => (code =? 0)%nat && same_recs l rows
  end.

(* checks that what the libraries returned satisfies the contracts the theorems assume *)
Fixpoint adj_sorted_b (col : list Z) (l : list nat) : bool :=
  match l with
  | a :: ((b :: _) as r) => (nth a col 0 <=? nth b col 0) && adj_sorted_b col r
  | _ => true
  end.
Definition argsort_ok_b (col : list Z) (ordered : list nat) : bool :=
  is_perm_b (length col) ordered && adj_sorted_b col ordered.
Definition choice_ok_b (len : nat) (n : Z) (draw : list nat) : bool :=
  valid_idx_b len draw && (Z.of_nat (length draw) =? n).
