(* C15 -- vocabulary of the effect lists that harness/translate/c15.py extracts from
   data/container.py (DataContainer.save / DataContainer.load).  Definitions only. *)
From Coq Require Import List.
Import ListNotations.

Inductive tkind := KEntities | KRelationships.

(* statements of DataContainer.save, in source order *)
Inductive save_step :=
| SRmtreeIfExists      (* if path.exists(): rmtree(path) *)
| SMkdir               (* path.mkdir(exist_ok=True, parents=True) *)
| SWriteSchema         (* with open(path / "schema.json", "wt") ...: print(self.schema.model_dump_json()) *)
| SWriteTables         (* for name, table in self.tables.items(): write_table(table, path / f"{name}.parquet") *)
| SWriteSummary.       (* save_stats(self, path / "summary.md") *)

(* statements of DataContainer.load, in source order *)
Inductive load_step :=
| LReadSchema                  (* schema = DataSchema.model_validate_json((path / "schema.json").read_text()) *)
| LReadTables (k : tkind)      (* for name in schema.<k>: tables[name] = read_table(path / f"{name}.parquet") *)
| LReturn.                     (* return cls(schema, tables) *)
