(* C01 -- executable model of the dataset builder and of the views of a built dataset
   (src/lenskit/data/builder.py: add_entities, add_relationships/add_interactions, _resolve_entity_ids,
   filter_interactions, clear_relationships, build; relationships.py: MatrixRelationshipSet.__init__
   (sort, value_counts, row pointers), arrow/pandas, csr_structure, coo_structure, scipy, torch,
   row_table, _compute_stats; vocab.py: number, numbers, terms; matrix.py: CSRStructure/COOStructure).

   Identifiers are integers: the harness maps the identifiers of a case to Z by an order-isomorphism
   (integers to themselves, strings to their rank in byte order), so one model serves both.
   Attribute values are integers or missing (None = Arrow null / NaN / NaT): ratings are generated as
   k/2 and carried as k, timestamps and the extra column are integers.  A record carries one position
   per attribute column of the case's schema; a batch that lacks a column has None there (Arrow's
   permissive concat_tables fills nulls).  Time bounds are rationals (float seconds, date-times with a
   sub-second part).  Definitions only; proofs are in Proofs/C01_*.v. *)
From Coq Require Import ZArith QArith List Bool Arith.
Import ListNotations.
Open Scope Z_scope.

Definition id := Z.
Definition vocab := list id.                       (* number = position *)

(* ---- vocabulary look-ups ---- *)
Fixpoint index_of (x : id) (v : vocab) : option nat :=
  match v with
  | [] => None
  | y :: r => if Z.eqb x y then Some O else option_map S (index_of x r)
  end.
Definition known (v : vocab) (x : id) : bool := match index_of x v with Some _ => true | None => false end.
Definition term (v : vocab) (n : nat) : id := nth n v 0.

(* ---- pc.unique(ids).sort(): insertion sort of the de-duplicated ids ---- *)
Fixpoint insert_z (x : Z) (l : list Z) : list Z :=
  match l with
  | [] => [x]
  | y :: r => if x <=? y then x :: l else y :: insert_z x r
  end.
Definition sort_z (l : list Z) : list Z := fold_right insert_z [] l.
Definition mem_z (x : Z) (l : list Z) : bool := existsb (Z.eqb x) l.
Fixpoint dedup_z (l : list Z) : list Z :=
  match l with
  | [] => []
  | x :: r => if mem_z x r then dedup_z r else x :: dedup_z r
  end.

Inductive err := EData | ENotImpl | ERuntime | EAssert.
Inductive res (A : Type) := Ok (a : A) | Err (e : err).
Arguments Ok {A} a. Arguments Err {A} e.

Inductive dup_policy := DupError | DupUpdate.       (* "overwrite" behaves as "update" *)
Definition is_dup_error (p : dup_policy) : bool := match p with DupError => true | DupUpdate => false end.

Definition opt_vocab (v : option vocab) : vocab := match v with Some t => t | None => [] end.

(* DatasetBuilder.add_entities(cls, new, duplicates=pol); None = the class has no table yet *)
Definition add_entities (v : option vocab) (new : list id) (pol : dup_policy) : res (option vocab) :=
  let ids := sort_z (dedup_z new) in
  if (length ids <? length new)%nat then Err EData                      (* duplicate IDs inside `new` *)
  else
    let cur := opt_vocab v in
    let fresh := filter (fun x => negb (known cur x)) ids in
    if (length fresh <? length ids)%nat && is_dup_error pol then Err EData (* re-inserts not allowed *)
    else Ok (Some (cur ++ fresh)).

(* ---- relationship records ---- *)
Definition attrs := list (option Z).
Definition irow : Type := id * id * attrs.          (* input record: user id, item id, attribute values *)
Definition rec : Type := nat * nat * attrs.         (* stored record: user number, item number, attrs *)
Definition r_u (r : rec) : nat := fst (fst r).
Definition r_i (r : rec) : nat := snd (fst r).
Definition r_a (r : rec) : attrs := snd r.

(* which attribute columns the interaction frames of a case carry, in this order *)
Record schema := { s_rating : bool; s_ts : bool; s_extra : bool }.
Definition ts_pos (s : schema) : nat := if s_rating s then 1%nat else 0%nat.
Definition ts_of (s : schema) (a : attrs) : option Z := nth (ts_pos s) a None.
Definition rating2_of (a : attrs) : option Z := nth 0 a None.    (* twice the rating *)

(* which attribute columns (positions of the schema) a table carries; [] = none *)
Definition colset := list bool.
Fixpoint or_cols (a b : colset) : colset :=
  match a, b with
  | [], _ => b
  | _, [] => a
  | x :: a', y :: b' => (x || y) :: or_cols a' b'
  end.
Definition has_col (c : colset) (k : nat) : bool := nth k c false.
Definition has_ts (s : schema) (c : colset) : bool := s_ts s && has_col c (ts_pos s).
Definition has_rating (s : schema) (c : colset) : bool := s_rating s && has_col c 0.
(* the values of the columns a table carries *)
Fixpoint select (c : colset) (a : attrs) : attrs :=
  match c, a with
  | b :: c', x :: a' => if b then x :: select c' a' else select c' a'
  | _, _ => []
  end.

(* min_time <= timestamp < max_time on an integer column with rational bounds, as Arrow evaluates the
   mask: a comparison with a null timestamp is null and `filter` drops the row *)
Definition in_window (lo hi : option Q) (t : option Z) : bool :=
  match lo, hi with
  | None, None => true
  | _, _ =>
    match t with
    | None => false
    | Some z =>
      match lo with Some l => Qle_bool l (inject_Z z) | None => true end &&
      match hi with Some h => negb (Qle_bool h (inject_Z z)) | None => true end
    end
  end.

Inductive repeats := RAllowed | RForbidden | RPresent.

Record bstate := {
  b_users : option vocab;
  b_items : option vocab;
  b_table : list rec;
  b_cols : colset;               (* the attribute columns the relationship table carries *)
  b_repeats : repeats
}.
Definition init_state (allow_repeats : bool) : bstate :=
  {| b_users := None; b_items := None; b_table := []; b_cols := [];
     b_repeats := if allow_repeats then RAllowed else RForbidden |}.

Inductive cls := User | Item.
Inductive miss_policy := MInsert | MFilter | MError.
Inductive remove_spec :=
  | RemPairs (l : list (id * id))        (* user_id + item_id columns *)
  | RemUsers (l : list id)               (* user_id column only *)
  | RemItems (l : list id).
Inductive op :=
  | AddEntities (c : cls) (ids : list id) (p : dup_policy)
  | AddInteractions (rows : list irow) (cols : colset) (p : miss_policy)   (* cols: the columns this frame carries *)
  | FilterInteractions (lo hi : option Q) (rem : option remove_spec)
  | Clear.

Definition nat_pair_eqb (a b : nat * nat) : bool := Nat.eqb (fst a) (fst b) && Nat.eqb (snd a) (snd b).
Fixpoint has_dup_pair (l : list (nat * nat)) : bool :=
  match l with
  | [] => false
  | x :: r => existsb (nat_pair_eqb x) r || has_dup_pair r
  end.

(* _resolve_entity_ids *)
Definition resolve (v : vocab) (x : id) : option nat := index_of x v.

Definition uid_of (r : irow) : id := fst (fst r).
Definition iid_of (r : irow) : id := snd (fst r).

(* the `for alias, e_type in rc_def.entities.items()` loop of add_relationships, one class *)
Definition link_class (v : option vocab) (ids : list id) (p : miss_policy) : res (option vocab * list (option nat)) :=
  let v1 := match p with
            | MInsert => match add_entities v (dedup_z ids) DupUpdate with Ok t => t | Err _ => v end   (* pc.unique(ids); cannot fail *)
            | _ => v
            end in
  match v1 with
  | None => Err EData                                    (* no entities of class *)
  | Some t =>
    let nums := map (resolve t) ids in
    if forallb (fun o => match o with Some _ => true | None => false end) nums then Ok (v1, nums)
    else match p with
         | MError => Err EData                           (* unknown IDs *)
         | _ => Ok (v1, nums)
         end
  end.

Fixpoint zip_recs (us is_ : list (option nat)) (rows : list irow) : list rec :=
  match us, is_, rows with
  | u :: us', i :: is', r :: rows' =>
      match u, i with
      | Some un, Some inn => (un, inn, snd r) :: zip_recs us' is' rows'
      | _, _ => zip_recs us' is' rows'                   (* link_mask filters the record *)
      end
  | _, _, _ => []
  end.

Definition is_none {A} (o : option A) : bool := match o with None => true | Some _ => false end.
(* filter_interactions resolves an `<entity>_id` removal column against that entity's table *)
Definition needs_table {A} (rem : option remove_spec) (users items : option A) : bool :=
  match rem with
  | None => false
  | Some (RemPairs _) => is_none users || is_none items
  | Some (RemUsers _) => is_none users
  | Some (RemItems _) => is_none items
  end.

(* one builder operation: new state and the error it raised, if any.  A failing operation may have
   mutated the builder already (entities inserted before the repeat check) -- this is modelled. *)
Definition step (s : schema) (st : bstate) (o : op) : bstate * option err :=
  match o with
  | AddEntities c ids p =>
      match c with
      | User => match add_entities (b_users st) ids p with
                | Ok v => ({| b_users := v; b_items := b_items st; b_table := b_table st; b_cols := b_cols st; b_repeats := b_repeats st |}, None)
                | Err e => (st, Some e)
                end
      | Item => match add_entities (b_items st) ids p with
                | Ok v => ({| b_users := b_users st; b_items := v; b_table := b_table st; b_cols := b_cols st; b_repeats := b_repeats st |}, None)
                | Err e => (st, Some e)
                end
      end
  | AddInteractions rows cols p =>
      match link_class (b_users st) (map uid_of rows) p with
      | Err e => (st, Some e)
      | Ok (us, unums) =>
        let st1 := {| b_users := us; b_items := b_items st; b_table := b_table st; b_cols := b_cols st; b_repeats := b_repeats st |} in
        match link_class (b_items st) (map iid_of rows) p with
        | Err e => (st1, Some e)
        | Ok (is_, inums) =>
          let st2 := {| b_users := us; b_items := is_; b_table := b_table st; b_cols := b_cols st; b_repeats := b_repeats st |} in
          let tbl := b_table st ++ zip_recs unums inums rows in
          let done rp := ({| b_users := us; b_items := is_; b_table := tbl; b_cols := or_cols (b_cols st) cols; b_repeats := rp |}, None) in
          match b_repeats st with
          | RPresent => done RPresent
          | RAllowed => if has_dup_pair (map fst tbl) then done RPresent else done RAllowed
          | RForbidden => if has_dup_pair (map fst tbl) then (st2, Some EData) else done RForbidden
          end
        end
      end
  | FilterInteractions lo hi rem =>
      let wants_time := match lo, hi with None, None => false | _, _ => true end in
      if wants_time && negb (has_ts s (b_cols st)) then (st, Some ERuntime)     (* timestamp column required *)
      else if needs_table rem (b_users st) (b_items st) then (st, Some EAssert)  (* assert etbl is not None *)
      else
        let keep_time (r : rec) := in_window lo hi (ts_of s (r_a r)) in
        let users := opt_vocab (b_users st) in
        let items := opt_vocab (b_items st) in
        let num_in (xs : list (option nat)) (n : nat) := existsb (fun o => match o with Some k => Nat.eqb k n | None => false end) xs in
        let removed (r : rec) :=
          match rem with
          | None => false
          | Some (RemPairs l) =>
              existsb (fun p => match resolve users (fst p), resolve items (snd p) with
                                | Some u, Some i => Nat.eqb u (r_u r) && Nat.eqb i (r_i r)
                                | _, _ => false end) l
          | Some (RemUsers l) => num_in (map (resolve users) l) (r_u r)
          | Some (RemItems l) => num_in (map (resolve items) l) (r_i r)
          end in
        ({| b_users := b_users st; b_items := b_items st;
            b_table := filter (fun r => keep_time r && negb (removed r)) (b_table st);
            b_cols := b_cols st; b_repeats := b_repeats st |}, None)
  | Clear =>
      ({| b_users := b_users st; b_items := b_items st; b_table := []; b_cols := []; b_repeats := b_repeats st |}, None)
  end.

(* run an operation list, collecting the per-operation errors and the vocabularies after each step *)
Fixpoint run (s : schema) (st : bstate) (ops : list op) : bstate * list (option err * (vocab * vocab)) :=
  match ops with
  | [] => (st, [])
  | o :: r =>
      let '(st1, e) := step s st o in
      let '(st2, log) := run s st1 r in
      (st2, (e, (opt_vocab (b_users st1), opt_vocab (b_items st1))) :: log)
  end.
Definition final (s : schema) (allow_repeats : bool) (ops : list op) : bstate := fst (run s (init_state allow_repeats) ops).

(* ---- the built dataset ---- *)
(* table.sort_by([(user_num, ascending), (item_num, ascending)]): insertion sort on (u, i) *)
Definition rec_le (a b : rec) : bool :=
  (r_u a <? r_u b)%nat || (Nat.eqb (r_u a) (r_u b) && (r_i a <=? r_i b)%nat).
Fixpoint insert_rec (x : rec) (l : list rec) : list rec :=
  match l with
  | [] => [x]
  | y :: r => if rec_le x y then x :: l else y :: insert_rec x r
  end.
Definition sort_recs (l : list rec) : list rec := fold_right insert_rec [] l.

(* pc.value_counts(column): distinct values with their counts, in order of first appearance *)
Fixpoint bump (x : nat) (vc : list (nat * nat)) : list (nat * nat) :=
  match vc with
  | [] => [(x, 1%nat)]
  | (y, c) :: r => if Nat.eqb x y then (y, S c) :: r else (y, c) :: bump x r
  end.
Definition value_counts (col : list nat) : list (nat * nat) := fold_left (fun vc x => bump x vc) col [].
(* arr[k] = v *)
Fixpoint set_nth (k : nat) (v : nat) (l : list nat) : list nat :=
  match l, k with
  | [], _ => []
  | _ :: r, O => v :: r
  | x :: r, S k' => x :: set_nth k' v r
  end.
(* row_sizes = zeros(n_rows + 1); row_sizes[values + 1] = counts *)
Definition row_sizes (n_rows : nat) (vc : list (nat * nat)) : list nat :=
  fold_left (fun a p => set_nth (S (fst p)) (snd p) a) vc (repeat O (S n_rows)).
(* np.cumsum *)
Fixpoint cumsum_from (acc : nat) (l : list nat) : list nat :=
  match l with [] => [] | x :: r => (acc + x)%nat :: cumsum_from (acc + x)%nat r end.
Definition row_ptrs (n_rows : nat) (tbl : list rec) : list nat :=
  cumsum_from O (row_sizes n_rows (value_counts (map r_u tbl))).

Record dataset := {
  d_users : vocab;
  d_items : vocab;
  d_tbl : list rec;              (* sorted by (user number, item number) *)
  d_ptrs : list nat;             (* _row_ptrs *)
  d_cols : colset
}.

Definition build (st : bstate) : res dataset :=
  match b_repeats st with
  | RPresent => Err ENotImpl                       (* Dataset._init_caches: complex relationships *)
  | _ =>
    let users := opt_vocab (b_users st) in
    let tbl := sort_recs (b_table st) in
    Ok {| d_users := users; d_items := opt_vocab (b_items st); d_tbl := tbl;
          d_ptrs := row_ptrs (length users) tbl; d_cols := b_cols st |}
  end.

(* ---- views ---- *)
(* record table by numbers (interaction_table, interaction_matrix(format="pandas")) *)
Definition view_table (d : dataset) : list rec := d_tbl d.
(* the same with original ids: vocabulary.ids(numbers) *)
Definition view_table_ids (d : dataset) : list irow :=
  map (fun r => (term (d_users d) (r_u r), term (d_items d) (r_i r), r_a r)) (d_tbl d).

Inductive field := FOnes | FAttr (k : nat).       (* indicator values, or the k-th attribute column *)
Definition field_of (f : field) (a : attrs) : option Z := match f with FOnes => Some 1 | FAttr k => nth k a None end.
Definition value_of (f : field) (r : rec) : option Z := field_of f (r_a r).

(* CSR: (rowptrs, colinds, values); COO: (rows, cols, values) *)
Definition view_csr (d : dataset) (f : field) : list nat * list nat * list (option Z) :=
  (d_ptrs d, map r_i (d_tbl d), map (value_of f) (d_tbl d)).
Definition view_coo (d : dataset) (f : field) : list nat * list nat * list (option Z) :=
  (map r_u (d_tbl d), map r_i (d_tbl d), map (value_of f) (d_tbl d)).
Definition view_nnz (d : dataset) : nat := length (d_tbl d).

(* row_table(number): table.slice(ptrs[n], ptrs[n+1] - ptrs[n]) without the row column *)
Definition slice {A} (l : list A) (a b : nat) : list A := firstn (b - a) (skipn a l).
Definition row_of (d : dataset) (n : nat) : list (nat * attrs) :=
  map (fun r => (r_i r, r_a r)) (slice (d_tbl d) (nth n (d_ptrs d) O) (nth (S n) (d_ptrs d) O)).
(* user_row(user_id): None for an unknown id *)
Definition view_user_row (d : dataset) (u : id) : option (list (nat * attrs)) :=
  match index_of u (d_users d) with Some n => Some (row_of d n) | None => None end.

(* _compute_stats, one row per entity: record_count, distinct count of the other class, and (when the
   columns exist) the number of records that carry a rating (Arrow's count aggregate skips nulls), the sum
   of the doubled ratings that exist, first and last of the timestamps that exist *)
Fixpoint somes {A} (l : list (option A)) : list A :=
  match l with [] => [] | Some x :: r => x :: somes r | None :: r => somes r end.
Fixpoint dedup_nat (l : list nat) : list nat :=
  match l with
  | [] => []
  | x :: r => if existsb (Nat.eqb x) r then dedup_nat r else x :: dedup_nat r
  end.
Fixpoint zmin_list (l : list Z) : option Z :=
  match l with [] => None | x :: r => match zmin_list r with Some m => Some (Z.min x m) | None => Some x end end.
Fixpoint zmax_list (l : list Z) : option Z :=
  match l with [] => None | x :: r => match zmax_list r with Some m => Some (Z.max x m) | None => Some x end end.
Fixpoint zsum (l : list Z) : Z := match l with [] => 0 | x :: r => x + zsum r end.

Record stat_row := {
  st_records : nat; st_other : nat; st_ratings : nat; st_rating_sum2 : Z; st_first : option Z; st_last : option Z
}.
Definition stats_of (s : schema) (c : cls) (d : dataset) (n : nat) : stat_row :=
  let mine := filter (fun r => Nat.eqb (match c with User => r_u r | Item => r_i r end) n) (d_tbl d) in
  {| st_records := length mine;
     st_other := length (dedup_nat (map (fun r => match c with User => r_i r | Item => r_u r end) mine));
     st_ratings := length (somes (map (fun r => rating2_of (r_a r)) mine));
     st_rating_sum2 := zsum (somes (map (fun r => rating2_of (r_a r)) mine));
     st_first := zmin_list (somes (map (fun r => ts_of s (r_a r)) mine));
     st_last := zmax_list (somes (map (fun r => ts_of s (r_a r)) mine)) |}.
Definition view_stats (s : schema) (c : cls) (d : dataset) : list stat_row :=
  map (stats_of s c d) (seq 0 (length (match c with User => d_users d | Item => d_items d end))).

(* ---- decoders: what a view denotes, as (user id, item id, value) records ---- *)
Definition den_table {V} (d : dataset) (t : list (nat * nat * V)) : list (id * id * V) :=
  map (fun r => (term (d_users d) (fst (fst r)), term (d_items d) (snd (fst r)), snd r)) t.
(* walk the row pointers: row n owns positions ptrs[n] .. ptrs[n+1]-1 of colinds / values *)
Definition den_csr {V} (d : dataset) (ptrs : list nat) (colinds : list nat) (vals : list V) : list (id * id * V) :=
  flat_map (fun n => map (fun iv => (term (d_users d) n, term (d_items d) (fst iv), snd iv))
                         (slice (combine colinds vals) (nth n ptrs O) (nth (S n) ptrs O)))
           (seq 0 (length (d_users d))).
Definition den_coo {V} (d : dataset) (rows cols : list nat) (vals : list V) : list (id * id * V) :=
  map (fun rcv => (term (d_users d) (fst (fst rcv)), term (d_items d) (snd (fst rcv)), snd rcv))
      (combine (combine rows cols) vals).
Definition den_user_rows (d : dataset) : list irow :=
  flat_map (fun u => match view_user_row d u with
                     | Some row => map (fun ia => (u, term (d_items d) (fst ia), snd ia)) row
                     | None => [] end) (d_users d).

(* ---- the specification: the same operations on identifiers only (no numbers anywhere) ---- *)
Record sstate := {
  k_users : option (list id);     (* identifiers known so far (as a set; None = class has no table) *)
  k_items : option (list id);
  k_recs : list irow;             (* surviving records *)
  k_cols : colset;
  k_repeats : repeats
}.
Definition s_init (allow_repeats : bool) : sstate :=
  {| k_users := None; k_items := None; k_recs := []; k_cols := [];
     k_repeats := if allow_repeats then RAllowed else RForbidden |}.
Definition s_known (v : option (list id)) (x : id) : bool := mem_z x (opt_vocab v).
Definition id_pair_eqb (a b : id * id) : bool := Z.eqb (fst a) (fst b) && Z.eqb (snd a) (snd b).
Fixpoint has_dup_idpair (l : list (id * id)) : bool :=
  match l with [] => false | x :: r => existsb (id_pair_eqb x) r || has_dup_idpair r end.
Definition has_dup_z (l : list Z) : bool := negb (Nat.eqb (length (dedup_z l)) (length l)).

Definition s_add_entities (v : option (list id)) (new : list id) (pol : dup_policy) : res (option (list id)) :=
  if has_dup_z new then Err EData
  else if existsb (s_known v) new && is_dup_error pol then Err EData
  else Ok (Some (opt_vocab v ++ filter (fun x => negb (s_known v x)) new)).   (* as a set *)

Definition s_link (v : option (list id)) (ids : list id) (p : miss_policy) : res (option (list id)) :=
  let v1 := match p with MInsert => Some (opt_vocab v ++ filter (fun x => negb (s_known v x)) (dedup_z ids)) | _ => v end in
  match v1 with
  | None => Err EData
  | Some _ => if forallb (s_known v1) ids then Ok v1 else match p with MError => Err EData | _ => Ok v1 end
  end.

Definition s_step (s : schema) (st : sstate) (o : op) : sstate * option err :=
  match o with
  | AddEntities c ids p =>
      match c with
      | User => match s_add_entities (k_users st) ids p with
                | Ok v => ({| k_users := v; k_items := k_items st; k_recs := k_recs st; k_cols := k_cols st; k_repeats := k_repeats st |}, None)
                | Err e => (st, Some e) end
      | Item => match s_add_entities (k_items st) ids p with
                | Ok v => ({| k_users := k_users st; k_items := v; k_recs := k_recs st; k_cols := k_cols st; k_repeats := k_repeats st |}, None)
                | Err e => (st, Some e) end
      end
  | AddInteractions rows cols p =>
      match s_link (k_users st) (map uid_of rows) p with
      | Err e => (st, Some e)
      | Ok us =>
        let st1 := {| k_users := us; k_items := k_items st; k_recs := k_recs st; k_cols := k_cols st; k_repeats := k_repeats st |} in
        match s_link (k_items st) (map iid_of rows) p with
        | Err e => (st1, Some e)
        | Ok is_ =>
          let st2 := {| k_users := us; k_items := is_; k_recs := k_recs st; k_cols := k_cols st; k_repeats := k_repeats st |} in
          let recs := k_recs st ++ filter (fun r => s_known us (uid_of r) && s_known is_ (iid_of r)) rows in
          let done rp := ({| k_users := us; k_items := is_; k_recs := recs; k_cols := or_cols (k_cols st) cols; k_repeats := rp |}, None) in
          match k_repeats st with
          | RPresent => done RPresent
          | RAllowed => if has_dup_idpair (map fst recs) then done RPresent else done RAllowed
          | RForbidden => if has_dup_idpair (map fst recs) then (st2, Some EData) else done RForbidden
          end
        end
      end
  | FilterInteractions lo hi rem =>
      let wants_time := match lo, hi with None, None => false | _, _ => true end in
      if wants_time && negb (has_ts s (k_cols st)) then (st, Some ERuntime)
      else if needs_table rem (k_users st) (k_items st) then (st, Some EAssert)
      else
        let keep_time (r : irow) := in_window lo hi (ts_of s (snd r)) in
        let removed (r : irow) :=
          match rem with
          | None => false
          | Some (RemPairs l) => existsb (id_pair_eqb (fst r)) l
          | Some (RemUsers l) => mem_z (uid_of r) l
          | Some (RemItems l) => mem_z (iid_of r) l
          end in
        ({| k_users := k_users st; k_items := k_items st;
            k_recs := filter (fun r => keep_time r && negb (removed r)) (k_recs st);
            k_cols := k_cols st; k_repeats := k_repeats st |}, None)
  | Clear => ({| k_users := k_users st; k_items := k_items st; k_recs := []; k_cols := []; k_repeats := k_repeats st |}, None)
  end.
Fixpoint s_run (s : schema) (st : sstate) (ops : list op) : sstate :=
  match ops with [] => st | o :: r => s_run s (fst (s_step s st o)) r end.
