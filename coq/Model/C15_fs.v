(* C15 (a) -- a directory as a finite map, DataContainer.save as the effect list GENERATED from
   data/container.py (Gen/C15_save.v), a crash as a prefix of the atomic effects (rmtree expanded
   into per-entry deletions in the order `perm`, the last write possibly truncated), and
   DataContainer.load as the generated read list.  Executable definitions only. *)
From Coq Require Import ZArith List Bool Arith.
From LK Require Import Model.C15_steps Gen.C15_save.
Import ListNotations.

(* ---- what is stored ---------------------------------------------------------------------- *)

(* A schema names its entity and relationship classes; [s_tag] stands for everything else in the
   JSON document (two schemas are the same document iff all three components agree). *)
Record schema := mkSchema { s_tag : Z; s_ents : list nat; s_rels : list nat }.

Definition names_of (k : tkind) (s : schema) : list nat :=
  match k with KEntities => s_ents s | KRelationships => s_rels s end.
Definition s_names (s : schema) : list nat := s_ents s ++ s_rels s.

(* A data container: schema + dict of tables (name -> contents, contents abstracted to a number
   that is equal iff the Arrow tables are equal). *)
Record dataset := mkDataset { d_schema : schema; d_tables : list (nat * Z) }.

Inductive fname := NSchema | NTable (n : nat) | NSummary | NOther (k : nat).

(* FBroken: a file that exists but is a strict truncation of what was being written (it does not
   parse as a schema document nor as a Parquet file -- the file-format contract of C15). *)
Inductive file := FSchema (s : schema) | FTable (t : Z) | FText | FBroken.

Definition fname_eqb (a b : fname) : bool :=
  match a, b with
  | NSchema, NSchema => true
  | NTable x, NTable y => Nat.eqb x y
  | NSummary, NSummary => true
  | NOther x, NOther y => Nat.eqb x y
  | _, _ => false
  end.

Definition dir := list (fname * file).
Definition fs := option dir.          (* None: the path does not exist *)

Fixpoint dlookup (d : dir) (f : fname) : option file :=
  match d with
  | [] => None
  | (g, c) :: r => if fname_eqb g f then Some c else dlookup r f
  end.
Definition ddel (f : fname) (d : dir) : dir := filter (fun gc => negb (fname_eqb (fst gc) f)) d.
Definition dset (f : fname) (c : file) (d : dir) : dir := (f, c) :: ddel f d.

(* ---- atomic effects ---------------------------------------------------------------------- *)

Inductive eff := EUnlink (f : fname) | ERmdir | EMkdir | EWrite (f : fname) (c : file).

Definition step (s : fs) (e : eff) : fs :=
  match e, s with
  | EUnlink f, Some d => Some (ddel f d)
  | ERmdir, Some _ => None
  | EMkdir, None => Some []
  | EMkdir, Some d => Some d            (* exist_ok=True *)
  | EWrite f c, Some d => Some (dset f c d)
  | _, None => None
  end.
Definition run (s : fs) (es : list eff) : fs := fold_left step es s.

Definition is_write (e : eff) : bool := match e with EWrite _ _ => true | _ => false end.

(* one statement of save, in the state it is executed in; [perm] is the order in which rmtree
   happens to delete the entries (any list: the theorems quantify over it) *)
Definition expand_step (ds : dataset) (perm : list fname) (s : fs) (st : save_step) : list eff :=
  match st with
  | SRmtreeIfExists => match s with Some _ => map EUnlink perm ++ [ERmdir] | None => [] end
  | SMkdir => [EMkdir]
  | SWriteSchema => [EWrite NSchema (FSchema (d_schema ds))]
  | SWriteTables => map (fun nt => EWrite (NTable (fst nt)) (FTable (snd nt))) (d_tables ds)
  | SWriteSummary => [EWrite NSummary FText]
  end.

Fixpoint save_run (ds : dataset) (perm : list fname) (steps : list save_step) (s : fs) : list eff :=
  match steps with
  | [] => []
  | st :: r => let es := expand_step ds perm s st in es ++ save_run ds perm r (run s es)
  end.

Definition save_effects (ds : dataset) (perm : list fname) (old : fs) : list eff :=
  save_run ds perm save_steps old.

(* the state left by a crash just before effect number k; with [trunc] the k-th effect, if it is a
   write, has created its file but not completed it *)
Definition crash_state (s0 : fs) (es : list eff) (k : nat) (trunc : bool) : fs :=
  let s := run s0 (firstn k es) in
  if trunc then
    match nth_error es k with
    | Some (EWrite f _) => step s (EWrite f FBroken)
    | _ => s
    end
  else s.

Definition save_crash (old : fs) (ds : dataset) (perm : list fname) (k : nat) (trunc : bool) : fs :=
  crash_state old (save_effects ds perm old) k trunc.
Definition save_done (old : fs) (ds : dataset) (perm : list fname) : fs :=
  run old (save_effects ds perm old).

(* ---- load -------------------------------------------------------------------------------- *)

Inductive lres := LFail | LOk (s : schema) (ts : list (nat * Z)).

Fixpoint read_tables (d : dir) (ns : list nat) : option (list (nat * Z)) :=
  match ns with
  | [] => Some []
  | n :: r =>
      match dlookup d (NTable n) with
      | Some (FTable t) => match read_tables d r with Some ts => Some ((n, t) :: ts) | None => None end
      | _ => None
      end
  end.

Fixpoint load_run (d : dir) (steps : list load_step) (sc : option schema) (acc : list (nat * Z)) : lres :=
  match steps with
  | [] => LFail
  | LReadSchema :: r =>
      match dlookup d NSchema with
      | Some (FSchema s) => load_run d r (Some s) acc
      | _ => LFail
      end
  | LReadTables k :: r =>
      match sc with
      | None => LFail
      | Some s => match read_tables d (names_of k s) with
                  | Some ts => load_run d r sc (acc ++ ts)
                  | None => LFail
                  end
      end
  | LReturn :: _ => match sc with Some s => LOk s acc | None => LFail end
  end.

Definition load (s : fs) : lres :=
  match s with None => LFail | Some d => load_run d load_steps None [] end.

(* ---- what "equal" means ------------------------------------------------------------------ *)

Fixpoint tlookup (n : nat) (ts : list (nat * Z)) : option Z :=
  match ts with [] => None | (m, t) :: r => if Nat.eqb m n then Some t else tlookup n r end.
Definition table_of (ds : dataset) (n : nat) : Z := match tlookup n (d_tables ds) with Some t => t | None => 0%Z end.

(* the loaded container of a complete save: the schema, and for every class the schema names its table *)
Definition canon (ds : dataset) : lres :=
  LOk (d_schema ds) (map (fun n => (n, table_of ds n)) (s_names (d_schema ds))).

(* dict keys are unique, and every class named by the schema has a table (DatasetBuilder invariant) *)
Definition wf_dataset (ds : dataset) : Prop :=
  NoDup (map fst (d_tables ds)) /\ forall n, In n (s_names (d_schema ds)) -> In n (map fst (d_tables ds)).

(* files Dataset.load reads from a directory *)
Definition data_files (d : dir) : list fname :=
  match dlookup d NSchema with
  | Some (FSchema s) => NSchema :: map NTable (s_names s)
  | _ => [NSchema]
  end.

(* the state is the old directory with nothing written and none of its data files removed *)
Definition untouched (old s : fs) : Prop :=
  match old, s with
  | Some d, Some d' =>
      (forall f c, dlookup d' f = Some c -> dlookup d f = Some c) /\
      (forall f, In f (data_files d) -> dlookup d' f = dlookup d f)
  | _, _ => False
  end.

(* shape conditions on the generated save list that the crash theorem needs: the directory is
   emptied and re-created first, and everything after that is a write *)
Definition is_write_step (st : save_step) : bool :=
  match st with SWriteSchema | SWriteTables | SWriteSummary => true | _ => false end.
Definition safe_save_b (steps : list save_step) : bool :=
  match steps with
  | SRmtreeIfExists :: SMkdir :: ws => forallb is_write_step ws
  | _ => false
  end.
Definition step_eqb (a b : save_step) : bool :=
  match a, b with
  | SRmtreeIfExists, SRmtreeIfExists | SMkdir, SMkdir | SWriteSchema, SWriteSchema
  | SWriteTables, SWriteTables | SWriteSummary, SWriteSummary => true
  | _, _ => false
  end.
Definition complete_save_b (steps : list save_step) : bool :=
  existsb (step_eqb SWriteSchema) steps && existsb (step_eqb SWriteTables) steps.

(* ---- executable classification used by the correspondence cases --------------------------- *)

Fixpoint lbeq {A} (eqb : A -> A -> bool) (a b : list A) : bool :=
  match a, b with
  | [], [] => true
  | x :: a', y :: b' => eqb x y && lbeq eqb a' b'
  | _, _ => false
  end.

Inductive outcome := OFail | ONew | OOld | OMixture.
Definition outcome_code (o : outcome) : nat := match o with OFail => 0 | ONew => 1 | OOld => 2 | OMixture => 3 end.

Definition schema_eqb (a b : schema) : bool :=
  Z.eqb (s_tag a) (s_tag b) && lbeq Nat.eqb (s_ents a) (s_ents b) && lbeq Nat.eqb (s_rels a) (s_rels b).
Definition pair_eqb (a b : nat * Z) : bool := Nat.eqb (fst a) (fst b) && Z.eqb (snd a) (snd b).
Definition lres_eqb (a b : lres) : bool :=
  match a, b with
  | LFail, LFail => true
  | LOk s ts, LOk s' ts' => schema_eqb s s' && lbeq pair_eqb ts ts'
  | _, _ => false
  end.

(* new is tested first: when old and new contents coincide the answer is "new" *)
Definition classify (old : fs) (ds : dataset) (s : fs) : outcome :=
  match load s with
  | LFail => OFail
  | r => if lres_eqb r (canon ds) then ONew else if lres_eqb r (load old) then OOld else OMixture
  end.

Definition eff_code (e : eff) : nat :=
  match e with
  | EUnlink _ => 0 | ERmdir => 1 | EMkdir => 2
  | EWrite NSchema _ => 3 | EWrite (NTable _) _ => 4 | EWrite NSummary _ => 5 | EWrite (NOther _) _ => 6
  end.

(* agreement with one observed crash run: the effects seen up to the crash are a prefix of the
   model's effect list, and the outcome of loading the directory is the model's *)
Definition agree_crash (old : fs) (ds : dataset) (perm : list fname) (k : nat) (trunc : bool)
           (obs_trace : list nat) (obs_outcome : nat) : bool :=
  let es := save_effects ds perm old in
  lbeq Nat.eqb (firstn (length obs_trace) (map eff_code es)) obs_trace &&
  Nat.eqb (length obs_trace) (if Nat.ltb k (length es) then S k else length es) &&
  Nat.eqb (outcome_code (classify old ds (save_crash old ds perm k trunc))) obs_outcome.
