(* C12 -- the generic parallel map (in-process and over an abstract worker pool), the batch runner's
   bookkeeping around it, and shared-memory pickling of the model.  Executable definitions only.
   The shapes of the loops are the GENERATED constants of Gen/C12_shape.v. *)
From Coq Require Import ZArith List Bool Arith String.
From LK Require Import Model.C12_shapes Gen.C12_shape.
Import ListNotations.
Open Scope list_scope.

(* a task either returns or raises *)
Inductive res (R : Type) := Ok (r : R) | Err (e : nat).
Arguments Ok {R} r.
Arguments Err {R} e.

(* ---- the abstract pool: ProcessPoolExecutor.map seen from outside ---------------------------------
   Tasks are submitted in order and numbered; an idle worker claims the oldest pending task; workers
   finish in any order; a finished task's result (or exception) is stored under the task's number;
   results are handed to the caller by number. *)

Section Pool.
Context {A R : Type}.
Variable f : A -> res R.

Record pst := mkP {
  p_queue : list (nat * A);               (* pending: (task number, argument), oldest first *)
  p_run : list (nat * (nat * A));         (* worker -> task in progress *)
  p_done : list (nat * res R)             (* task number -> outcome *)
}.

Inductive ev := Claim (w : nat) | Finish (w : nat).

Fixpoint wfind (w : nat) (l : list (nat * (nat * A))) : option (nat * A) :=
  match l with [] => None | (v, t) :: r => if Nat.eqb v w then Some t else wfind w r end.
Fixpoint wremove (w : nat) (l : list (nat * (nat * A))) : list (nat * (nat * A)) :=
  match l with [] => [] | (v, t) :: r => if Nat.eqb v w then r else (v, t) :: wremove w r end.

Definition pstep (s : pst) (e : ev) : pst :=
  match e with
  | Claim w =>
      match wfind w (p_run s), p_queue s with
      | None, t :: q => mkP q ((w, t) :: p_run s) (p_done s)
      | _, _ => s                                        (* busy worker or nothing pending *)
      end
  | Finish w =>
      match wfind w (p_run s) with
      | Some (i, x) => mkP (p_queue s) (wremove w (p_run s)) ((i, f x) :: p_done s)
      | None => s
      end
  end.

Fixpoint number_from (i : nat) (xs : list A) : list (nat * A) :=
  match xs with [] => [] | x :: r => (i, x) :: number_from (S i) r end.

Definition pinit (xs : list A) : pst := mkP (number_from 0 xs) [] [].
Definition prun (xs : list A) (sched : list ev) : pst := fold_left pstep sched (pinit xs).

Fixpoint dfind (i : nat) (l : list (nat * res R)) : option (res R) :=
  match l with [] => None | (j, r) :: t => if Nat.eqb j i then Some r else dfind i t end.

Definition complete (s : pst) : bool :=
  match p_queue s, p_run s with [], [] => true | _, _ => false end.

(* outcomes by task number *)
Definition by_number (n : nat) (s : pst) : list (option (res R)) := map (fun i => dfind i (p_done s)) (seq 0 n).

(* what the caller can have been handed so far: outcomes in task order up to the first unfinished one *)
Fixpoint available (l : list (option (res R))) : list (res R) :=
  match l with Some r :: t => r :: available t | _ => [] end.

Definition pool_map (xs : list A) (sched : list ev) : list (res R) :=
  available (by_number (List.length xs) (prun xs sched)).

(* ---- the invoker's map, by shape ------------------------------------------------------------------- *)

Definition map_by_shape (sh : map_shape) (xs : list A) (sched : list ev) : list (res R) :=
  match sh with
  | MapYieldEachInOrder => map f xs
  | MapExecutorMap => pool_map xs sched
  end.

Definition invoker_map (n_jobs : nat) (xs : list A) (sched : list ev) : list (res R) :=
  if Nat.eqb n_jobs 1 then map_by_shape seq_map_shape xs sched else map_by_shape pool_map_shape xs sched.

End Pool.

(* ---- the worker process ------------------------------------------------------------------------------
   What a task function returns depends on its arguments AND on the process-wide environment it is evaluated in
   (E: floating-point control word -- rounding, flush-to-zero --, default dtype, error state ...).  A worker is
   spawned with the default environment, runs the initialiser (generated steps) and then serves
   worker.worker(arg) = __work_context.func(__work_context.model, arg). *)
Section Worker.
Context {E C A R : Type}.

Record wproc := mkW { w_env : E; w_ctx : option C }.

Definition init_step_run (rebuilt : C) (w : wproc) (st : init_step) : wproc :=
  match st with
  | InitRebuildContext => mkW (w_env w) (Some rebuilt)
  | InitDeclareGlobals | InitCurrentProcess | InitFilterWarnings => w
  end.

Definition worker_init (rebuilt : C) (e0 : E) : wproc :=
  fold_left (init_step_run rebuilt) worker_init_steps (mkW e0 None).

(* a call before the context exists is a NameError (error 7) *)
Definition worker_call (f : E -> C -> A -> res R) (w : wproc) (x : A) : res R :=
  match w_ctx w with Some c => f (w_env w) c x | None => Err 7 end.

End Worker.

(* the caller iterates the outcomes; the first exception propagates: (values received, error) *)
Fixpoint consume {R} (l : list (res R)) : list R * option nat :=
  match l with
  | [] => ([], None)
  | Ok r :: t => let (vs, e) := consume t in (r :: vs, e)
  | Err e :: _ => ([], Some e)
  end.

(* ---- the batch runner ------------------------------------------------------------------------------- *)

Section Batch.
Context {IV V : Type}.                       (* input values (ids, item lists, n, ...), component outputs *)

Definition key := list (string * IV).        (* a named key tuple: field name -> value *)
Definition inputs := list (string * IV).     (* keyword arguments of run_all; first binding wins *)
Definition outs := list (string * V).        (* a dict in insertion order *)

(* the pipeline: run_all( *nodes, **inputs ) -> {node: output}, or an exception *)
Variable run_all : list string -> inputs -> res outs.

Record invocation := mkInv {
  iv_items : bool;                           (* items = "test-items" *)
  iv_extra : list (string * IV);
  iv_comps : list (string * string)          (* component name -> output name *)
}.

Fixpoint alookup {X} (k : string) (l : list (string * X)) : option X :=
  match l with [] => None | (j, v) :: r => if String.eqb j k then Some v else alookup k r end.

(* dict assignment d[k] = v: in place if present, else appended *)
Fixpoint dset {X} (k : string) (v : X) (d : list (string * X)) : list (string * X) :=
  match d with
  | [] => [(k, v)]
  | (j, w) :: r => if String.eqb j k then (j, v) :: r else (j, w) :: dset k v r
  end.

Definition step_inputs (st : rp_step) (inv : invocation) (k : key) (items : IV) (acc : inputs) : inputs :=
  match st with
  | RPQueryFromUserId => match alookup "user_id"%string k with Some u => dset "query"%string u acc | None => acc end
  | RPItemsIfTestItems => if iv_items inv then dset "items"%string items acc else acc
  | RPExtraOverride => fold_left (fun a kv => dset (fst kv) (snd kv) a) (iv_extra inv) acc
  | _ => acc
  end.

Definition inputs_of (inv : invocation) (k : key) (items : IV) : inputs :=
  fold_left (fun acc st => step_inputs st inv k items acc) run_pipeline_steps [].

(* the module-level helpers: batch.recommend(pipeline, users, n) is a runner with the one request runner.recommend(n=n) (n handed on
   as given: no value of n stands for "not given"), batch.score / predict one with runner.score() / runner.predict() *)
Definition helper_inv (h : helper_setup) (n : IV) : invocation :=
  match h with
  | HSRecommendN => mkInv false [("n"%string, n)] [("recommender"%string, "recommendations"%string)]
  | HSScore => mkInv true [] [("scorer"%string, "scores"%string)]
  | HSPredict => mkInv true [] [("rating-predictor"%string, "predictions"%string)]
  end.

(* the keyword arguments the single-query operations give the pipeline: lenskit.recommend(pipe, q, n) runs the node with query=q, n=n;
   lenskit.score / predict(pipe, q, items) with query=q, items=items *)
Definition single_inputs (h : helper_setup) (q : option IV) (n items : IV) : inputs :=
  match q with Some u => [("query"%string, u)] | None => [] end ++
  match h with HSRecommendN => [("n"%string, n)] | _ => [("items"%string, items)] end.

(* result[oname] = outs[cname] for the invocation's components; a missing node is a KeyError (error 1) *)
Fixpoint copy_outputs (comps : list (string * string)) (o : outs) (result : outs) : res outs :=
  match comps with
  | [] => Ok result
  | (cname, oname) :: r =>
      match alookup cname o with
      | Some v => copy_outputs r o (dset oname v result)
      | None => Err 1
      end
  end.

Definition run_inv (inv : invocation) (k : key) (items : IV) (result : outs) : res outs :=
  match run_all (map fst (iv_comps inv)) (inputs_of inv k items) with
  | Ok o => copy_outputs (iv_comps inv) o result
  | Err e => Err e
  end.

Fixpoint run_invs (invs : list invocation) (k : key) (items : IV) (result : outs) : res outs :=
  match invs with
  | [] => Ok result
  | inv :: r => match run_inv inv k items result with Ok res' => run_invs r k items res' | Err e => Err e end
  end.

(* _run_pipeline((pipeline, invocations), (key, test_items)) *)
Definition run_pipeline (invs : list invocation) (req : key * IV) : res (key * outs) :=
  match run_invs invs (fst req) (snd req) [] with Ok o => Ok (fst req, o) | Err e => Err e end.

(* BatchResults: output name -> collection (list of (key, list) in insertion order) *)
Definition bres := list (string * list (key * V)).

Definition add_output (name : string) (b : bres) : bres :=
  match alookup name b with Some _ => b | None => b ++ [(name, [])] end.

Fixpoint append_to (name : string) (kv : key * V) (b : bres) : bres :=
  match b with
  | [] => []
  | (n, l) :: r => if String.eqb n name then (n, l ++ [kv]) :: r else (n, l) :: append_to name kv r
  end.
Definition add_result (name : string) (k : key) (v : V) (b : bres) : bres :=
  append_to name (k, v) (add_output name b).

Definition declare (invs : list invocation) : bres :=
  fold_left (fun b inv => fold_left (fun b' co => add_output (snd co) b') (iv_comps inv) b) invs [].

Definition add_task_outputs (b : bres) (r : key * outs) : bres :=
  fold_left (fun b' cv => add_result (fst cv) (fst r) (snd cv) b') (snd r) b.

(* BatchPipelineRunner.run, over any implementation of the map *)
Definition batch_run (mapper : (key * IV -> res (key * outs)) -> list (key * IV) -> list (res (key * outs)))
           (invs : list invocation) (reqs : list (key * IV)) : res bres :=
  match batch_loop_shape with
  | AddEachOutputUnderItsKey =>
      match consume (mapper (run_pipeline invs) reqs) with
      | (_, Some e) => Err e
      | (rs, None) => Ok (fold_left add_task_outputs rs (declare invs))
      end
  end.

End Batch.

(* ---- shared-memory pickling -------------------------------------------------------------------------
   An object is a tree; array payloads travel out of band.  The pickler stores each payload in a block
   that may be longer than the payload (page rounding), recording the payload's length; a zero-length
   payload gets no block.  pickle.loads consumes the buffers in the order the pickler produced them.

   Arrays.  SHMPickler leaves an ndarray to NumPy's own protocol-5 reduction (generated: the last rule of
   reducer_dispatch is ROwnReduction), whose contract is modelled here and checked against every observed
   block: an array A that is an axis permutation of a C-ordered memory block M (A = M.transpose(p): axis i of
   A is axis p[i] of M; C order: p = identity, Fortran order: p = reversed axes) travels OUT OF BAND as the
   bytes of M together with (dtype, shape, p) and is rebuilt as reshape(memory shape).transpose(p); every
   other array (strided, negative or zero strides, dtypes without a buffer export) travels IN BAND as a
   C-ordered copy of its elements.  `elems` are the elements in index (C) order, `isz` bytes each. *)

Inductive transport := OutOfBand (p q : list nat) | InBand.     (* q = the inverse permutation of p *)

Inductive tree :=
| TBuf (b : list nat)
| TArr (tr : transport) (isz : nat) (shape : list nat) (elems : list (list nat))
| TAtom (a : Z)
| TNode (ts : list tree).
Inductive etree :=                                                         (* the in-band pickle *)
| EBuf
| EArrOut (p q : list nat) (isz : nat) (shape : list nat)
| EArrIn (isz : nat) (shape : list nat) (bytes : list nat)
| EAtom (a : Z)
| ENode (ts : list etree).
Definition block : Type := option (list nat) * nat.                        (* (shm, nbytes) *)

(* mixed-radix positions, C order (last axis fastest) *)
Definition prod (s : list nat) : nat := fold_right Nat.mul 1 s.
Fixpoint unravel (s : list nat) (k : nat) : list nat :=
  match s with [] => [] | _ :: s' => (k / prod s') :: unravel s' (k mod prod s') end.
Fixpoint ravel (s idx : list nat) : nat :=
  match s, idx with _ :: s', i :: idx' => i * prod s' + ravel s' idx' | _, _ => 0 end.
Definition gather (p l : list nat) : list nat := map (fun i => nth i l 0) p.

(* A = M.transpose(p): index idx of A is index (gather q idx) of M, M's shape is gather q (shape of A) *)
Definition mem_shape (q s : list nat) : list nat := gather q s.
Definition sigma (p q s : list nat) (k : nat) : nat := ravel s (gather p (unravel (mem_shape q s) k)).   (* memory position -> index position *)
Definition tau (q s : list nat) (j : nat) : nat := ravel (mem_shape q s) (gather q (unravel s j)).       (* index position -> memory position *)

Definition to_memory (p q s : list nat) (elems : list (list nat)) : list (list nat) :=
  map (fun k => nth (sigma p q s k) elems []) (seq 0 (prod (mem_shape q s))).
Definition from_memory (q s : list nat) (mem : list (list nat)) : list (list nat) :=
  map (fun j => nth (tau q s j) mem []) (seq 0 (prod s)).

(* n elements of isz bytes each from a flat buffer *)
Fixpoint chunk (isz n : nat) (l : list nat) : list (list nat) :=
  match n with 0 => [] | S n' => firstn isz l :: chunk isz n' (skipn isz l) end.

(* _buffer_cb: pad i = what the i-th block holds beyond the payload *)
Definition store (pad : list nat) (b : list nat) : block :=
  match b with [] => (None, 0) | _ => (Some (b ++ pad), List.length b) end.

Fixpoint encode (pad : nat -> list nat) (t : tree) (next : nat) : etree * list block * nat :=
  match t with
  | TBuf b => (EBuf, [store (pad next) b], S next)
  | TArr (OutOfBand p q) isz s elems => (EArrOut p q isz s, [store (pad next) (List.concat (to_memory p q s elems))], S next)
  | TArr InBand isz s elems => (EArrIn isz s (List.concat elems), [], next)
  | TAtom a => (EAtom a, [], next)
  | TNode ts =>
      let fix go (l : list tree) (n : nat) : list etree * list block * nat :=
        match l with
        | [] => ([], [], n)
        | x :: r => let '(e, bs, n1) := encode pad x n in
                    let '(es, bs', n2) := go r n1 in (e :: es, bs ++ bs', n2)
        end in
      let '(es, bs, n') := go ts next in (ENode es, bs, n')
  end.

Definition shm_serialize (pad : nat -> list nat) (t : tree) : etree * list block :=
  let '(e, bs, _) := encode pad t 0 in (e, bs).

(* shm_deserialize: the buffer handed to pickle.loads for one stored block *)
Definition view (sl : slice_kind) (b : block) : list nat :=
  match b with
  | (None, _) => []
  | (Some data, n) => match sl with SliceRecorded => firstn n data | WholeBuffer => data end
  end.

Definition identity_perm (n : nat) : list nat := seq 0 n.

Fixpoint decode (e : etree) (bufs : list (list nat)) : option (tree * list (list nat)) :=
  match e with
  | EBuf => match bufs with b :: r => Some (TBuf b, r) | [] => None end
  | EArrOut p q isz s =>
      match bufs with
      | b :: r => Some (TArr (OutOfBand p q) isz s (from_memory q s (chunk isz (prod (mem_shape q s)) b)), r)
      | [] => None
      end
  | EArrIn isz s bytes =>
      Some (TArr (OutOfBand (identity_perm (List.length s)) (identity_perm (List.length s))) isz s (chunk isz (prod s) bytes), bufs)
  | EAtom a => Some (TAtom a, bufs)
  | ENode es =>
      let fix go (l : list etree) (bs : list (list nat)) : option (list tree * list (list nat)) :=
        match l with
        | [] => Some ([], bs)
        | x :: r => match decode x bs with
                    | Some (t, bs1) => match go r bs1 with Some (ts, bs2) => Some (t :: ts, bs2) | None => None end
                    | None => None
                    end
        end in
      match go es bufs with Some (ts, r) => Some (TNode ts, r) | None => None end
  end.

Definition shm_deserialize (sl : slice_kind) (d : etree * list block) : option tree :=
  match decode (fst d) (map (view sl) (snd d)) with Some (t, []) => Some t | _ => None end.

(* what must arrive: the same tree; an array that travelled in band arrives as a C-ordered array *)
Fixpoint arrived (t : tree) : tree :=
  match t with
  | TArr InBand isz s elems => TArr (OutOfBand (identity_perm (List.length s)) (identity_perm (List.length s))) isz s elems
  | TNode ts => TNode (map arrived ts)
  | _ => t
  end.
(* the content of a tree: everything but how the arrays lie in memory *)
Fixpoint contents (t : tree) : tree :=
  match t with
  | TArr _ isz s elems => TArr InBand isz s elems
  | TNode ts => TNode (map contents ts)
  | _ => t
  end.

(* well-formed arrays: one element per index, isz bytes each, p and q inverse permutations of the axes *)
Definition perm_okb (n : nat) (p q : list nat) : bool :=
  Nat.eqb (List.length p) n && Nat.eqb (List.length q) n &&
  forallb (fun m => Nat.ltb (nth m p 0) n && Nat.ltb (nth m q 0) n &&
                    Nat.eqb (nth (nth m q 0) p 0) m && Nat.eqb (nth (nth m p 0) q 0) m) (seq 0 n).
Definition arr_okb (tr : transport) (isz : nat) (s : list nat) (elems : list (list nat)) : bool :=
  Nat.eqb (List.length elems) (prod s) && forallb (fun e => Nat.eqb (List.length e) isz) elems &&
  match tr with OutOfBand p q => perm_okb (List.length s) p q | InBand => true end.
Fixpoint wf_tree (t : tree) : bool :=
  match t with
  | TArr tr isz s elems => arr_okb tr isz s elems
  | TNode ts => forallb wf_tree ts
  | _ => true
  end.

(* ---- booleans for the correspondence cases ----------------------------------------------------------- *)

Fixpoint lnat_eqb (a b : list nat) : bool :=
  match a, b with [] , [] => true | x :: a', y :: b' => Nat.eqb x y && lnat_eqb a' b' | _, _ => false end.

Definition res_eqb (a b : res nat) : bool :=
  match a, b with Ok x, Ok y => Nat.eqb x y | Err x, Err y => Nat.eqb x y | _, _ => false end.
Fixpoint lres_eqb (a b : list (res nat)) : bool :=
  match a, b with [], [] => true | x :: a', y :: b' => res_eqb x y && lres_eqb a' b' | _, _ => false end.

(* one observed map call: the task function as a table (task -> outcome computed in the parent process),
   the observed interleaving, the values the caller received and the error it saw (0 = none, else e+1) *)
Definition table_fun (tbl : list (res nat)) (x : nat) : res nat := nth x tbl (Err 0).

Definition agree_map (n_jobs : nat) (tbl : list (res nat)) (xs : list nat) (sched : list ev)
           (got : list nat) (err : nat) : bool :=
  let (vs, e) := consume (invoker_map (table_fun tbl) n_jobs xs sched) in
  lnat_eqb vs got && Nat.eqb (match e with Some x => S x | None => 0 end) err.

(* sizes of the blocks an object's payloads were stored in *)
Definition block_shape (b : block) : option nat * nat := (option_map (@List.length nat) (fst b), snd b).
Definition onat_eqb (a b : option nat) : bool :=
  match a, b with Some x, Some y => Nat.eqb x y | None, None => true | _, _ => false end.
Fixpoint shapes_eqb (a b : list (option nat * nat)) : bool :=
  match a, b with
  | [], [] => true
  | (s, n) :: a', (s', n') :: b' => onat_eqb s s' && Nat.eqb n n' && shapes_eqb a' b'
  | _, _ => false
  end.

Fixpoint llnat_eqb (a b : list (list nat)) : bool :=
  match a, b with [], [] => true | x :: a', y :: b' => lnat_eqb x y && llnat_eqb a' b' | _, _ => false end.
Definition transport_eqb (a b : transport) : bool :=
  match a, b with
  | OutOfBand p q, OutOfBand p' q' => lnat_eqb p p' && lnat_eqb q q'
  | InBand, InBand => true
  | _, _ => false
  end.

Fixpoint tree_eqb (a b : tree) : bool :=
  match a, b with
  | TBuf x, TBuf y => lnat_eqb x y
  | TArr tr k s es, TArr tr' k' s' es' => transport_eqb tr tr' && Nat.eqb k k' && lnat_eqb s s' && llnat_eqb es es'
  | TAtom x, TAtom y => Z.eqb x y
  | TNode xs, TNode ys =>
      (fix go (l m : list tree) : bool :=
         match l, m with [], [] => true | x :: l', y :: m' => tree_eqb x y && go l' m' | _, _ => false end) xs ys
  | _, _ => false
  end.

(* the observed blocks (sizes and the payload bytes they hold) are the model's for the same paddings, and
   the round trip returns the content (roundtrip_ok: the content hashes agreed) *)
Definition agree_shm (t : tree) (pads : list nat) (observed : list (option nat * nat)) (payloads : list (list nat))
           (roundtrip_ok : bool) : bool :=
  let pad := fun i => repeat 0 (nth i pads 0) in
  let d := shm_serialize pad t in
  wf_tree t &&
  shapes_eqb (map block_shape (snd d)) observed &&
  llnat_eqb (map (view SliceRecorded) (snd d)) payloads &&
  Bool.eqb (match shm_deserialize shm_slice d with Some t' => tree_eqb (contents t') (contents t) | None => false end) roundtrip_ok.

(* one observed batch run: the pipeline as a table, the requests, and the collection that came back
   (None: the run raised) *)
Definition skey_eqb (a b : list (string * nat)) : bool :=
  Nat.eqb (List.length a) (List.length b) &&
  forallb (fun p => String.eqb (fst (fst p)) (fst (snd p)) && Nat.eqb (snd (fst p)) (snd (snd p))) (combine a b).
Definition rows_eqb (a b : list (list (string * nat) * nat)) : bool :=
  Nat.eqb (List.length a) (List.length b) &&
  forallb (fun p => skey_eqb (fst (fst p)) (fst (snd p)) && Nat.eqb (snd (fst p)) (snd (snd p))) (combine a b).
Definition bres_eqb (a b : list (string * list (list (string * nat) * nat))) : bool :=
  Nat.eqb (List.length a) (List.length b) &&
  forallb (fun p => String.eqb (fst (fst p)) (fst (snd p)) && rows_eqb (snd (fst p)) (snd (snd p))) (combine a b).

Definition agree_batch (n_jobs : nat)
           (run_all : list string -> list (string * nat) -> res (list (string * nat)))
           (invs : list (@invocation nat)) (reqs : list (list (string * nat) * nat)) (sched : list ev)
           (want : option (list (string * list (list (string * nat) * nat)))) : bool :=
  match batch_run run_all (fun g xs => invoker_map g n_jobs xs sched) invs reqs, want with
  | Ok b, Some w => bres_eqb b w
  | Err _, None => true
  | _, _ => false
  end.
