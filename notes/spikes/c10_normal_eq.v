From mathcomp Require Import all_ssreflect all_algebra.
From mathcomp Require Import ring.
Set Implicit Arguments. Unset Strict Implicit. Unset Printing Implicit Defensive.
Import GRing.Theory Num.Theory.
Local Open Scope ring_scope.

Section NormalEq.
Variable R : realFieldType.

Definition dot k (a b : 'cV[R]_k) : R := \sum_i a i 0 * b i 0.

Lemma dotC k (a b : 'cV[R]_k) : dot a b = dot b a.
Proof. by apply: eq_bigr => i _; rewrite mulrC. Qed.
Lemma dotDl k (a b c : 'cV[R]_k) : dot (a + b) c = dot a c + dot b c.
Proof. by rewrite -big_split; apply: eq_bigr => i _; rewrite mxE mulrDl. Qed.
Lemma dotDr k (a b c : 'cV[R]_k) : dot a (b + c) = dot a b + dot a c.
Proof. by rewrite dotC dotDl !(dotC a). Qed.
Lemma dotNl k (a b : 'cV[R]_k) : dot (- a) b = - dot a b.
Proof. by rewrite -sumrN; apply: eq_bigr => i _; rewrite mxE mulNr. Qed.
Lemma dotZr k (c : R) (a b : 'cV[R]_k) : dot a (c *: b) = c * dot a b.
Proof. by rewrite mulr_sumr; apply: eq_bigr => i _; rewrite mxE mulrCA. Qed.
Lemma dot_ge0 k (a : 'cV[R]_k) : 0 <= dot a a.
Proof. by apply: sumr_ge0 => i _; rewrite -expr2 sqr_ge0. Qed.
Lemma dot_mulmx m n (M : 'M[R]_(m,n)) (a : 'cV[R]_n) (b : 'cV[R]_m) :
  dot (M *m a) b = dot a (M^T *m b).
Proof.
rewrite /dot.
under eq_bigr => i _ do rewrite mxE mulr_suml.
under [RHS]eq_bigr => j _ do rewrite mxE mulr_sumr.
rewrite exchange_big /=; apply: eq_bigr => j _; apply: eq_bigr => i _.
by rewrite mxE; ring.
Qed.

Variables m n : nat.
Variable M : 'M[R]_(m, n).
Variable v : 'cV[R]_m.
Variable c : R.
Hypothesis c_ge0 : 0 <= c.

Definition obj (x : 'cV[R]_n) : R := dot (M *m x - v) (M *m x - v) + c * dot x x.
Definition A : 'M[R]_n := M^T *m M + c%:M.
Definition y : 'cV[R]_n := M^T *m v.

Lemma dotBr k (a b c0 : 'cV[R]_k) : dot a (b - c0) = dot a b - dot a c0.
Proof. by rewrite dotDr (dotC a (- c0)) dotNl (dotC c0). Qed.

Lemma grad x d : dot d (A *m x - y) = dot (M *m d) (M *m x - v) + c * dot d x.
Proof.
rewrite /A /y mulmxDl mul_scalar_mx -mulmxA dotBr dotDr dotZr !dotBr.
by rewrite -!dot_mulmx; ring.
Qed.

Lemma obj_shift x d :
  obj (x + d) = obj x + (dot (M *m d) (M *m d) + c * dot d d)
                + 2%:R * dot d (A *m x - y).
Proof.
rewrite grad /obj mulmxDr (addrAC (M *m x)).
set r := M *m x - v; set e := M *m d.
rewrite !(dotDl, dotDr) (dotC (M *m x) e) (dotC (- v) e) (dotC x d).
by ring.
Qed.

Theorem normal_eq_minimises x d : A *m x = y -> obj x <= obj (x + d).
Proof.
move=> Ax; rewrite obj_shift Ax subrr.
have -> : dot d 0 = 0 by rewrite /dot big1 // => i _; rewrite mxE mulr0.
rewrite mulr0 addr0 ler_addl addr_ge0 ?dot_ge0 // mulr_ge0 ?dot_ge0 //.
Qed.
End NormalEq.
Print Assumptions normal_eq_minimises.
