From Coq Require Import ZArith List Bool.
Import ListNotations.
Open Scope Z_scope.

Definition name := nat.
Definition val := Z.
Inductive exn := EPipeline | EType | EKey | EComp (k : Z).
Inductive result := Ok (v : option val) | Err (e : exn).

(* component body: interaction tree over forcing lazy inputs *)
Inductive prog :=
| Ret (v : option val)
| Raise (e : exn)
| Force (i : nat) (k : result -> prog).

Record param := { p_src : option name; p_lazy : bool; p_nullable : bool; p_typed : bool }.
Inductive node :=
| Input (nullable : bool)
| Literal (v : val)
| Comp (ps : list param) (body : list (option val) -> prog).

Definition graph := list (name * node).
Fixpoint lookup {A} (n : name) (g : list (name * A)) : option A :=
  match g with [] => None | (m, x) :: t => if Nat.eqb n m then Some x else lookup n t end.

Inductive status := Pending | InProgress | Finished | Failed.
Record st := { stat : list (name * status); vals : list (name * option val); log : list name }.
Definition get_stat s n := match lookup n (stat s) with Some x => x | None => Pending end.
Definition set_stat s n x := {| stat := (n, x) :: stat s; vals := vals s; log := log s |}.
Definition set_val s n v := {| stat := stat s; vals := (n, v) :: vals s; log := log s |}.
Definition add_log s n := {| stat := stat s; vals := vals s; log := n :: log s |}.

Section Run.
Variable g : graph.
Variable inputs : list (name * val).

(* state lookup as in runner: finished => self.state[name] (KeyError if absent) ; faithful=true reproduces that *)
Variable faithful : bool.

Fixpoint run (fuel : nat) (s : st) (n : name) (required : bool) : st * result :=
  match fuel with O => (s, Err EPipeline) | S fuel =>
  match get_stat s n with
  | Finished => match lookup n (vals s) with
                | Some v => (s, Ok v)
                | None => if faithful then (s, Err EKey) else if required then (s, Err EKey) else (s, Ok None)
                end
  | InProgress => (s, Err EPipeline)
  | Failed => (s, Err EPipeline)
  | Pending =>
    let s := set_stat s n InProgress in
    let '(s, r) :=
      match lookup n g with
      | None => (s, Err EKey)
      | Some (Literal v) => (set_val s n (Some v), Ok None)
      | Some (Input nullable) =>
          match lookup n inputs with
          | None => if required && negb nullable then (s, Err EPipeline) else (set_val s n None, Ok None)
          | Some v => (set_val s n (Some v), Ok None)
          end
      | Some (Comp ps body) =>
          (* resolve eager params left to right *)
          let fix args (ps : list param) (s : st) (acc : list (option val)) : st * (option (list (option val))) * option exn :=
            match ps with
            | [] => (s, Some (rev acc), None)
            | p :: ps' =>
              if p_lazy p then args ps' s (None :: acc) else
              match p_src p with
              | None =>
                  if p_typed p && negb (p_nullable p)
                  then (if required then (s, None, Some EPipeline) else (s, None, None))
                  else args ps' s (None :: acc)
              | Some src =>
                  let ireq := required && p_typed p && negb (p_nullable p) in
                  let '(s, r) := run fuel s src ireq in
                  match r with
                  | Err e => (s, None, Some e)
                  | Ok v =>
                     match v with
                     | None => if p_typed p && negb (p_nullable p)
                               then (if required then (s, None, Some EPipeline) else (s, None, None))
                               else args ps' s (None :: acc)
                     | Some _ => args ps' s (v :: acc)
                     end
                  end
              end
            end in
          match args ps s [] with
          | (s, _, Some e) => (s, Err e)
          | (s, None, None) => (s, Ok None)      (* bail out: no state set *)
          | (s, Some a, None) =>
              let s := add_log s n in
              let fix exec (pf : nat) (p : prog) (s : st) : st * result :=
                match pf with O => (s, Err EPipeline) | S pf =>
                match p with
                | Ret v => (set_val s n v, Ok None)
                | Raise e => (s, Err e)
                | Force i k =>
                    match nth_error ps i with
                    | Some q => match p_src q with
                                | Some src => let '(s, r) := run fuel s src (required && p_typed q && negb (p_nullable q)) in exec pf (k r) s
                                | None => exec pf (k (Ok None)) s
                                end
                    | None => (s, Err EKey)
                    end
                end end in
              exec (S (length ps)) (body a) s
          end
      end in
    match r with
    | Err e => (set_stat s n Failed, Err e)
    | Ok _ =>
        let s := set_stat s n Finished in
        match lookup n (vals s) with
        | Some v => (s, Ok v)
        | None => if required then (s, Err EKey) else (s, Ok None)
        end
    end
  end end.
End Run.

(* F-C02-1: x optional absent; inc requires x; c1,c2 take inc optionally; both takes c1,c2 *)
Definition P src nullable := {| p_src := Some src; p_lazy := false; p_nullable := nullable; p_typed := true |}.
Definition g1 : graph :=
  [ (0%nat, Input true);
    (1%nat, Comp [P 0%nat false] (fun a => match a with [Some x] => Ret (Some (x+1)) | _ => Raise EType end));
    (2%nat, Comp [P 1%nat true] (fun a => match a with [Some x] => Ret (Some (100+x)) | _ => Ret (Some (-1)) end));
    (3%nat, Comp [P 1%nat true] (fun a => match a with [Some x] => Ret (Some (200+x)) | _ => Ret (Some (-2)) end));
    (4%nat, Comp [P 2%nat false; P 3%nat false] (fun a => match a with [Some x; Some y] => Ret (Some (x*1000+y)) | _ => Raise EType end)) ].
Definition s0 := {| stat := []; vals := []; log := [] |}.
Eval vm_compute in let '(s, r) := run g1 [] true 50 s0 4%nat true in (r, rev (log s)).
Eval vm_compute in let '(s, r) := run g1 [] false 50 s0 4%nat true in (r, rev (log s)).
Eval vm_compute in let '(s, r) := run g1 [(0%nat, 5)] true 50 s0 4%nat true in (r, rev (log s)).
