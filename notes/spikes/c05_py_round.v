From Coq Require Import ZArith Uint63 PrimFloat FloatOps SpecFloat List.
Import ListNotations.
Open Scope Z_scope.
(* exact value of a finite float as mantissa * 2^exp *)
Definition f2me (f : float) : option (Z * Z) :=
  match Prim2SF f with
  | S754_zero _ => Some (0, 0)
  | S754_finite s m e => Some ((if s then -1 else 1) * Zpos m, e)
  | _ => None
  end.
(* round-half-even of m * 2^e to an integer (python round()) *)
Definition round_half_even (m e : Z) : Z :=
  if 0 <=? e then m * 2 ^ e else
  let d := 2 ^ (- e) in
  let q := m / d in let r := m mod d in   (* floor division, 0 <= r < d *)
  if 2 * r <? d then q else if d <? 2 * r then q + 1 else if Z.even q then q else q + 1.
Definition py_round_mul (len : Z) (frac : float) : option Z :=
  match f2me (PrimFloat.mul (of_uint63 (Uint63.of_Z len)) frac) with
  | Some (m, e) => Some (round_half_even m e) | None => None end.
Eval vm_compute in map (fun n => py_round_mul n 0x1.999999999999ap-4%float) [0;1;4;5;6;14;15;16;25;35;45].   (* 0.1 *)
Eval vm_compute in map (fun n => py_round_mul n 0x1.0000000000000p-1%float) [0;1;2;3;4;5;6;7].              (* 0.5 *)
Eval vm_compute in map (fun n => py_round_mul n 0x1.999999999999ap-3%float) [1;2;3;7;8;12;13;17;18].         (* 0.2 *)
