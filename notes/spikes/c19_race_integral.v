From Coq Require Import Reals Lra.
From Coquelicot Require Import Coquelicot.
Open Scope R_scope.

Lemma race_finite (w W T : R) : 0 < W ->
  is_RInt (fun t => w * exp (- W * t)) 0 T ((w / W) * (1 - exp (- W * T))).
Proof.
intros HW.
replace ((w / W) * (1 - exp (- W * T)))
  with ((fun t => - (w / W) * exp (- W * t)) T - (fun t => - (w / W) * exp (- W * t)) 0).
2:{ simpl. rewrite Rmult_0_r, exp_0. field. lra. }
apply (is_RInt_derive (fun t => - (w / W) * exp (- W * t)) (fun t => w * exp (- W * t))).
- intros x _. auto_derive; [exact I|]. field. lra.
- intros x _. apply continuity_pt_filterlim.
  apply derivable_continuous_pt. 
  exists (w * (- W * exp (- W * x))). 
  apply is_derive_Reals. auto_derive; [exact I|]. ring.
Qed.
Print Assumptions race_finite.
