#!/bin/bash
# usage: tools/seed_sweep.sh <seed> [props...]   -- all quick checks with VERIF_SEED=<seed> against a scratch
# worktree of /repo's HEAD, output isolated under /tmp (so several sweeps can run side by side).
seed=$1; shift
props="$@"
[ -z "$props" ] && props=$(/venv/bin/python -c "import json; print(' '.join(c['property_id'] for c in json.load(open('/verif/MANIFEST.json'))['checks']))")
wt=/tmp/w/sweep-$seed
git -C /repo worktree add -q --detach $wt HEAD || exit 1
out=/tmp/verif-out-sweep-$seed
for p in $props; do
  t0=$(date +%s)
  o=$(cd /verif && VERIF_SEED=$seed VERIF_REPO=$wt VERIF_OUT=$out ./check $p --tier ${TIER:-quick} 2>&1); rc=$?
  t1=$(date +%s)
  echo "seed=$seed $p exit=$rc violations=$(echo "$o" | grep -c '^VIOLATION') wall=$((t1-t0))s"
  if [ $rc -ne 0 ]; then echo "$o" | grep -E '^(VIOLATION|# )' | head -4; mkdir -p /tmp/sweep-replays/$seed; cp $out/replays/$p-* /tmp/sweep-replays/$seed/ 2>/dev/null; fi
done
git -C /repo worktree remove --force $wt
rm -rf $out
