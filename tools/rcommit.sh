#!/bin/bash
# usage: tools/rcommit.sh "fix: message" path...  -- commit only the given paths of /repo, serialised by a lock
msg="$1"; shift
exec flock /repo/.git/verif-commit.lock bash -c 'cd /repo && git add -- "$@" && git commit -q -m "$0" -- "$@" && git log --oneline | head -1' "$msg" "$@"
