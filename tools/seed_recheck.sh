#!/bin/bash
# usage: tools/seed_recheck.sh <id> [--tier quick]   -- re-evaluate an adopted seed in /verif/seeded/<id> and refresh meta.json
id="$1"; shift
dst=/verif/seeded/$id
prop=$(/venv/bin/python -c "import json,sys; print(json.load(open('$dst/meta.json'))['property'])")
/verif/tools/seed_eval.py "$dst" --property "$prop" "$@" > "/tmp/seed-recheck-$id.json" 2>/dev/null
/venv/bin/python - "$dst" "/tmp/seed-recheck-$id.json" <<'PY'
import json, sys
d, ev = sys.argv[1], sys.argv[2]
m = json.load(open(d + "/meta.json")); e = json.load(open(ev))
old = m.get("lead_confirmation", {})
new = {k: e.get(k) for k in ("demo_clean_exit", "demo_patched_exit", "check_exit", "detected", "with_input", "violations", "violation_notes", "check_wall_s", "error")}
for k in ("tests_exit", "tests_tail"):
    if k in old: new[k] = old[k]
if old and (old.get("detected"), old.get("with_input")) != (new["detected"], new["with_input"]):
    m.setdefault("history", []).append({"detected": old.get("detected"), "with_input": old.get("with_input"), "note": "result of the check as it stood when the seed was first evaluated"})
m["lead_confirmation"] = new
json.dump(m, open(d + "/meta.json", "w"), indent=1)
print(d, {k: new.get(k) for k in ("demo_clean_exit", "demo_patched_exit", "detected", "with_input")})
PY
rm -f "/tmp/seed-recheck-$id.json"
