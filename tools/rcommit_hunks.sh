#!/bin/bash
# usage: tools/rcommit_hunks.sh "fix: message" file.patch
# Commit ONLY the hunks in file.patch (a unified diff against /repo's HEAD, paths relative to /repo) to /repo,
# leaving every other working-tree edit (possibly another builder's, even in the same file) uncommitted.
# The working tree must already contain the change (or pass --apply-worktree as 3rd arg to apply it there too).
msg="$1"; patch="$(realpath "$2")"; mode="$3"
exec flock /repo/.git/verif-commit.lock bash -c '
  cd /repo || exit 1
  git diff --cached --quiet || { echo "index not clean; aborting"; exit 1; }
  if [ "$2" = "--apply-worktree" ]; then git apply "$1" || exit 1; fi
  git apply --cached "$1" || { echo "patch does not apply to HEAD"; exit 1; }
  git commit -q -m "$0" && git log --oneline | head -1
' "$msg" "$patch" "$mode"
