#!/bin/bash
# usage: tools/vcommit.sh "message" path...   -- commit only the given paths of /verif, serialised by a lock
msg="$1"; shift
exec flock /verif/.git/verif-commit.lock bash -c 'cd /verif && git add -- "$@" && git commit -q -m "$0" -- "$@" && git log --oneline | head -1' "$msg" "$@"
