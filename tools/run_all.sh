#!/bin/bash
# Runs every registered quick (or thorough) check in turn on /repo; prints one line per property.
tier=${1:-quick}
cd /verif
for p in $(/venv/bin/python -c "import json; print(' '.join(c['property_id'] for c in json.load(open('MANIFEST.json'))['checks']))"); do
  t0=$(date +%s)
  out=$(./check $p --tier $tier 2>&1); rc=$?
  t1=$(date +%s)
  v=$(echo "$out" | grep -c '^VIOLATION')
  k=$(echo "$out" | grep -c '^KNOWN-FINDING')
  echo "$p exit=$rc violations=$v known=$k wall=$((t1-t0))s"
  [ $rc -ne 0 ] && echo "$out" | grep -E '^(VIOLATION|# )' | head -5
done
