#!/bin/bash
# usage: tools/seed_adopt.sh <src dir> <id> <property> [--tests "<pytest args>"]
# Confirms the seed (demo passes clean / fails patched, optional tests still pass with the patch), runs the
# property's check against the patched scratch worktree and stores everything as /verif/seeded/<id>/.
src="$1"; id="$2"; prop="$3"; shift 3
dst=/verif/seeded/$id
mkdir -p "$dst" && cp "$src"/patch.diff "$src"/meta.json "$dst"/ && cp "$src"/demo* "$dst"/ 2>/dev/null
/verif/tools/seed_eval.py "$dst" --property "$prop" "$@" > "$dst/eval.json" 2>/dev/null
/venv/bin/python - "$dst" <<'PY'
import json, sys
d = sys.argv[1]
m = json.load(open(d + "/meta.json")); e = json.load(open(d + "/eval.json"))
m["lead_confirmation"] = {k: e.get(k) for k in ("demo_clean_exit", "demo_patched_exit", "tests_exit", "tests_tail", "check_exit", "detected", "with_input", "violations", "violation_notes", "check_wall_s", "error")}
m["what_was_run"] = "tools/seed_eval.py: fresh worktree of /repo HEAD; demo on clean tree; git apply patch.diff; demo again; optional pytest subset; VERIF_REPO=<worktree> ./check <property>"
json.dump(m, open(d + "/meta.json", "w"), indent=1)
print(d, {k: m["lead_confirmation"].get(k) for k in ("demo_clean_exit", "demo_patched_exit", "tests_exit", "detected", "with_input")})
PY
rm -f "$dst/eval.json"
