#!/bin/bash
# usage: tools/kf.sh "fixed: property=C05 <commit> <what failed>"   -- append one line to KNOWN_FINDINGS.txt under a lock
exec flock /verif/.git/verif-kf.lock bash -c 'echo "$0" >> /verif/KNOWN_FINDINGS.txt' "$1"
