#!/venv/bin/python
"""Evaluate one seeded property-breaking change against the checks.

usage: tools/seed_eval.py <dir with patch.diff, demo.py, meta.json> [--tests "<pytest args>"] [--tier quick]

1. fresh scratch worktree of /repo's HEAD under /tmp/seedwt/
2. demo.py on the clean tree must exit 0; with patch.diff applied it must exit non-zero
3. optionally the named tests must still pass with the patch
4. VERIF_REPO=<worktree> ./check <property>  -> VIOLATION lines are collected
5. everything scratch is removed
Prints one JSON object.
"""
import argparse
import json
import os
import shutil
import subprocess
import sys
import time
from pathlib import Path


def sh(cmd, cwd=None, env=None, timeout=3600):
    p = subprocess.run(cmd, shell=True, cwd=cwd, env=env, capture_output=True, text=True, timeout=timeout)
    return p.returncode, (p.stdout + p.stderr)


def main():
    ap = argparse.ArgumentParser()
    ap.add_argument("dir")
    ap.add_argument("--tests", default=None)
    ap.add_argument("--tier", default="quick")
    ap.add_argument("--property", default=None)
    ap.add_argument("--keep", action="store_true")
    a = ap.parse_args()
    d = Path(a.dir).resolve()
    meta = json.loads((d / "meta.json").read_text())
    prop = a.property or meta["property"]
    wt = Path("/tmp/seedwt") / (d.name + "-" + str(os.getpid()))
    wt.parent.mkdir(exist_ok=True)
    out = Path(f"/tmp/verif-out-seed-{d.name}-{os.getpid()}")
    res = {"seed": d.name, "property": prop}
    rc, o = sh(f"git -C /repo worktree add -q --detach {wt} HEAD")
    if rc:
        res["error"] = "worktree: " + o[-300:]
        print(json.dumps(res))
        return 2
    env = dict(os.environ, PYTHONPATH=str(wt / "src"), PYTHONHASHSEED="0", PYTHONWARNINGS="ignore")
    try:
        rc0, o0 = sh(f"/venv/bin/python {d / 'demo.py'}", cwd=wt, env=env, timeout=1800)
        res["demo_clean_exit"] = rc0
        rc, o = sh(f"git apply {d / 'patch.diff'}", cwd=wt)
        if rc:
            rc, o = sh(f"git apply -3 {d / 'patch.diff'}", cwd=wt)
        if rc:
            res["error"] = "patch does not apply: " + o[-300:]
            print(json.dumps(res))
            return 2
        rc1, o1 = sh(f"/venv/bin/python {d / 'demo.py'}", cwd=wt, env=env, timeout=1800)
        res["demo_patched_exit"] = rc1
        res["demo_patched_tail"] = o1[-400:]
        if rc0 != 0:
            res["demo_clean_tail"] = o0[-400:]
        if a.tests:
            rct, ot = sh(f"/venv/bin/python -m pytest -q -p no:cacheprovider -x {a.tests}", cwd=wt, env=env, timeout=3600)
            res["tests_exit"] = rct
            res["tests_tail"] = ot.strip().splitlines()[-1:] if ot.strip() else []
        t0 = time.time()
        envc = dict(os.environ, VERIF_REPO=str(wt), VERIF_OUT=str(out))
        rcc, oc = sh(f"/verif/check {prop} --tier {a.tier}", cwd="/verif", env=envc, timeout=7200)
        res["check_exit"] = rcc
        res["check_wall_s"] = round(time.time() - t0, 1)
        res["violations"] = [l for l in oc.splitlines() if l.startswith("VIOLATION")]
        res["violation_notes"] = [l for l in oc.splitlines() if l.startswith("# ")][:6]
        res["detected"] = bool(res["violations"]) and rcc == 1
        res["with_input"] = any("no-failing-input-found" not in l for l in res["violations"])
    finally:
        if not a.keep:
            sh(f"git -C /repo worktree remove --force {wt}")
            shutil.rmtree(out, ignore_errors=True)
    print(json.dumps(res, indent=1))
    return 0


if __name__ == "__main__":
    sys.exit(main())
