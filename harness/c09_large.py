"""C09 -- LARGE cases of the k-NN scorers: thousands of users (user-kNN) / items (item-kNN).

A large case is a *recipe* (sizes, configuration, a data seed); the data are synthesised from it, the real scorers are trained
and queried, and the documented definition is evaluated by brute force in NumPy (float64) on the same data.  The Coq
correspondence is NOT run on these cases (a 9000 x 70 rating matrix as exact rationals is far beyond what a case shard can
read): they are judged by the Python oracle alone, which only sees public behaviour -- the scores returned and, for item-kNN,
the documented model attribute ``sim_matrix_``.  The observation of a large case is the list of findings of that evaluation
plus statistics; `props/c09.py:oracle` relays them.

Sizes are derived from the source: every integer constant >= 256 in the k-NN modules is taken to be a possible size
threshold, and the case is made more than twice as large, so that a newly introduced bound on the number of users,
candidate neighbours, items, history entries or candidates is exceeded; a constant too large for that fails closed.
"""

from __future__ import annotations

import ast
import itertools
import math

import common

MIN_CONST = 256
SIZE_FILES = {
    "user": ["lenskit/knn/user.py", "lenskit/knn/__init__.py", "lenskit/math/sparse.py"],
    "item": ["lenskit/knn/item.py", "lenskit/knn/__init__.py", "lenskit/math/sparse.py"],
}
FLOOR = {"user": 3000, "item": 1500}       # size when the source has no constant (still "thousands")
CAP = {"user": 16384, "item": 4096}        # largest constant the quick tier can afford to exceed twice over
MARGIN = {"user": 800, "item": 500}

EPS = 2e-6            # float32 similarity against the float64 cosine


class SizeError(Exception):
    pass


# ---------------------------------------------------------------------------------------------
# numeric constants of the source
# ---------------------------------------------------------------------------------------------


def _fold(node):
    """value of a constant arithmetic expression, None if it is not one"""
    if isinstance(node, ast.Constant):
        v = node.value
        if isinstance(v, bool) or not isinstance(v, (int, float)):
            return None
        return v
    if isinstance(node, ast.UnaryOp) and isinstance(node.op, (ast.USub, ast.UAdd)):
        v = _fold(node.operand)
        return None if v is None else (-v if isinstance(node.op, ast.USub) else v)
    if isinstance(node, ast.BinOp):
        a, b = _fold(node.left), _fold(node.right)
        if a is None or b is None:
            return None
        try:
            if isinstance(node.op, ast.Add):
                return a + b
            if isinstance(node.op, ast.Sub):
                return a - b
            if isinstance(node.op, ast.Mult):
                return a * b
            if isinstance(node.op, ast.FloorDiv):
                return a // b
            if isinstance(node.op, ast.Div):
                return a / b
            if isinstance(node.op, ast.Pow):
                return a ** b if abs(b) <= 1024 else None
            if isinstance(node.op, ast.LShift):
                return a << b if 0 <= b <= 1024 else None
        except Exception:  # noqa: BLE001
            return None
    return None


def size_constants(which):
    """[(file, line, value)] for every numeric constant (after folding constant arithmetic) >= MIN_CONST in the modules of one scorer"""
    out = []
    for rel in SIZE_FILES[which]:
        path = common.SRC / rel
        if not path.exists():
            raise SizeError(f"{rel} is gone: the list of k-NN modules to scan for size constants no longer fits the source")
        tree = ast.parse(path.read_text())
        for node in ast.walk(tree):
            v = _fold(node)
            if v is None or isinstance(v, complex):
                continue
            try:
                if math.isfinite(v) and v >= MIN_CONST:
                    out.append((rel, getattr(node, "lineno", 0), int(math.ceil(v))))
            except (OverflowError, TypeError):
                out.append((rel, getattr(node, "lineno", 0), 10**30))
    return sorted(set(out))


def size_for(which):
    """(size of the large case, the largest constant it is derived from)"""
    cs = size_constants(which)
    big = [c for c in cs if c[2] > CAP[which]]
    if big:
        f, ln, v = big[0]
        raise SizeError(f"{f}:{ln}: numeric constant {v} > {CAP[which]}: if it bounds a size, the large {which}-kNN case cannot exceed it "
                        "within the time budget (raise CAP in harness/c09_large.py after reviewing what the constant does)")
    k = max([c[2] for c in cs], default=0)
    return max(FLOOR[which], 2 * k + MARGIN[which]), k


# ---------------------------------------------------------------------------------------------
# recipes
# ---------------------------------------------------------------------------------------------

MIN_SIMS = ["1/1024", "1/1000000", "1/20"]


def gen_large(rng, which, size, const):
    fb = rng.weighted([("explicit", 1), ("implicit", 1)])
    case = {"large": which, "feedback": fb, "k": rng.randint(2, 5), "min_nbrs": rng.weighted([(1, 2), (2, 2), (3, 1)]),
            "scale_log2": rng.weighted([(0, 3), (-46, 1), (46, 1)]), "data_seed": rng.below(2**31), "size_const": const,
            "style": "large-" + which}
    if which == "user":
        case.update(n_users=size, n_core=rng.randint(24, 36), n_niche=rng.randint(30, 50), min_sim=rng.choice(MIN_SIMS))
    else:
        case.update(n_items=size, n_users=rng.randint(200, 400), min_sim=rng.choice(["1/4", "1/10", "1/20"]),
                    save_nbrs=rng.weighted([(None, 2), (5, 1), (20, 1)]), block_sizes=[1, 250])
    return case


def _np():
    import numpy as np
    return np


def synth_user(case):
    """rating matrix users x items (NaN = not rated), per-user affinity; deterministic in the recipe"""
    np = _np()
    g = np.random.Generator(np.random.PCG64(int(case["data_seed"])))
    N, nc, nn = case["n_users"], case["n_core"], case["n_niche"]
    aff = g.random(N)                                    # high affinity: dense, low-noise profile -> similar to the typical query
    rated = g.random((N, nc)) < (0.25 + 0.65 * aff)[:, None]
    pattern = g.integers(1, 6, nc).astype(float)
    bias = g.integers(-2, 3, N) * 0.5
    noise = g.standard_normal((N, nc)) * (0.2 + 3.0 * (1 - aff))[:, None]
    vals = np.clip(np.round((pattern[None, :] + bias[:, None] + noise) * 2) / 2, 0.5, 5.0)
    R = np.full((N, nc + nn), np.nan)
    R[:, :nc][rated] = vals[rated]
    low = np.nonzero(aff < 0.4)[0]
    for j in range(nn):
        m = int(g.integers(1, 9))
        pool = low if (j % 3 != 2 and len(low) >= m) else np.arange(N)
        who = g.choice(pool, m, replace=False)
        R[who, nc + j] = g.integers(1, 11, m) / 2       # niche items: a handful of raters, mostly of low affinity
    for u in g.choice(N, 6, replace=False)[:3]:
        R[u, :] = np.nan                                  # users without ratings
    for u in g.choice(N, 6, replace=False)[:3]:
        R[u, ~np.isnan(R[u])] = 3.0                       # constant profiles (zero vector when centred)
    return R, aff, pattern, g


def user_queries(case, R, aff, pattern, g):
    np = _np()
    N, nc, nn = case["n_users"], case["n_core"], case["n_niche"]
    cnt = (~np.isnan(R[:, :nc])).sum(axis=1)
    order = np.argsort(-aff)
    hi = int(next(u for u in order if cnt[u] >= 10))
    mid = int(next(u for u in order[N // 2:] if cnt[u] >= 5))
    lo = int(next(u for u in order[::-1] if cnt[u] >= 3))

    def hist(n):
        items = [int(x) for x in g.choice(nc, n, replace=False)]
        rs = np.clip(np.round((pattern[items] + g.standard_normal(n) * 0.7) * 2) / 2, 0.5, 5.0)
        h = [[i, float(r)] for i, r in zip(items, rs)] + [["x0", 4.0]]
        if nn:
            h.append([nc + int(g.integers(0, nn)), 2.5])
        return h

    def targets():
        t = list(range(nc, nc + nn)) + [int(x) for x in g.choice(nc, 8, replace=False)] + ["x0", "x1"]
        return [t[i] for i in g.permutation(len(t))]

    return [
        {"user": hi, "hist": None, "items": targets()},
        {"user": mid, "hist": hist(min(nc, 15)), "items": targets()},
        {"user": "unknown", "hist": hist(min(nc, 12)), "items": targets()},
        {"user": lo, "hist": None, "items": targets()},
    ]


def synth_item(case):
    """rating matrix users x items (NaN = not rated)"""
    np = _np()
    g = np.random.Generator(np.random.PCG64(int(case["data_seed"])))
    NI, NU = case["n_items"], case["n_users"]
    npop = 20
    ub = g.integers(-2, 3, NU) * 0.5
    ib = g.integers(-2, 3, NI) * 0.5
    R = np.full((NU, NI), np.nan)
    counts = g.integers(2, 9, NI)
    counts[:npop] = g.integers(NU // 8, NU // 4, npop)
    for i in range(NI):
        who = g.choice(NU, int(counts[i]), replace=False)
        R[who, i] = np.clip(np.round((3.0 + ub[who] + ib[i] + g.standard_normal(len(who))) * 2) / 2, 0.5, 5.0)
    R[:, NI - 4:] = np.nan                               # items without ratings
    for i in range(NI - 8, NI - 4):
        R[~np.isnan(R[:, i]), i] = 2.5                   # constant items
    return R, g


def item_queries(case, R, g):
    np = _np()
    NU, NI = R.shape
    cnt = (~np.isnan(R)).sum(axis=1)
    u = int(np.argmax(cnt))
    every = list(range(NI)) + ["x0", "x1"]

    def custom(n):
        items = [int(x) for x in g.choice(NI, n, replace=False)]
        return [[i, float(g.integers(1, 11)) / 2] for i in items] + [["x0", 3.0], ["x1", 1.5]]

    def some(n):
        t = [int(x) for x in g.choice(NI, n, replace=False)] + ["x0"]
        return [t[i] for i in g.permutation(len(t))]

    return [
        {"hist": [[int(i), float(R[u, i])] for i in np.nonzero(~np.isnan(R[u]))[0]], "items": [every[i] for i in g.permutation(len(every))]},
        {"hist": custom(NI - 300), "items": some(400)},       # a history longer than any size constant of the source
        {"hist": custom(300), "items": every},
    ]


# ---------------------------------------------------------------------------------------------
# driving the implementation
# ---------------------------------------------------------------------------------------------

UID0, IID0 = 100000, 200


def _iid(x):
    return 90000000 + int(x[1:]) if isinstance(x, str) else IID0 + int(x)


def _dataset(R, sc):
    np = _np()
    import pandas as pd
    from lenskit.data import DatasetBuilder
    us, its = np.nonzero(~np.isnan(R))
    df = pd.DataFrame({"user_id": us + UID0, "item_id": its + IID0, "rating": R[us, its] * sc})
    dsb = DatasetBuilder()
    dsb.add_entities("item", np.arange(R.shape[1]) + IID0)
    dsb.add_entities("user", np.arange(R.shape[0]) + UID0)
    dsb.add_interactions("rating", df, entities=["user", "item"], missing="error", default=True)
    return dsb.build()


def _query(user_id, hist, sc):
    np = _np()
    from lenskit.data import ItemList, RecQuery
    if hist is None:
        return RecQuery(user_id=user_id, user_items=None)
    il = ItemList(item_ids=np.array([_iid(x) for x, _ in hist], dtype=np.int64),
                  rating=np.array([r * sc for _, r in hist], dtype=np.float32))
    return RecQuery(user_id=user_id, user_items=il)


def _targets(items):
    np = _np()
    from lenskit.data import ItemList
    return ItemList(item_ids=np.array([_iid(x) for x in items], dtype=np.int64))


def _centred(R, explicit, axis):
    """centred (explicit) or indicator (implicit) matrix with 0 where nothing is rated, its rated mask and the means along `axis`"""
    np = _np()
    rated = ~np.isnan(R)
    n = rated.sum(axis=axis, keepdims=True)
    if explicit:
        means = np.where(n > 0, np.nansum(R, axis=axis, keepdims=True) / np.maximum(n, 1), 0.0)
        C = np.where(rated, R - means, 0.0)
    else:
        means = np.zeros_like(n, dtype=float)
        C = rated.astype(float)
    return C, rated, means


def _unit_rows(C):
    np = _np()
    nrm = np.sqrt((C * C).sum(axis=1, keepdims=True))
    return C / np.where(nrm > 0, nrm, 1.0)


def _selections(cos, k, slack, limit=200):
    """index sets that may be 'the k most similar' given values known up to `slack`: the entries clearly above the k-th value plus every
    way of filling up from those within `slack` of it; None when there are too many ways"""
    np = _np()
    n = len(cos)
    if n <= k:
        return [list(range(n))]
    order = np.argsort(-cos, kind="stable")
    ck = cos[order[k - 1]]
    must = [int(p) for p in order if cos[p] > ck + slack]
    band = [int(p) for p in order if abs(cos[p] - ck) <= slack]
    need = k - len(must)
    if need <= 0:
        return [must[:k]]
    if math.comb(len(band), need) > limit:
        return None
    return [must + list(c) for c in itertools.combinations(band, need)]


def run_user(case):
    np = _np()
    from lenskit.knn.user import UserKNNScorer
    explicit = case["feedback"] == "explicit"
    sc = 2.0 ** int(case.get("scale_log2") or 0)
    unit = sc if explicit else 1.0
    k, min_nbrs, thr = case["k"], case["min_nbrs"], float(common.fparse(case["min_sim"]))
    R, aff, pattern, g = synth_user(case)
    queries = user_queries(case, R, aff, pattern, g)
    N, ni = R.shape
    us = UserKNNScorer(k=k, min_nbrs=min_nbrs, min_sim=thr, feedback=case["feedback"])
    us.train(_dataset(R, sc))
    C, rated, means = _centred(R, explicit, 1)
    V = _unit_rows(C)
    findings, stats = [], {"queries": len(queries), "qualifying": [], "branch": {}}

    def note(b):
        stats["branch"][b] = stats["branch"].get(b, 0) + 1

    def found(key, what):
        if not any(kk == key for kk, _ in findings):
            findings.append([key, what])

    for qn, q in enumerate(queries):
        uid = UID0 + N + 7 if q["user"] == "unknown" else UID0 + q["user"]
        try:
            res = us(_query(uid, q["hist"], sc), _targets(q["items"]))
            scores = np.asarray(res.scores(), dtype=float) / unit
            ids = [int(x) for x in res.ids()]
        except Exception as e:  # noqa: BLE001
            found("user-score-error:large", f"query {qn}: scoring raised {type(e).__name__}: {e}"[:300])
            continue
        if ids != [_iid(x) for x in q["items"]]:
            found("user-score-alignment:large", f"query {qn}: returned item ids differ from the requested ones")
            continue
        # the definition
        if q["hist"] is None:
            qv, umean = C[q["user"]].copy(), float(means[q["user"], 0])
        else:
            rs = [r for _, r in q["hist"]]
            umean = sum(rs) / len(rs) if explicit else 0.0
            qv = np.zeros(ni)
            for x, r in q["hist"]:
                if not isinstance(x, str):
                    qv[x] = (r - umean) if explicit else 1.0
        nq = math.sqrt(float(qv @ qv))
        cos = V @ (qv / nq) if nq > 0 else np.zeros(N)
        overlap = ((C != 0).astype(np.int32) @ (qv != 0).astype(np.int32)) > 0
        if q["user"] != "unknown":
            cos[q["user"]] = 0.0
            overlap[q["user"]] = False
        sure = cos >= thr + EPS
        maybe = (cos >= thr - EPS) & overlap
        stats["qualifying"].append(int(sure.sum()))
        for t, s in zip(q["items"], scores.tolist()):
            has = not math.isnan(s)
            where = f"query {qn} ({'stored profile' if q['hist'] is None else 'history'} of user {q['user']}), target {t}"
            if isinstance(t, str):
                if has:
                    found("user-score-unknown:large", f"{where}: unknown item got a score")
                continue
            rs_sure = np.nonzero(sure & rated[:, t])[0]
            rs_maybe = np.nonzero(maybe & rated[:, t])[0]
            if not has:
                note("unscored")
                if len(rs_sure) >= min_nbrs:
                    found("user-unscored:large", f"{where}: {len(rs_sure)} >= min_nbrs={min_nbrs} of its raters reach the similarity threshold "
                                                 f"(among {int(sure.sum())} qualifying users of {N}) but it got no score")
                continue
            if len(rs_maybe) < min_nbrs:
                found("user-too-few:large", f"{where}: {len(rs_maybe)} qualifying raters < min_nbrs={min_nbrs} but scored {s}")
                continue
            border = [int(u) for u in rs_maybe if not sure[u]]
            if len(border) > 3:
                note("undecided")
                continue
            note("truncated" if len(rs_sure) > k else "all-raters")
            ok, wants, undecided = False, [], False
            for extra in itertools.chain.from_iterable(itertools.combinations(border, n) for n in range(len(border) + 1)):
                cand = np.array(sorted(set(rs_sure.tolist()) | set(extra)), dtype=int)
                if len(cand) < min_nbrs:
                    continue
                sels = _selections(cos[cand], k, 2 * EPS)
                if sels is None:
                    undecided = True
                    continue
                for sel in sels:
                    who = cand[sel]
                    w = cos[who]
                    tot = float(w.sum())
                    if explicit:
                        vals = C[who, t]
                        want = float(w @ vals) / tot + umean
                        tol = 2e-5 * max(1.0, abs(want)) + len(who) * 2e-7 * float(vals.max() - vals.min() + 1e-9) / tot
                    else:
                        want = tot
                        tol = 2e-6 * max(1.0, want) + len(who) * 2e-7
                    wants.append(want)
                    if abs(s - want) <= tol:
                        ok = True
                        break
                if ok:
                    break
            if not ok and not undecided:
                found("user-score:large", f"{where}: score {s} is not the aggregate over the {k} most similar of its {len(rs_sure)} qualifying raters "
                                          f"({wants[0] if wants else None}); {int(sure.sum())} of {N} users qualify")
    stats["max_qualifying"] = max(stats["qualifying"], default=0)
    if case.get("size_const") and stats["max_qualifying"] <= case["size_const"]:
        found("large-case-too-small:user", f"at most {stats['max_qualifying']} users qualify as neighbours, not more than the size constant "
                                           f"{case['size_const']} found in the source: a bound of that size is not explored")
    return {"large": "user", "findings": findings, "stats": stats}


def run_item(case):
    np = _np()
    from lenskit.knn.item import ItemKNNScorer
    explicit = case["feedback"] == "explicit"
    sc = 2.0 ** int(case.get("scale_log2") or 0)
    unit = sc if explicit else 1.0
    k, min_nbrs, thr, save = case["k"], case["min_nbrs"], float(common.fparse(case["min_sim"])), case["save_nbrs"]
    R, g = synth_item(case)
    queries = item_queries(case, R, g)
    NU, NI = R.shape
    ds = _dataset(R, sc)
    mats = []
    for bs in case["block_sizes"]:
        s = ItemKNNScorer(k=k, min_nbrs=min_nbrs, min_sim=thr, feedback=case["feedback"], save_nbrs=save, block_size=bs)
        s.train(ds)
        mats.append(s)
    findings, stats = [], {"queries": len(queries), "branch": {}}

    def note(b, n=1):
        stats["branch"][b] = stats["branch"].get(b, 0) + n

    def found(key, what):
        if not any(kk == key for kk, _ in findings):
            findings.append([key, what])

    a, b = mats[0].sim_matrix_, mats[1].sim_matrix_
    if not (np.array_equal(a.indptr, b.indptr) and np.array_equal(a.indices, b.indices) and a.data.tobytes() == b.data.tobytes()):
        found("block-size:large", f"similarity matrices of {NI} items differ between block sizes {case['block_sizes']}")
    s = mats[0]
    num = np.asarray(s.items_.numbers(np.arange(NI) + IID0))
    S = s.sim_matrix_.tocsr()[num][:, num].tocsr()          # in case numbering
    S.sort_indices()
    stats["nnz"] = int(S.nnz)
    C, rated, means = _centred(R, explicit, 0)
    V = _unit_rows(C.T)                                       # items x users
    if explicit:
        got = np.asarray(s.item_means_, dtype=float)[num] / unit
        bad = np.nonzero(np.abs(got - means[0]) > 1e-5 * np.maximum(1.0, np.abs(means[0])))[0]
        if len(bad):
            found("item-mean:large", f"item {int(bad[0])}: mean {got[bad[0]]} != {means[0][bad[0]]}")
    elif s.item_means_ is not None:
        found("item-mean:large", "implicit-feedback model carries item means")
    # the similarity matrix against brute-force cosines, by row blocks
    for lo in range(0, NI, 512):
        hi = min(lo + 512, NI)
        cosb = V[lo:hi] @ V.T
        blk = S[lo:hi]
        vals = blk.toarray().astype(float)
        st = blk.copy()
        st.data = np.ones_like(st.data)
        stored = st.toarray() > 0
        offd = np.ones_like(stored)
        offd[np.arange(hi - lo), np.arange(lo, hi)] = False
        if (stored & ~offd).any():
            r = int(np.nonzero((stored & ~offd).any(axis=1))[0][0]) + lo
            found("self-similarity:large", f"item {r} is its own neighbour")
        sure = (cosb >= thr + EPS) & offd
        maybe = (cosb >= thr - EPS) & (cosb > 0) & offd
        bad = stored & offd & (np.abs(vals - cosb) > EPS)
        if bad.any():
            r, c = [int(x[0]) for x in np.nonzero(bad)]
            found("sim-value:large", f"S[{r + lo},{c}] = {vals[r, c]} but the cosine of the rating vectors is {cosb[r, c]}")
        bad = stored & ((vals < thr * (1 - EPS)) | (vals > 1.0))
        if bad.any():
            r, c = [int(x[0]) for x in np.nonzero(bad)]
            found("sim-range:large", f"S[{r + lo},{c}] = {vals[r, c]} outside [{thr}, 1]")
        bad = stored & offd & ~maybe
        if bad.any():
            r, c = [int(x[0]) for x in np.nonzero(bad)]
            found("sim-threshold:large", f"row {r + lo} stores neighbour {c} whose cosine {cosb[r, c]} is below the threshold {thr}")
        if save is None:
            bad = sure & ~stored
            if bad.any():
                r, c = [int(x[0]) for x in np.nonzero(bad)]
                found("sim-missing:large", f"row {r + lo} lacks neighbour {c} whose cosine {cosb[r, c]} reaches the threshold {thr}")
        else:
            n_sure, n_maybe, n_st = sure.sum(axis=1), maybe.sum(axis=1), (stored & offd).sum(axis=1)
            bad = np.nonzero(((n_sure >= save) & (n_st != save)) | ((n_maybe <= save) & (sure & ~stored).any(axis=1)) | (n_st > save))[0]
            if len(bad):
                r = int(bad[0])
                found("truncate-count:large", f"row {r + lo} keeps {int(n_st[r])} neighbours, save_nbrs={save}, {int(n_sure[r])} qualify")
            low = np.where(stored & offd, cosb, np.inf).min(axis=1)
            top = np.where(sure & ~stored, cosb, -np.inf).max(axis=1)
            bad = np.nonzero((n_st > 0) & (top > low + EPS))[0]
            if len(bad):
                r = int(bad[0])
                found("truncate-most-similar:large", f"row {r + lo} dropped a neighbour (cosine {top[r]}) more similar than one it kept ({low[r]})")
    # scores by the definition over the stored matrix
    Sc = S.tocsc()
    Sc.sort_indices()
    mean_of = (np.asarray(s.item_means_, dtype=float)[num] / unit) if (explicit and s.item_means_ is not None) else np.zeros(NI)
    for qn, q in enumerate(queries):
        try:
            res = s(_query(424242, q["hist"], sc), _targets(q["items"]))
            scores = np.asarray(res.scores(), dtype=float) / unit
            ids = [int(x) for x in res.ids()]
        except Exception as e:  # noqa: BLE001
            found("item-score-error:large", f"query {qn}: scoring raised {type(e).__name__}: {e}"[:300])
            continue
        if ids != [_iid(x) for x in q["items"]]:
            found("item-score-alignment:large", f"query {qn}: returned item ids differ from the requested ones")
            continue
        pos = np.full(NI, -1)
        hv = []
        for x, r in q["hist"]:
            if not isinstance(x, str):
                pos[x] = len(hv)
                hv.append((r - mean_of[x]) if explicit else 1.0)
        hv = np.array(hv)
        for t, sco in zip(q["items"], scores.tolist()):
            has = not math.isnan(sco)
            where = f"query {qn} (history of {len(q['hist'])} items), target {t}"
            if isinstance(t, str):
                if has:
                    found("item-score-unknown:large", f"{where}: unknown item got a score")
                continue
            rows = Sc.indices[Sc.indptr[t]:Sc.indptr[t + 1]]
            sims = Sc.data[Sc.indptr[t]:Sc.indptr[t + 1]].astype(float)
            m = pos[rows] >= 0
            p, sims = pos[rows][m], sims[m]
            if len(p) < min_nbrs:
                note("too-few")
                if has:
                    found("item-too-few:large", f"{where}: {len(p)} neighbours < min_nbrs={min_nbrs} but scored {sco}")
                continue
            if not has:
                found("item-unscored:large", f"{where}: {len(p)} >= min_nbrs neighbours among the rated items but no score")
                continue
            note("slow" if len(p) > k else "fast")
            sels = _selections(sims, k, 0.0)
            if sels is None:
                note("undecided")
                continue
            ok, want = False, None
            for sel in sels:
                w = sims[sel]
                if explicit:
                    want = float(w @ hv[p[sel]]) / float(w.sum()) + mean_of[t]
                else:
                    want = float(w.sum())
                if abs(sco - want) <= 2e-5 * max(1.0, abs(want)):
                    ok = True
                    break
            if not ok:
                found(f"item-score:{'slow' if len(p) > k else 'fast'}:large",
                      f"{where}: score {sco} is not the aggregate over the {k} most similar of {len(p)} neighbours ({want})")
    return {"large": "item", "findings": findings, "stats": stats}


def run_large(case):
    return run_user(case) if case["large"] == "user" else run_item(case)
