"""C13 implementation driver (imported inside a worker process after common.use_repo()).

Builds real lenskit pipelines from case descriptions, observes configuration JSON / hash / warnings /
run results, and reloads configuration documents produced in another process.
"""

from __future__ import annotations

import importlib
import json
import warnings

import base64
import pickle

import c13_lit
import vcomp
from c13_lit import canon, pyval
from lenskit.data import ItemList
from lenskit.diagnostics import PipelineError, PipelineWarning
from lenskit.pipeline import Pipeline, PipelineBuilder, predict_pipeline, topn_pipeline
from lenskit.pipeline.common import RecPipelineBuilder
from lenskit.pipeline.components import fallback_on_none
from lenskit.pipeline.config import PipelineComponent, PipelineConfig
from lenskit.pipeline.nodes import ComponentNode
from pydantic import ValidationError

import numpy as np

TYPES = {
    "int": int, "str": str, "float": float, "bool": bool, "None": None, "list": list, "dict": dict,
    "list[int]": list[int], "int|str": int | str, "Token": vcomp.Token, "Inner": vcomp.Outer.Inner,
    "ItemList": ItemList, "ndarray": np.ndarray, "bytes": bytes,
}

COMPS = {
    "const7": vcomp.const7, "inc": vcomp.inc, "neg": vcomp.neg, "add": vcomp.add, "mix3": vcomp.mix3,
    "user_item": vcomp.user_item, "opt_first": vcomp.opt_first, "lazy_pick": vcomp.lazy_pick,
    "anyval": vcomp.anyval, "twice": vcomp.Box.twice, "first_of": fallback_on_none,
    "Scale": vcomp.Scale, "Affine": vcomp.Affine, "Aliased": vcomp.Aliased, "NoSettings": vcomp.NoSettings,
    "Shift": vcomp.Box.Shift, "Bare": vcomp.Bare,
    "describe": c13_lit.describe, "describe2": c13_lit.describe2, "lookup": c13_lit.lookup, "extend": c13_lit.extend,
    "total": c13_lit.total,
}


def err_code(e):
    if isinstance(e, ValidationError):
        return 5
    if isinstance(e, PipelineError):
        return 4
    if isinstance(e, KeyError):
        return 2
    if isinstance(e, TypeError):
        return 3
    if isinstance(e, ValueError):
        return 1
    raise e


def load_obj(code):
    m, q = code.split(":")
    o = importlib.import_module(m)
    for part in q.split("."):
        o = getattr(o, part)
    return o


def make_comp(op):
    c = COMPS[op["comp"]] if "comp" in op else load_obj(op["code"])
    style = op.get("style", "fn")
    if style == "fn":
        return (c,)
    if style == "bare":
        return (c(),)
    if style == "instance":
        return (c(**(op.get("settings") or {})),)
    if op.get("settings") is None:
        return (c,)
    return (c, op["settings"])


def node_info(b, name):
    n = b._nodes.get(name)
    if isinstance(n, ComponentNode):
        return {"dumped": PipelineComponent.from_node(n).config, "sig": list(n.inputs.keys()),
                "code": PipelineComponent.from_node(n).code}
    return {}


def lit_info(b, name):
    "representation of a literal node, as build_config will write it"
    from lenskit.pipeline.config import PipelineLiteral
    from lenskit.pipeline.nodes import LiteralNode

    n = b._nodes.get(name) if name is not None else None
    if not isinstance(n, LiteralNode):
        return None
    rep = PipelineLiteral.represent(n.value)
    # "pk": the base85 pickle text of the value, computed here (not taken from lenskit)
    return {"name": name, "enc": rep.encoding, "value": rep.value,
            "pk": base64.b85encode(pickle.dumps(n.value)).decode("ascii")}


def resolve_ins(b, ins):
    "evaluate the keyword arguments the way a caller would: nodes are looked up before the call"
    kw = {}
    for k, t in ins:
        if "node" in t:
            kw[k] = b.node(t["node"])
        else:
            kw[k] = pyval(t["lit"])
    return kw


def apply_op(b: PipelineBuilder, op):
    r = {"err": 0}
    kind = op["op"]
    try:
        if kind == "input":
            b.create_input(op["name"], *[TYPES[t] for t in op["types"]])
        elif kind == "literal":
            n = b.literal(pyval(op["value"]), name=op.get("name"))
            r["lits"] = [lit_info(b, n.name)]
        elif kind in ("add", "replace"):
            kw = resolve_ins(b, op["ins"])
            args = make_comp(op)
            try:
                if kind == "add":
                    b.add_component(op["name"], *args, **kw)
                else:
                    b.replace_component(op["name"], *args, **kw)
            finally:
                # literal nodes created for the keyword values (also when the call failed later)
                e = b._edges.get(op["name"], {})
                r["lits"] = [lit_info(b, e.get(k)) for k, t in op["ins"] if "lit" in t]
            r.update(node_info(b, op["name"]))
        elif kind == "first_of":
            b.use_first_of(op["name"], b.node(op["primary"]), b.node(op["fallback"]))
            r.update(node_info(b, op["name"]))
        elif kind == "connect":
            kw = resolve_ins(b, op["ins"])
            b.connect(op["name"], **kw)
            real = b.node(op["name"]).name
            e = b._edges.get(real, {})
            r["lits"] = [lit_info(b, e.get(k)) for k, t in op["ins"] if "lit" in t]
        elif kind == "alias":
            b.alias(op["alias"], op["node"])
        elif kind == "remove_alias":
            b.remove_alias(op["alias"], exist_ok=op["exist_ok"])
        elif kind == "defconn":
            t = op["target"]
            if "node" in t:
                b.default_connection(op["param"], b.node(t["node"]))
            else:
                b.default_connection(op["param"], pyval(t["lit"]))
                r["lits"] = [lit_info(b, b._default_connections[op["param"]])]
        elif kind == "defcomp":
            b.default_component(op["name"])
        elif kind == "clear":
            b.clear_inputs(op["name"])
        elif kind == "set_name":
            b.name = op["value"]
        elif kind == "set_version":
            b.version = op["value"]
        elif kind == "observe":
            r["obs"] = checkpoint(b, op["how"])
        else:
            raise RuntimeError("unknown op " + kind)
    except (ValueError, KeyError, TypeError, PipelineError) as e:
        r["err"] = err_code(e)
        r["msg"] = str(e)[:80]
    return r


def checkpoint(b: PipelineBuilder, how):
    """observe the SAME builder in the middle of its history: first the call named by `how` (so that whatever the builder
    remembers is computed at this point), then its hash, the pipeline it builds and that pipeline's clone"""
    first = {"hash": lambda: b.config_hash(), "meta": lambda: b.meta().hash, "config": lambda: b.build_config().meta.hash,
             "build": lambda: b.build().config_hash}[how]
    v, e, _ = guarded(first)
    out = {"how": how, "first": v, "first_err": e}
    v, e, _ = guarded(lambda: b.config_hash())
    out["config_hash"] = v
    p, e, _ = guarded(b.build)
    out["built"] = obs_config(p) if p is not None else {"err": e}
    if p is not None:
        q, e, w = guarded(p.clone)
        out["clone"] = ({**obs_config(q), "warn": w} if q is not None else {"err": e, "warn": w})
    return out


def obs_config(p: Pipeline):
    cfg = p.config
    c2 = cfg.model_copy(deep=True)
    c2.meta.hash = None
    return {
        "err": 0,
        "js_ex": cfg.model_dump_json(exclude_none=True),
        "js_full": cfg.model_dump_json(),
        "pre": c2.model_dump_json(exclude_none=True),
        "hash": p.config_hash,
        "name": p.name,
        "version": p.version,
        "sigs": {PipelineComponent.from_node(n).code: list(n.inputs.keys()) for n in p.nodes() if isinstance(n, ComponentNode)},
    }


def guarded(f):
    "run f() recording hash-mismatch warnings; returns (value or None, error code, warned)"
    with warnings.catch_warnings(record=True) as w:
        warnings.simplefilter("always")
        try:
            v = f()
            err = 0
        except (ValueError, KeyError, TypeError, PipelineError) as e:
            v, err = None, err_code(e)
        except (AttributeError, ImportError) as e:
            v, err = None, 6
    warned = any(issubclass(x.category, PipelineWarning) and "hash" in str(x.message) for x in w)
    return v, err, warned


def run_all(p: Pipeline, runs, targets):
    out = []
    for inputs in runs:
        kw = {k: pyval(v) for k, v in inputs.items()}
        row = []
        for t in targets:
            try:
                v = p.run(**kw) if t is None else p.run(t, **kw)
                row.append(canon(v))
            except Exception as e:
                row.append("!" + type(e).__name__)
        out.append(row)
    return out


def observe_pipeline(p, err, case, targets):
    if p is None:
        return {"err": err}
    o = obs_config(p)
    if case.get("runs"):
        o["runs"] = run_all(p, case["runs"], targets)
    return o


def build_std(case):
    scorer = load_obj(case["scorer"])(**case["settings"])
    how = case["builder"]
    if how == "topn":
        return topn_pipeline(scorer, predicts_ratings=case["predicts_ratings"], n=case["n"], name=case.get("name"))
    if how == "predict":
        fb = case["fallback"]
        if isinstance(fb, dict):
            fb = load_obj(fb["code"])(**fb["settings"])
        return predict_pipeline(scorer, fallback=fb, name=case.get("name"))
    rb = RecPipelineBuilder()
    rb.scorer(scorer)
    if case.get("ranker"):
        rb.ranker(load_obj(case["ranker"]["code"])(**case["ranker"]["settings"]))
    else:
        rb.ranker(n=case["n"])
    if case.get("selector"):
        rb.candidate_selector(load_obj(case["selector"])())
    if case.get("predicts_ratings"):
        fb = case.get("fallback")
        rb.predicts_ratings(fallback=load_obj(fb["code"])(**fb["settings"]) if fb else None)
    return rb.build(case.get("name"))


def _track(expect, b, op, r):
    """which literal value each (component, parameter) was last given, followed through the history of the builder
    (only what the case description itself says; forgotten whenever an operation failed half-way)"""
    kind = op["op"]
    if kind not in ("add", "replace", "connect", "clear"):
        return
    try:
        real = b.node(op["name"]).name
    except Exception:
        real = op["name"]
    if kind in ("replace", "clear") or r["err"]:
        for k in [k for k in expect if k[0] == real]:
            del expect[k]
    if r["err"] or kind == "clear":
        return
    for param, t in op["ins"]:
        if "lit" in t:
            expect[(real, param)] = t["lit"]
        else:
            expect.pop((real, param), None)


def literal_checks(p: Pipeline, expect):
    """public-interface checks of the literal nodes of a built pipeline:
    delivery -- the node wired to (component, parameter) yields the value the caller passed, type included;
    faithful -- a literal the document declares as JSON means, as JSON text, the value the pipeline holds"""
    out = {"delivery": [], "faithful": [], "n": 0}
    for (comp, param), e in sorted(expect.items()):
        try:
            node = p.node_input_connections(comp).get(param)
        except Exception:
            continue
        if node is None:
            continue
        out["n"] += 1
        want, got = canon(pyval(e)), canon(p.run(node.name))
        if want != got:
            out["delivery"].append([comp, param, want, got])
    doc = json.loads(p.config.model_dump_json())
    for name, lit in doc["literals"].items():
        if lit["encoding"] == "json":
            held, meant = canon(p.run(name)), canon(lit["value"])
            if held != meant:
                out["faithful"].append([name, held, meant])
    return out


def produce(case, ops_key="ops"):
    "build the pipeline of a case in this process"
    if case["kind"] == "std":
        p, err, _ = guarded(lambda: build_std(case))
        return {"ops": []}, p, err
    b = PipelineBuilder(name=case.get("name"), version=case.get("version"))
    results, expect = [], {}
    for op in case[ops_key]:
        r = apply_op(b, op)
        _track(expect, b, op, r)
        results.append(r)
    p, err, _ = guarded(b.build)
    out = {"ops": results}
    if p is not None:
        out["literal_checks"] = literal_checks(p, expect)
    return out, p, err


# every way of rebuilding a pipeline from its configuration inside one process
ROUTES = {
    "clone": lambda p, js: p.clone(),
    "reobj": lambda p, js: Pipeline.from_config(p.config),                                 # the configuration object
    "rejson": lambda p, js: Pipeline.from_config(json.loads(js)),                          # JSON text -> dict
    "revalidate": lambda p, js: Pipeline.from_config(PipelineConfig.model_validate_json(js)),   # JSON text -> model
}


def observe(case, docs):
    out, p, err = produce(case)
    targets = [None] + list(case.get("run_nodes", []))
    out["built"] = observe_pipeline(p, err, case, targets)
    if "literal_checks" in out:
        out["built"]["literal_checks"] = out.pop("literal_checks")
    if case.get("ops2") is not None:
        o2, p2, err2 = produce(case, "ops2")
        out["ops2"] = o2["ops"]
        out["built2"] = observe_pipeline(p2, err2, case, targets)
    if case.get("ops3") is not None:
        # the same history with ONE literal replaced by a value of another type
        o3, p3, err3 = produce(case, "ops3")
        out["ops3"] = [r["err"] for r in o3["ops"]]
        out["built3"] = {"err": err3} if p3 is None else {"err": 0, "hash": p3.config_hash, "runs": run_all(p3, case.get("runs", []), targets)}
    if p is not None:
        js = out["built"]["js_full"]
        for route, make in ROUTES.items():
            q, e, w = guarded(lambda: make(p, js))
            out[route] = {**observe_pipeline(q, e, case, targets), "warn": w}
        # the builder-level entry point must agree with the pipeline-level one
        bq, e, w = guarded(lambda: PipelineBuilder.from_config(json.loads(js)))
        out["builder_from_config"] = {"err": e, "warn": w, "hash": (bq.config_hash() if bq is not None else None),
                                      "name": getattr(bq, "name", None), "version": getattr(bq, "version", None)}
        # a builder loaded from the document (which records a hash), edited once more, then built
        ed = case.get("fc_edit")
        if ed is not None and bq is not None:
            def edit_and_build():
                if ed["kind"] == "default":
                    bq.default_component(ed["value"])
                elif ed["kind"] == "name":
                    bq.name = ed["value"]
                elif ed["kind"] == "version":
                    bq.version = ed["value"]
                else:
                    bq.alias(ed["alias"], ed["value"])
                return bq.build()
            p2, e, w = guarded(edit_and_build)
            o2 = obs_config(p2) if p2 is not None else {"err": e}
            if p2 is not None:
                q2, e2, w2 = guarded(p2.clone)
                o2["clone"] = {"err": e2, "warn": w2, "hash": q2.config_hash if q2 is not None else None}
            out["from_config_edit"] = o2
    if p is not None:
        # session 2 (seed C13-10): a builder DERIVED from the built pipeline (Pipeline.modify()) and edited in every way must
        # leave the source as it was -- its configuration, hash and results unchanged, so that the configuration still
        # reproduces it (clone without a hash warning).  Only public calls; edits that the builder refuses are skipped.
        before = obs_config(p)
        names = [n.name for n in p.nodes()]
        def derive_and_edit():
            mb = p.modify()
            done = 0
            for cname_, comp in json.loads(before["js_full"])["components"].items():
                for param, cur in (comp.get("inputs") or {}).items():
                    other = next((x for x in names if x != cur and x != cname_), None)
                    if other is None:
                        continue
                    try:
                        mb.connect(cname_, **{param: other})
                        done += 1
                    except Exception:
                        pass
            try:
                mb.alias("derived-alias", names[0])
            except Exception:
                pass
            mb.name = "derived"
            mb.version = "0-derived"
            return done
        done, e, _ = guarded(derive_and_edit)
        after = obs_config(p)
        q, e2, w2 = guarded(p.clone)
        am = {"edits": done, "err": e, "same": after["js_full"] == before["js_full"] and after["hash"] == before["hash"]
              and after["name"] == before["name"] and after["version"] == before["version"],
              "clone_err": e2, "clone_warn": w2}
        if not am["same"]:
            am["now"] = after["js_full"]
        if case.get("runs"):
            am["runs_same"] = run_all(p, case["runs"], targets) == out["built"].get("runs")
        out["after_modify"] = am
    out["reloads"] = []
    for label, text in docs:
        q, e, w = guarded(lambda: Pipeline.from_config(json.loads(text)))
        out["reloads"].append({"label": label, **observe_pipeline(q, e, case if label == "orig" else {}, targets), "warn": w})
    return out
