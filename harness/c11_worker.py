"""C11: one training process under the thread configuration given by the environment
(LK_NUM_THREADS / LK_NUM_BACKEND_THREADS, set by the parent through common.base_env).
Reads a JSON job on stdin, prints {label: {attribute: digest}} as JSON on stdout."""

from __future__ import annotations

import json
import sys


def dg(x) -> int:
    import hashlib
    return int.from_bytes(hashlib.sha256(repr(x).encode()).digest()[:7], "big")


def hashseed_batch(job):
    """Seeded operations whose seed derivation or bookkeeping involves names / text ids / sets / dicts, run in this
    interpreter process (the parent varies PYTHONHASHSEED).  Returns {label: list of integers}."""
    import os
    import warnings

    import c18_lib as L

    L.setup()
    warnings.simplefilter("ignore")
    import numpy as np
    import lenskit.random as LR
    import lenskit.splitting as S
    from lenskit.data import ItemList, RecQuery
    from lenskit.pipeline import Component, PipelineBuilder, predict_pipeline, topn_pipeline
    from lenskit.splitting.holdout import SampleFrac, SampleN
    from lenskit.training import Trainable, TrainingOptions

    out = {}
    seed = job["seed"]
    ds = L.dataset(job["dataset"])

    # 1. the seeds Pipeline.train hands to named probe components
    log = []

    class Probe(Component[int], Trainable):
        config: None
        label = "?"

        def train(self, data, options=TrainingOptions()):
            r = options.rng
            key = [int(x) for x in r.spawn_key] if isinstance(r, np.random.SeedSequence) else [-1]
            log.append((self.label, key, [int(x) for x in options.random_generator().integers(0, 2**31, 3)]))

        def __call__(self) -> int:
            return 0

    for pi, names in enumerate(job["pipelines"]):
        b = PipelineBuilder()
        for nm in names:
            c = Probe()
            c.label = nm
            b.add_component(nm, c)
        p = b.build()
        log.clear()
        for sk in job["seed_kinds"]:
            p.train(ds, TrainingOptions(rng=seed if sk == "int" else (np.random.SeedSequence(seed) if sk == "seedseq" else [seed, 5])))
        out[f"pipeline-seeds:{pi}:{'/'.join(names)}"] = [dg(x) for x in log]

    # 2. real models trained through the standard pipelines
    for label, kind, cfg, builder in job["std_pipelines"]:
        sc = L.make(kind, cfg)
        p = topn_pipeline(sc, predicts_ratings=True) if builder == "topn" else predict_pipeline(sc)
        p.train(ds, TrainingOptions(rng=seed))
        from props.c18 import pipe_components
        vals = []
        for n, c, t in pipe_components(p):
            if t:
                vals += [dg((n, k, v)) for k, v in sorted(L.store_of(c).items()) if not k.startswith("_")]
        out[f"pipeline-train:{label}"] = vals

    # 3. models trained directly on data with text identifiers
    for label, kind, cfg in job["models"]:
        c = L.make(kind, cfg)
        c.train(ds, TrainingOptions(rng=seed))
        out[f"train:{label}"] = [dg((k, v)) for k, v in sorted(L.store_of(c).items()) if not k.startswith("_")]

    # 4. user-derived ranker seeds with text user ids
    from lenskit.basic.random import RandomSelector, SoftmaxRanker
    from lenskit.stochastic import StochasticTopNRanker
    items = ItemList(item_ids=np.array(job["rank_items"], dtype=np.int64), scores=np.arange(len(job["rank_items"]), dtype=np.float32) / 3.0)
    for cls in (RandomSelector, SoftmaxRanker, StochasticTopNRanker):
        rk = cls(rng=(seed, "user"), n=4)
        out[f"ranker:{cls.__name__}"] = [dg(tuple(rk(items=items, query=RecQuery(user_id=u)).ids().tolist())) for u in job["rank_users"]]
    out["derivable_rng"] = [int(x) for u in job["rank_users"] for x in LR.derivable_rng((seed, "user"))(RecQuery(user_id=u)).integers(0, 2**62, 2)]
    out["make_seed"] = [int(x) for u in job["rank_users"] for x in LR.make_seed(seed, u).generate_state(2)]

    # 5. splitters and samplers on the text-id data
    def canon(sp):
        test = sorted((repr(k), tuple(sorted(map(str, il.ids().tolist())))) for k, il in sp.test)
        tr = sp.train.interaction_matrix(format="pandas", original_ids=True)
        return dg((test, sorted(zip(map(str, tr["user_id"]), map(str, tr["item_id"])))))
    nu = ds.user_count
    out["split:crossfold_users"] = [canon(s) for s in S.crossfold_users(ds, 3, SampleN(1, rng=seed + 1), rng=seed)]
    out["split:sample_users:oversized"] = [canon(s) for s in S.sample_users(ds, nu // 2 + 1, SampleFrac(0.5, rng=seed + 1), repeats=2, rng=seed)]
    out["split:sample_users:disjoint"] = [canon(s) for s in S.sample_users(ds, max(1, nu // 4), SampleN(1, rng=seed + 1), repeats=2, rng=seed)]
    out["split:crossfold_records"] = [canon(s) for s in S.crossfold_records(ds, 3, rng=seed)]
    out["split:sample_records:oversized"] = [canon(s) for s in S.sample_records(ds, ds.interaction_count // 2 + 1, repeats=2, rng=seed)]
    m = ds.interactions().matrix()
    out["sample_negatives"] = [int(x) for x in np.asarray(m.sample_negatives(np.arange(min(6, nu), dtype=np.int32), n=2, weighting="popular",
                                                                             rng=np.random.default_rng(seed))).ravel()]
    out["_hashseed"] = [dg(os.environ.get("PYTHONHASHSEED", "")), hash("lenskit") & 0xFFFF]
    return out


def main():
    job = json.loads(sys.stdin.read())
    if job.get("mode") == "hashseed":
        json.dump(hashseed_batch(job), sys.stdout)
        return
    import c18_lib as L

    L.setup(limit_threads=False)
    from lenskit.training import TrainingOptions

    if job.get("synthetic"):        # many users / items, few ratings: embedding matrices beyond the size thresholds
        from c11_ambient import synthetic_dataset
        ds = synthetic_dataset(job["synthetic"])
    else:
        ds = L.dataset(job["dataset"])
    out = {}
    num = {}
    for label, kind, cfg in job["models"]:
        c = L.make(kind, cfg)
        c.train(ds, TrainingOptions(rng=job["seed"]))
        out[label] = {k: v for k, v in L.store_of(c).items() if not k.startswith("_")}
        if job.get("synthetic"):        # the floating-point content, for comparisons up to rounding
            from c11_ambient import numeric_fingerprint
            num[label] = {k: numeric_fingerprint(v) for k, v in vars(c).items() if k != "config" and not k.startswith("_")}
    out["_numeric"] = num
    out["_sizes"] = [int(ds.user_count), int(ds.item_count), int(ds.interaction_count)]
    import torch
    from lenskit.parallel import get_parallel_config

    pc = get_parallel_config()
    out["_config"] = {"threads": pc.threads, "backend_threads": pc.backend_threads, "torch_threads": torch.get_num_threads(),
                      "torch_interop": torch.get_num_interop_threads()}
    json.dump(out, sys.stdout)


if __name__ == "__main__":
    main()
