"""C11: one training process under the thread configuration given by the environment
(LK_NUM_THREADS / LK_NUM_BACKEND_THREADS, set by the parent through common.base_env).
Reads a JSON job on stdin, prints {label: {attribute: digest}} as JSON on stdout."""

from __future__ import annotations

import json
import sys


def main():
    job = json.loads(sys.stdin.read())
    import c18_lib as L

    L.setup(limit_threads=False)
    from lenskit.training import TrainingOptions

    ds = L.dataset(job["dataset"])
    out = {}
    for label, kind, cfg in job["models"]:
        c = L.make(kind, cfg)
        c.train(ds, TrainingOptions(rng=job["seed"]))
        out[label] = {k: v for k, v in L.store_of(c).items() if not k.startswith("_")}
    import torch
    from lenskit.parallel import get_parallel_config

    pc = get_parallel_config()
    out["_config"] = {"threads": pc.threads, "backend_threads": pc.backend_threads, "torch_threads": torch.get_num_threads(),
                      "torch_interop": torch.get_num_interop_threads()}
    json.dump(out, sys.stdout)


if __name__ == "__main__":
    main()
