import sys

import framework

if __name__ == "__main__":
    sys.exit(framework.main())
