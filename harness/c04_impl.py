"""C04 -- drives every shipped scoring component on small datasets and canonicalises its answers.

Imported lazily by harness/props/c04.py after common.use_repo().  Nothing here knows about the Coq model.
"""

from __future__ import annotations

import warnings

import common
from common import fjson, fparse, frac_of_float

_ready = False

SCORERS = [
    "bias", "popularity", "known-rating", "item-knn", "user-knn", "biased-mf", "implicit-mf",
    "funksvd", "biased-svd", "flexmf-explicit", "flexmf-implicit", "implicit-als", "implicit-bpr",
]


def setup():
    global _ready, np, pd, torch, DatasetBuilder, ItemList, RecQuery, TrainingOptions, Vocabulary
    if _ready:
        return
    common.use_repo()
    import numpy as np
    import pandas as pd
    import torch
    from lenskit.data import DatasetBuilder, ItemList, RecQuery, Vocabulary
    from lenskit.training import TrainingOptions

    torch.set_num_threads(1)
    warnings.filterwarnings("ignore")
    _ready = True


def num(x):
    return fjson(frac_of_float(x))


STR_IDS = False     # per case: identifiers are strings ("u12", "i105") in the dataset, queries and candidates


def uid(x):
    return f"u{x}" if STR_IDS and x is not None else x


def iid(x):
    return f"i{x}" if STR_IDS else x


def back(x):
    return int(str(x)[1:]) if STR_IDS else int(x)


def id_array(ids):
    if STR_IDS:
        return np.array([iid(i) for i in ids], dtype=object) if len(ids) else np.array([], dtype=object)
    return np.array(ids, dtype=np.int64)


def build_dataset(case):
    dsb = DatasetBuilder()
    dsb.add_entities("user", [uid(u) for u in case["users"]])
    dsb.add_entities("item", [iid(i) for i in case["items"]])
    cols = {
        "user_id": [uid(r[0]) for r in case["ratings"]],
        "item_id": [iid(r[1]) for r in case["ratings"]],
        "rating": np.array([float(fparse(r[2])) for r in case["ratings"]], dtype=np.float32),
    }
    if case.get("timestamps"):
        cols["timestamp"] = np.array([r[3] for r in case["ratings"]], dtype=np.int64)
    dsb.add_interactions("rating", pd.DataFrame(cols), entities=["user", "item"], missing="error", default=True)
    return dsb.build()


def make_scorer(spec):
    """spec: {"scorer": name, **configuration}"""
    s = spec["scorer"]
    c = {k: v for k, v in spec.items() if k != "scorer"}
    if s == "bias":
        from lenskit.basic import BiasScorer
        d = c.get("damping", "0/1")
        d = {k: float(fparse(v)) for k, v in d.items()} if isinstance(d, dict) else float(fparse(d))
        return BiasScorer(entities=set(c.get("entities", ["user", "item"])), damping=d)
    if s == "popularity":
        from lenskit.basic import PopScorer
        return PopScorer(score=c.get("score", "quantile"))
    if s == "known-rating":
        from lenskit.basic.history import KnownRatingScorer
        return KnownRatingScorer(score=c.get("score"), source=c.get("source", "training"))
    if s == "item-knn":
        from lenskit.knn import ItemKNNScorer
        return ItemKNNScorer(max_nbrs=c.get("max_nbrs", 20), min_nbrs=c.get("min_nbrs", 1), feedback=c.get("feedback", "explicit"),
                             save_nbrs=c.get("save_nbrs"), block_size=c.get("block_size", 250))
    if s == "user-knn":
        from lenskit.knn import UserKNNScorer
        return UserKNNScorer(max_nbrs=c.get("max_nbrs", 20), min_nbrs=c.get("min_nbrs", 1), feedback=c.get("feedback", "explicit"))
    if s == "biased-mf":
        from lenskit.als import BiasedMFScorer
        return BiasedMFScorer(embedding_size=c.get("k", 3), epochs=c.get("epochs", 2), regularization=0.1,
                              damping=float(fparse(c.get("damping", "5/1"))), user_embeddings=c.get("user_embeddings", True))
    if s == "implicit-mf":
        from lenskit.als import ImplicitMFScorer
        return ImplicitMFScorer(embedding_size=c.get("k", 3), epochs=c.get("epochs", 2), regularization=0.1,
                                weight=float(fparse(c.get("weight", "40/1"))), use_ratings=c.get("use_ratings", False),
                                user_embeddings=c.get("user_embeddings", True))
    if s == "funksvd":
        from lenskit.funksvd import FunkSVDScorer
        rng = c.get("range")
        return FunkSVDScorer(features=c.get("k", 2), epochs=c.get("epochs", 3), learning_rate=0.01,
                             range=None if rng is None else (float(fparse(rng[0])), float(fparse(rng[1]))))
    if s == "biased-svd":
        from lenskit.sklearn.svd import BiasedSVDScorer
        return BiasedSVDScorer(embedding_size=c.get("k", 2), algorithm=c.get("algorithm", "randomized"), n_iter=c.get("n_iter", 2))
    if s == "flexmf-explicit":
        from lenskit.flexmf import FlexMFExplicitScorer
        return FlexMFExplicitScorer(embedding_size=c.get("k", 3), epochs=c.get("epochs", 2), batch_size=c.get("batch_size", 8), reg_method=c.get("reg_method", "L2"))
    if s == "flexmf-implicit":
        from lenskit.flexmf import FlexMFImplicitScorer
        return FlexMFImplicitScorer(embedding_size=c.get("k", 3), epochs=c.get("epochs", 2), batch_size=c.get("batch_size", 8), loss=c.get("loss", "logistic"),
                                    negative_strategy=c.get("negative_strategy", "uniform"), negative_count=c.get("negative_count", 1))
    if s == "implicit-als":
        from lenskit.implicit import ALS
        return ALS(factors=c.get("k", 3), iterations=2, random_state=c.get("seed", 1), num_threads=1, weight=float(fparse(c.get("weight", "40/1"))))
    if s == "implicit-bpr":
        from lenskit.implicit import BPR
        return BPR(factors=c.get("k", 3), iterations=3, random_state=c.get("seed", 1), num_threads=1)
    raise ValueError(s)


# ---------------------------------------------------------------------------------------------
# how a list identifies its items, and the journey it made before it is handed to a scorer
# ---------------------------------------------------------------------------------------------
#
# built:  ids       ItemList(item_ids=...)                                     (no vocabulary)
#         own-nums  ItemList(item_nums=..., vocabulary=<the dataset's item vocabulary>)   (as candidate selectors do)
#         own-ids   ItemList(item_ids=..., vocabulary=<the dataset's item vocabulary>)
#         cat-ids / cat-nums / cat-both   against ANOTHER vocabulary: a catalogue that numbers the items differently
#         sub-ids   identifiers with the vocabulary of a filtered dataset (lacks some of them)
# steps:  ids / numbers (accessors that fill the caches), pickle, deepcopy, frame (to_df / from_df), arrow, arrow-nums
#         (to_arrow(numbers=True) / from_arrow), copy (ItemList(l)), clone, slice (l[:]), take (l[arange(n)])

BUILT = ("ids", "own-nums", "own-ids", "cat-ids", "cat-nums", "cat-both", "sub-ids")
STEPS = ("ids", "numbers", "pickle", "deepcopy", "frame", "arrow", "arrow-nums", "copy", "clone", "slice", "take")
PLAIN = {"built": "ids", "steps": []}


def effective_built(built, ids, keys):
    """The construction actually used for `ids` (keys: vocabulary name -> the identifiers it knows): a list cannot be given by
    number against a vocabulary that lacks one of its items; empty lists are built plainly."""
    if not built or built == "ids" or not ids:
        return "ids"
    which, how = built.split("-")
    if how in ("nums", "both") and any(i not in keys[which] for i in ids):
        return "ids" if which == "own" else which + "-ids"
    return built


def plan(built, steps, ids, keys):
    """[(driver operation, step of Model/C04_repr.v)] for a list built as `built` (effective) that goes through `steps`.
    A step a caller could not perform is replaced by the nearest one that works: numbers() needs a vocabulary; a data frame /
    Arrow table with numbers cannot be made when an item has no number in the vocabulary the list was built against
    (KeyError) -- identifiers only then."""
    if not ids:
        return []
    vocab = built != "ids"
    full = not vocab or all(i in keys[built.split("-")[0]] for i in ids)
    nums = vocab and built.split("-")[1] in ("nums", "both")          # numbers are stored
    out = []
    for s in steps:
        if s == "ids":
            out.append(("ids", "SWarm WarmIds"))
        elif s == "numbers":
            if vocab:
                out.append(("numbers", "SWarm WarmNumbers"))
                nums = True
        elif s in ("pickle", "deepcopy"):
            out.append((s, "STransport TPickle"))
            nums, vocab = nums or vocab, False
        elif s in ("frame", "arrow-nums"):
            if not full and (vocab or nums):      # a negative number would have to be written: KeyError
                out.append(("frame-ids" if s == "frame" else "arrow", "STransport TArrowIds"))
                nums = False
            else:
                out.append((s, "STransport TFrame" if s == "frame" else "STransport TArrowNums"))
                nums = nums or vocab
            vocab = False
        elif s == "arrow":
            out.append(("arrow", "STransport TArrowIds"))
            nums, vocab = False, False
        elif s in ("copy", "clone", "slice", "take"):
            out.append((s, "STransport TCopy"))
        else:
            raise ValueError(s)
    return out


def travel_tag(pl):
    """how the list arrives: the last round trip that detached its vocabulary, else copied / as-built"""
    tags = {"STransport TPickle": "pickled", "STransport TFrame": "frame", "STransport TArrowIds": "arrow", "STransport TArrowNums": "arrow-nums"}
    last = [tags[m] for _, m in pl if m in tags]
    return last[-1] if last else ("copied" if any(m == "STransport TCopy" for _, m in pl) else "as-built")


def apply_op(il, op):
    import copy
    import pickle
    if op == "ids":
        il.ids()
        return il
    if op == "numbers":
        il.numbers(missing="negative")
        return il
    if op == "pickle":
        return pickle.loads(pickle.dumps(il))
    if op == "deepcopy":
        return copy.deepcopy(il)
    if op == "frame":
        return ItemList.from_df(il.to_df())
    if op == "frame-ids":
        return ItemList.from_df(il.to_df(numbers=False))
    if op == "arrow":
        return ItemList.from_arrow(il.to_arrow())
    if op == "arrow-nums":
        return ItemList.from_arrow(il.to_arrow(numbers=True))
    if op == "copy":
        return ItemList(il)
    if op == "clone":
        return il.clone()
    if op == "slice":
        return il[:]
    if op == "take":
        return il[np.arange(len(il))]
    raise ValueError(op)


class Env:
    """the vocabularies of one case: the dataset's own, a catalogue that numbers the items differently, a filtered subset"""

    def __init__(self, case, ds):
        cat = case.get("catalogue") or {"ids": sorted(set(case["items"]) | {950, 951, 952, 900, 901, 902}), "reorder": True}
        sub = case.get("subset") or sorted(case["items"])[::2]
        self.vocab = {"own": ds.items,
                      "cat": Vocabulary(id_array(cat["ids"]), "item", reorder=bool(cat.get("reorder", True))),
                      "sub": Vocabulary(id_array(sub), "item")}
        self.order = {k: [back(i) for i in v.ids().tolist()] for k, v in self.vocab.items()}
        self.keys = {k: set(v) for k, v in self.order.items()}

    def build(self, ids, prov, ordered=False, idv=None, **fields):
        """-> (the list, effective construction, plan)"""
        prov = prov or PLAIN
        built = effective_built(prov.get("built"), ids, self.keys)
        if idv is None:
            idv = id_array(ids)
        if built == "ids":
            il = ItemList(item_ids=idv, ordered=bool(ordered), **fields)
        else:
            which, how = built.split("-")
            v = self.vocab[which]
            kw = {}
            if how in ("ids", "both"):
                kw["item_ids"] = idv
            if how in ("nums", "both"):
                kw["item_nums"] = v.numbers([iid(i) for i in ids])
            il = ItemList(vocabulary=v, ordered=bool(ordered), **kw, **fields)
        pl = plan(built, prov.get("steps", []), ids, self.keys)
        for op, _ in pl:
            il = apply_op(il, op)
        return il, built, pl

    def resolved(self, il):
        """the numbers a scorer trained on the dataset obtains for the list (read through a copy: the list's caches stay as they are)"""
        try:
            ns = ItemList(il).numbers(vocabulary=self.vocab["own"], missing="negative")
            return [None if n < 0 else int(n) for n in np.asarray(ns).tolist()]
        except Exception as e:
            return {"unresolvable": err_kind(e) + ": " + str(e)[:120]}


HIST_FORMS = ("f32", "f64", "list", "arrow", "torch")


def make_history(q, env=None, prov=None):
    """The history list of a query in the storage form q["hist_form"], with the objects handed to ItemList.
    `prov` (default: q["hist_prov"]) says how the list identifies its items and which journey it made (see `plan`).

    f32 / f64: writable NumPy arrays of that precision (the identifiers are a writable array as well); list: plain Python lists;
    arrow: Arrow arrays (read-only buffers); torch: a single-precision tensor.  q["hist_extra"] adds an integer `timestamp` field.
    Returns (ItemList, {field name: the array object that was supplied}).
    """
    ids = [h[0] for h in q["history"]]
    vals = [float(fparse(h[1])) for h in q["history"]]
    ts = [1000 + 7 * k for k in range(len(ids))]
    form = q.get("hist_form", "f32")
    raw = {}
    if form == "list":
        idv = [iid(i) for i in ids]
        fields = {"rating": list(vals)}
        if q.get("hist_extra"):
            fields["timestamp"] = list(ts)
    elif form == "arrow":
        import pyarrow as pa
        idv = id_array(ids)
        fields = {"rating": pa.array(vals, type=pa.float32())}
        if q.get("hist_extra"):
            fields["timestamp"] = pa.array(ts, type=pa.int64())
    elif form == "torch":
        idv = id_array(ids)
        fields = {"rating": torch.tensor(vals, dtype=torch.float32)}
        if q.get("hist_extra"):
            fields["timestamp"] = torch.tensor(ts, dtype=torch.int64)
        raw = {k: v.numpy() for k, v in fields.items()}
    else:
        idv = id_array(ids)
        fields = {"rating": np.array(vals, dtype={"f32": np.float32, "i64": np.int64}.get(form, np.float64))}
        assert form != "i64" or all(float(x) == v for x, v in zip(fields["rating"], vals))
        if q.get("hist_extra"):
            fields["timestamp"] = np.array(ts, dtype=np.int64)
        raw = dict(fields)
        assert all(a.flags.writeable for a in raw.values())
    if isinstance(idv, np.ndarray) and not STR_IDS:
        raw["item_id"] = idv
    if env is None:
        return ItemList(item_ids=idv, **fields), raw, "ids", []
    il, built, pl = env.build(ids, q.get("hist_prov") if prov is None else prov, idv=idv, **fields)
    return il, raw, built, pl


class Query:
    """One query object, built once and handed to every call of the query (base, repeat, permuted, halves, again)."""

    def __init__(self, q, env=None, prov=None):
        self.hist, self.raw, self.built, self.plan = (None, {}, "ids", []) if q["history"] is None else make_history(q, env, prov)
        # what a scorer of this dataset resolves the history to, before any call
        self.resolved = None if self.hist is None or env is None else env.resolved(self.hist)
        form = q.get("form", "query")
        if form == "id" and q["user"] is not None and self.hist is None:
            self.obj = uid(q["user"])
        elif form == "list" and q["user"] is None and self.hist is not None:
            self.obj = self.hist
        else:
            self.obj = RecQuery(user_id=uid(q["user"]), user_items=self.hist)
        self.user = uid(q["user"])
        # what was supplied, kept apart from the objects the scorer sees
        self.raw0 = {k: (str(a.dtype), a.tobytes()) for k, a in self.raw.items()}
        self.supplied = self.snapshot()

    def snapshot(self):
        """The query as the caller sees it now (identifier, the history's ids and every field, exact values)."""
        o = {"user": None, "history": None}
        if isinstance(self.obj, RecQuery):
            o["user"] = None if self.obj.user_id is None else back_u(self.obj.user_id)
            o["same_history_object"] = self.obj.user_items is self.hist
        elif self.obj is not self.hist:
            o["user"] = back_u(self.obj)
        if self.hist is not None:
            h = self.hist
            names = sorted(c for c in h.to_df(numbers=False).columns if c != "item_id")
            o["history"] = {
                "ids": [back(i) for i in h.ids().tolist()],
                "len": len(h),
                "ordered": bool(h.ordered),
                "fields": {n: [num(x) for x in np.asarray(h.field(n, "numpy")).tolist()] for n in names},
                "dtypes": {n: str(np.asarray(h.field(n, "numpy")).dtype) for n in names},
                # the array objects that were handed over, bit for bit
                "raw_intact": {k: (str(a.dtype), a.tobytes()) == self.raw0[k] for k, a in sorted(self.raw.items())},
            }
        return o


def back_u(x):
    return int(str(x)[1:]) if STR_IDS else int(x)


def make_query(q):
    """q: {"user": id|None, "history": [[item, rating]]|None, "form": "query"|"id"|"list"} -- a fresh query object"""
    return Query(q).obj


def make_cands(ids, extra, ordered, env, prov=None):
    kw = {}
    if extra:
        kw["price"] = np.array([float(i % 7) + 0.5 for i in ids], dtype=np.float64)
        kw["tag"] = np.array([int(i) * 3 for i in ids], dtype=np.int64)
    return env.build(ids, prov, ordered=ordered, **kw)


def err_kind(e):
    return "E:" + type(e).__name__


def cand_state(cand, extra):
    cand = ItemList(cand)          # read through a copy: the caller's list keeps the caches it has
    o = {"ids": [back(i) for i in cand.ids().tolist()], "len": len(cand), "ordered": bool(cand.ordered), "scored": cand.scores() is not None,
         "fields": sorted(c for c in cand.to_df(numbers=False).columns if c != "item_id")}
    if extra:
        p, t = cand.field("price"), cand.field("tag")
        o["price"] = None if p is None else [num(x) for x in p.tolist()]
        o["tag"] = None if t is None else [int(x) for x in t.tolist()]
    return o


def call(scorer, name, query, ids, env, extra=False, ordered=False, prov=None, cand=None):
    """One scoring call with the query object `query` (a Query: the same object for every call of one generated query)."""
    made = None
    if cand is None:
        cand, built, pl = made = make_cands(ids, extra, ordered, env, prov)
    before = cand_state(cand, extra)
    resolved = env.resolved(cand)
    o = _call(scorer, name, query, cand, extra)
    o["resolved"] = resolved
    if made is not None:
        o["built"], o["journey"] = built, [m for _, m in pl]
    # after the call, whatever it returned or raised: the caller's query and candidate list are what was supplied
    try:
        o["query_after"] = query.snapshot()
    except Exception as e:
        o["query_after"] = {"unreadable": err_kind(e) + ": " + str(e)[:120]}
    try:
        after = cand_state(cand, extra)
    except Exception as e:
        after = {"unreadable": err_kind(e) + ": " + str(e)[:120]}
    o["cand_before"], o["cand_after"] = before, after
    o["cand"] = cand
    return o


def _call(scorer, name, query, cand, extra):
    try:
        if name == "popularity":
            res = scorer(cand)
        else:
            res = scorer(query.obj, cand)
    except Exception as e:
        return {"error": err_kind(e), "msg": str(e)[:160]}
    o = {"error": None, "type": type(res).__name__}
    if not isinstance(res, ItemList):
        return o
    o["ids"] = [back(i) for i in res.ids().tolist()]
    sc = res.scores()
    o["scores"] = None if sc is None else [num(x) for x in sc.tolist()]
    o["len"] = len(res)
    o["ordered"] = bool(res.ordered)
    if extra:
        p, t = res.field("price"), res.field("tag")
        o["price"] = None if p is None else [num(x) for x in p.tolist()]
        o["tag"] = None if t is None else [int(x) for x in t.tolist()]
    return o


def run(case):
    global STR_IDS
    setup()
    STR_IDS = case.get("ids") == "str"
    ds = build_dataset(case)
    name = case["scorer"]["scorer"]
    scorer = make_scorer(case["scorer"])
    obs = {"users": [back(u) for u in ds.users.ids().tolist()], "items": [back(i) for i in ds.items.ids().tolist()]}
    try:
        scorer.train(ds, TrainingOptions(rng=case["seed"]))
    except Exception as e:
        obs["train_error"] = err_kind(e)
        obs["msg"] = str(e)[:200]
        return obs
    obs["train_error"] = None
    env = Env(case, ds)
    obs["vocab"] = {k: v for k, v in env.order.items() if k != "own"}
    calls = []
    for q in case["queries"]:
        ids = q["items"]
        prov = cand_prov(q)
        query = Query(q, env)           # ONE query object for the seven calls made with it
        extra, ordered = q.get("extra", False), q.get("ordered", False)
        c = {"supplied": query.supplied, "hist_built": query.built, "hist_journey": [m for _, m in query.plan], "hist_resolved": query.resolved,
             "base": call(scorer, name, query, ids, env, extra=extra, ordered=ordered, prov=prov)}
        # the repeated call is handed the very same candidate list object as well
        c["repeat"] = call(scorer, name, query, ids, env, extra=extra, ordered=ordered, cand=c["base"]["cand"])
        c["repeat"]["built"], c["repeat"]["journey"] = c["base"]["built"], c["base"]["journey"]
        perm = [ids[j] for j in q["perm"]]
        c["perm"] = call(scorer, name, query, perm, env)
        h = q["split"]
        c["half_a"] = call(scorer, name, query, ids[:h], env, prov=prov)
        c["half_b"] = call(scorer, name, query, ids[h:], env)
        # every picked candidate ALONE (same query object)
        c["singles"] = [call(scorer, name, query, [ids[j]], env) for j in q.get("singles", [])]
        c["again"] = call(scorer, name, query, ids, env)          # after the other calls: the model is unchanged
        # a FRESH query object with the same content, its history given plainly by identifier, and the candidates by identifier
        c["fresh"] = call(scorer, name, Query(q, env, PLAIN), ids, env)
        for o in [c[k] for k in KINDS + ("fresh",)] + c["singles"]:
            del o["cand"]
        calls.append(c)
    obs["calls"] = calls
    return obs


KINDS = ("base", "repeat", "perm", "half_a", "half_b", "again")


def cand_prov(q):
    """provenance of the candidate list of the base / repeat / half_a calls (the other calls are given plain identifiers)"""
    p = q.get("cand_prov") or PLAIN
    return {"built": "own-nums" if q.get("by_number") else p.get("built", "ids"), "steps": p.get("steps", [])}
