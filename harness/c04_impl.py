"""C04 -- drives every shipped scoring component on small datasets and canonicalises its answers.

Imported lazily by harness/props/c04.py after common.use_repo().  Nothing here knows about the Coq model.
"""

from __future__ import annotations

import warnings

import common
from common import fjson, fparse, frac_of_float

_ready = False

SCORERS = [
    "bias", "popularity", "known-rating", "item-knn", "user-knn", "biased-mf", "implicit-mf",
    "funksvd", "biased-svd", "flexmf-explicit", "flexmf-implicit", "implicit-als", "implicit-bpr",
]


def setup():
    global _ready, np, pd, torch, DatasetBuilder, ItemList, RecQuery, TrainingOptions
    if _ready:
        return
    common.use_repo()
    import numpy as np
    import pandas as pd
    import torch
    from lenskit.data import DatasetBuilder, ItemList, RecQuery
    from lenskit.training import TrainingOptions

    torch.set_num_threads(1)
    warnings.filterwarnings("ignore")
    _ready = True


def num(x):
    return fjson(frac_of_float(x))


STR_IDS = False     # per case: identifiers are strings ("u12", "i105") in the dataset, queries and candidates


def uid(x):
    return f"u{x}" if STR_IDS and x is not None else x


def iid(x):
    return f"i{x}" if STR_IDS else x


def back(x):
    return int(str(x)[1:]) if STR_IDS else int(x)


def id_array(ids):
    if STR_IDS:
        return np.array([iid(i) for i in ids], dtype=object) if len(ids) else np.array([], dtype=object)
    return np.array(ids, dtype=np.int64)


def build_dataset(case):
    dsb = DatasetBuilder()
    dsb.add_entities("user", [uid(u) for u in case["users"]])
    dsb.add_entities("item", [iid(i) for i in case["items"]])
    cols = {
        "user_id": [uid(r[0]) for r in case["ratings"]],
        "item_id": [iid(r[1]) for r in case["ratings"]],
        "rating": np.array([float(fparse(r[2])) for r in case["ratings"]], dtype=np.float32),
    }
    if case.get("timestamps"):
        cols["timestamp"] = np.array([r[3] for r in case["ratings"]], dtype=np.int64)
    dsb.add_interactions("rating", pd.DataFrame(cols), entities=["user", "item"], missing="error", default=True)
    return dsb.build()


def make_scorer(spec):
    """spec: {"scorer": name, **configuration}"""
    s = spec["scorer"]
    c = {k: v for k, v in spec.items() if k != "scorer"}
    if s == "bias":
        from lenskit.basic import BiasScorer
        d = c.get("damping", "0/1")
        d = {k: float(fparse(v)) for k, v in d.items()} if isinstance(d, dict) else float(fparse(d))
        return BiasScorer(entities=set(c.get("entities", ["user", "item"])), damping=d)
    if s == "popularity":
        from lenskit.basic import PopScorer
        return PopScorer(score=c.get("score", "quantile"))
    if s == "known-rating":
        from lenskit.basic.history import KnownRatingScorer
        return KnownRatingScorer(score=c.get("score"), source=c.get("source", "training"))
    if s == "item-knn":
        from lenskit.knn import ItemKNNScorer
        return ItemKNNScorer(max_nbrs=c.get("max_nbrs", 20), min_nbrs=c.get("min_nbrs", 1), feedback=c.get("feedback", "explicit"),
                             save_nbrs=c.get("save_nbrs"))
    if s == "user-knn":
        from lenskit.knn import UserKNNScorer
        return UserKNNScorer(max_nbrs=c.get("max_nbrs", 20), min_nbrs=c.get("min_nbrs", 1), feedback=c.get("feedback", "explicit"))
    if s == "biased-mf":
        from lenskit.als import BiasedMFScorer
        return BiasedMFScorer(embedding_size=c.get("k", 3), epochs=c.get("epochs", 2), regularization=0.1,
                              damping=float(fparse(c.get("damping", "5/1"))), user_embeddings=c.get("user_embeddings", True))
    if s == "implicit-mf":
        from lenskit.als import ImplicitMFScorer
        return ImplicitMFScorer(embedding_size=c.get("k", 3), epochs=c.get("epochs", 2), regularization=0.1,
                                weight=float(fparse(c.get("weight", "40/1"))), use_ratings=c.get("use_ratings", False),
                                user_embeddings=c.get("user_embeddings", True))
    if s == "funksvd":
        from lenskit.funksvd import FunkSVDScorer
        rng = c.get("range")
        return FunkSVDScorer(features=c.get("k", 2), epochs=c.get("epochs", 3), learning_rate=0.01,
                             range=None if rng is None else (float(fparse(rng[0])), float(fparse(rng[1]))))
    if s == "biased-svd":
        from lenskit.sklearn.svd import BiasedSVDScorer
        return BiasedSVDScorer(embedding_size=c.get("k", 2), algorithm=c.get("algorithm", "randomized"), n_iter=2)
    if s == "flexmf-explicit":
        from lenskit.flexmf import FlexMFExplicitScorer
        return FlexMFExplicitScorer(embedding_size=c.get("k", 3), epochs=c.get("epochs", 2), batch_size=8, reg_method=c.get("reg_method", "L2"))
    if s == "flexmf-implicit":
        from lenskit.flexmf import FlexMFImplicitScorer
        return FlexMFImplicitScorer(embedding_size=c.get("k", 3), epochs=c.get("epochs", 2), batch_size=8, loss=c.get("loss", "logistic"),
                                    negative_strategy=c.get("negative_strategy", "uniform"), negative_count=c.get("negative_count", 1))
    if s == "implicit-als":
        from lenskit.implicit import ALS
        return ALS(factors=c.get("k", 3), iterations=2, random_state=c.get("seed", 1), num_threads=1, weight=float(fparse(c.get("weight", "40/1"))))
    if s == "implicit-bpr":
        from lenskit.implicit import BPR
        return BPR(factors=c.get("k", 3), iterations=3, random_state=c.get("seed", 1), num_threads=1)
    raise ValueError(s)


HIST_FORMS = ("f32", "f64", "list", "arrow", "torch")


def make_history(q):
    """The history list of a query in the storage form q["hist_form"], with the objects handed to ItemList.

    f32 / f64: writable NumPy arrays of that precision (the identifiers are a writable array as well); list: plain Python lists;
    arrow: Arrow arrays (read-only buffers); torch: a single-precision tensor.  q["hist_extra"] adds an integer `timestamp` field.
    Returns (ItemList, {field name: the array object that was supplied}).
    """
    ids = [h[0] for h in q["history"]]
    vals = [float(fparse(h[1])) for h in q["history"]]
    ts = [1000 + 7 * k for k in range(len(ids))]
    form = q.get("hist_form", "f32")
    raw = {}
    if form == "list":
        idv = [iid(i) for i in ids]
        fields = {"rating": list(vals)}
        if q.get("hist_extra"):
            fields["timestamp"] = list(ts)
    elif form == "arrow":
        import pyarrow as pa
        idv = id_array(ids)
        fields = {"rating": pa.array(vals, type=pa.float32())}
        if q.get("hist_extra"):
            fields["timestamp"] = pa.array(ts, type=pa.int64())
    elif form == "torch":
        idv = id_array(ids)
        fields = {"rating": torch.tensor(vals, dtype=torch.float32)}
        if q.get("hist_extra"):
            fields["timestamp"] = torch.tensor(ts, dtype=torch.int64)
        raw = {k: v.numpy() for k, v in fields.items()}
    else:
        idv = id_array(ids)
        fields = {"rating": np.array(vals, dtype=np.float32 if form == "f32" else np.float64)}
        if q.get("hist_extra"):
            fields["timestamp"] = np.array(ts, dtype=np.int64)
        raw = dict(fields)
        assert all(a.flags.writeable for a in raw.values())
    if isinstance(idv, np.ndarray) and not STR_IDS:
        raw["item_id"] = idv
    return ItemList(item_ids=idv, **fields), raw


class Query:
    """One query object, built once and handed to every call of the query (base, repeat, permuted, halves, again)."""

    def __init__(self, q):
        self.hist, self.raw = (None, {}) if q["history"] is None else make_history(q)
        form = q.get("form", "query")
        if form == "id" and q["user"] is not None and self.hist is None:
            self.obj = uid(q["user"])
        elif form == "list" and q["user"] is None and self.hist is not None:
            self.obj = self.hist
        else:
            self.obj = RecQuery(user_id=uid(q["user"]), user_items=self.hist)
        self.user = uid(q["user"])
        # what was supplied, kept apart from the objects the scorer sees
        self.raw0 = {k: (str(a.dtype), a.tobytes()) for k, a in self.raw.items()}
        self.supplied = self.snapshot()

    def snapshot(self):
        """The query as the caller sees it now (identifier, the history's ids and every field, exact values)."""
        o = {"user": None, "history": None}
        if isinstance(self.obj, RecQuery):
            o["user"] = None if self.obj.user_id is None else back_u(self.obj.user_id)
            o["same_history_object"] = self.obj.user_items is self.hist
        elif self.obj is not self.hist:
            o["user"] = back_u(self.obj)
        if self.hist is not None:
            h = self.hist
            names = sorted(c for c in h.to_df(numbers=False).columns if c != "item_id")
            o["history"] = {
                "ids": [back(i) for i in h.ids().tolist()],
                "len": len(h),
                "ordered": bool(h.ordered),
                "fields": {n: [num(x) for x in np.asarray(h.field(n, "numpy")).tolist()] for n in names},
                "dtypes": {n: str(np.asarray(h.field(n, "numpy")).dtype) for n in names},
                # the array objects that were handed over, bit for bit
                "raw_intact": {k: (str(a.dtype), a.tobytes()) == self.raw0[k] for k, a in sorted(self.raw.items())},
            }
        return o


def back_u(x):
    return int(str(x)[1:]) if STR_IDS else int(x)


def make_query(q):
    """q: {"user": id|None, "history": [[item, rating]]|None, "form": "query"|"id"|"list"} -- a fresh query object"""
    return Query(q).obj


def make_cands(ids, extra, ordered, vocab=None):
    kw = {}
    if extra:
        kw["price"] = np.array([float(i % 7) + 0.5 for i in ids], dtype=np.float64)
        kw["tag"] = np.array([int(i) * 3 for i in ids], dtype=np.int64)
    if vocab is not None:      # candidates given by number against the dataset's own vocabulary (as candidate selectors do)
        return ItemList(item_nums=vocab.numbers([iid(i) for i in ids]), vocabulary=vocab, ordered=bool(ordered), **kw)
    return ItemList(item_ids=id_array(ids), ordered=bool(ordered), **kw)


def err_kind(e):
    return "E:" + type(e).__name__


def cand_state(cand, extra):
    o = {"ids": [back(i) for i in cand.ids().tolist()], "len": len(cand), "ordered": bool(cand.ordered), "scored": cand.scores() is not None,
         "fields": sorted(c for c in cand.to_df(numbers=False).columns if c != "item_id")}
    if extra:
        p, t = cand.field("price"), cand.field("tag")
        o["price"] = None if p is None else [num(x) for x in p.tolist()]
        o["tag"] = None if t is None else [int(x) for x in t.tolist()]
    return o


def call(scorer, name, query, ids, extra=False, ordered=False, vocab=None, cand=None):
    """One scoring call with the query object `query` (a Query: the same object for every call of one generated query)."""
    if cand is None:
        cand = make_cands(ids, extra, ordered, vocab)
    before = cand_state(cand, extra)
    o = _call(scorer, name, query, cand, extra)
    # after the call, whatever it returned or raised: the caller's query and candidate list are what was supplied
    try:
        o["query_after"] = query.snapshot()
    except Exception as e:
        o["query_after"] = {"unreadable": err_kind(e) + ": " + str(e)[:120]}
    try:
        after = cand_state(cand, extra)
    except Exception as e:
        after = {"unreadable": err_kind(e) + ": " + str(e)[:120]}
    o["cand_before"], o["cand_after"] = before, after
    o["cand"] = cand
    return o


def _call(scorer, name, query, cand, extra):
    try:
        if name == "popularity":
            res = scorer(cand)
        else:
            res = scorer(query.obj, cand)
    except Exception as e:
        return {"error": err_kind(e), "msg": str(e)[:160]}
    o = {"error": None, "type": type(res).__name__}
    if not isinstance(res, ItemList):
        return o
    o["ids"] = [back(i) for i in res.ids().tolist()]
    sc = res.scores()
    o["scores"] = None if sc is None else [num(x) for x in sc.tolist()]
    o["len"] = len(res)
    o["ordered"] = bool(res.ordered)
    if extra:
        p, t = res.field("price"), res.field("tag")
        o["price"] = None if p is None else [num(x) for x in p.tolist()]
        o["tag"] = None if t is None else [int(x) for x in t.tolist()]
    return o


def run(case):
    global STR_IDS
    setup()
    STR_IDS = case.get("ids") == "str"
    ds = build_dataset(case)
    name = case["scorer"]["scorer"]
    scorer = make_scorer(case["scorer"])
    obs = {"users": [back(u) for u in ds.users.ids().tolist()], "items": [back(i) for i in ds.items.ids().tolist()]}
    try:
        scorer.train(ds, TrainingOptions(rng=case["seed"]))
    except Exception as e:
        obs["train_error"] = err_kind(e)
        obs["msg"] = str(e)[:200]
        return obs
    obs["train_error"] = None
    calls = []
    for q in case["queries"]:
        ids = q["items"]
        known = set(case["items"])
        vocab = ds.items if q.get("by_number") and ids and all(i in known for i in ids) else None
        query = Query(q)           # ONE query object for all six calls
        extra, ordered = q.get("extra", False), q.get("ordered", False)
        c = {"supplied": query.supplied, "base": call(scorer, name, query, ids, extra=extra, ordered=ordered, vocab=vocab)}
        # the repeated call is handed the very same candidate list object as well
        c["repeat"] = call(scorer, name, query, ids, extra=extra, ordered=ordered, cand=c["base"]["cand"])
        perm = [ids[j] for j in q["perm"]]
        c["perm"] = call(scorer, name, query, perm)
        h = q["split"]
        c["half_a"] = call(scorer, name, query, ids[:h], vocab=vocab if ids[:h] else None)
        c["half_b"] = call(scorer, name, query, ids[h:])
        c["again"] = call(scorer, name, query, ids)          # after the other calls: the model is unchanged
        for k in ("base", "repeat", "perm", "half_a", "half_b", "again"):
            del c[k]["cand"]
        calls.append(c)
    obs["calls"] = calls
    return obs
