"""C14 implementation driver (imported after common.use_repo()): runs a history of derive / modify / build /
clone / split / train / run operations against real lenskit objects and re-observes every built object after
every step."""

from __future__ import annotations

import hashlib
import json
import tempfile
from pathlib import Path
from types import FunctionType

import numpy as np
import pandas as pd
import pyarrow as pa
import pyarrow.parquet  # noqa: F401

import c14_comp
import vcomp
from lenskit.data import Dataset, DatasetBuilder, ItemList
from lenskit.diagnostics import PipelineError
from lenskit.pipeline import Pipeline, PipelineBuilder
from lenskit.pipeline.components import Component, fallback_on_none
from lenskit.pipeline.config import PipelineComponent, PipelineConfig, hash_config
from lenskit.pipeline.nodes import ComponentNode, InputNode, LiteralNode
from lenskit.training import Trainable, TrainingOptions

COMPS = {
    "inc": vcomp.inc, "neg": vcomp.neg, "add": vcomp.add, "mix3": vcomp.mix3, "twice": vcomp.Box.twice,
    "Scale": vcomp.Scale, "Affine": vcomp.Affine, "Learner": vcomp.Learner, "NoSettings": vcomp.NoSettings,
    "Plain": c14_comp.Plain, "PlainLearner": c14_comp.PlainLearner,
}


LOOKUP_NAMES = ["a", "b", "c", "d", "c1", "c2", "c3", "c4", "c5", "c6", "scorer", "ranker", "m1", "m2", "al1", "rec", "zz", "k1", "k2"]


def digest(obj) -> str:
    return hashlib.sha256(json.dumps(obj, sort_keys=True, default=str).encode()).hexdigest()[:16]


def frame_digest(df) -> str:
    """a frame handed out by a dataset accessor, read WITHOUT touching it (user_stats() / item_stats() hand out the frame cached
    inside the dataset: the observer must never sort, fill or re-index it in place)"""
    return digest({"index": [str(x) for x in df.index.tolist()], "index_name": str(df.index.name), "dtypes": {str(c): str(t) for c, t in df.dtypes.items()},
                   "values": df.to_json(orient="split", date_unit="ns")})


def config_content_hash(cfg) -> str:
    "what PipelineBuilder.build_config stores as meta.hash: the hash of the configuration without its hash field"
    c = cfg.model_copy(deep=True)
    c.meta.hash = None
    return hash_config(c)


def component_settings(comp):
    "the settings a component object holds (not its trained state), read through its public face"
    if isinstance(comp, Component):
        try:
            return json.dumps(comp.dump_config(), sort_keys=True, default=str)
        except Exception as e:
            return "!" + type(e).__name__
    return json.dumps({k: repr(v) for k, v in sorted(vars(comp).items()) if k not in ("trained_on", "n_items")}) if hasattr(comp, "__dict__") else ""


def guarded(f):
    try:
        return f()
    except Exception as e:
        return "!" + type(e).__name__


def table_digest(t: pa.Table) -> str:
    cols = {}
    for name in t.column_names:
        cols[name] = [str(t.schema.field(name).type), t.column(name).to_pylist()]
    return digest(cols)


class World:
    def __init__(self):
        self.pblds, self.pipes, self.dblds, self.dsets = [], [], [], []
        self.itemlist_changes = []
        # which component instances are SUPPOSED to be shared: a token per instance.  A component added by class is
        # constructed anew by every build ("ctor" until then); an instance handed in by the caller is the caller's;
        # modify() reuses the pipeline's instances (documented); clone() re-creates everything.
        self.btok, self.ptok, self.ntok = [], [], 0

    def tok(self):
        self.ntok += 1
        return self.ntok

    # ---- observations -------------------------------------------------------------------------
    def obs_pipe(self, p: Pipeline, runs):
        doc0 = p.config.model_dump_json()     # before anything else is asked of the pipeline
        cfg = json.loads(doc0)
        nodes = []
        for n in p.nodes():
            if isinstance(n, InputNode):
                nodes.append([n.name, "@input", None])
            elif isinstance(n, LiteralNode):
                nodes.append([n.name, "@literal", {"value": repr(n.value)}])
            else:
                comp = n.component
                st = {}
                if not isinstance(comp, FunctionType) and getattr(comp, "trained_on", None) is not None:
                    st = {"trained": comp.trained_on}
                nodes.append([n.name, PipelineComponent.from_node(n).code, st])
        o = {
            "name": p.name,
            "nodes": sorted(nodes),
            "edges": sorted([n, dict(c["inputs"])] for n, c in cfg["components"].items()),
            "aliases": cfg["aliases"],
            "default": cfg.get("default"),
            # further observations for the oracle
            "hash": p.config_hash,
            "config": doc0,
            # the stored hash is the hash of the configuration as it stands
            "hash_of_config": config_content_hash(p.config),
            "nic": {n.name: {k: v.name for k, v in p.node_input_connections(n).items()} for n in p.nodes()},
            "private_edges": {n: dict(e) for n, e in p._edges.items()},
            # what the pipeline answers when asked for a node by any of the strings the histories use as node names and aliases
            "lookup": {q: getattr(p.node(q, missing="none"), "name", None) for q in LOOKUP_NAMES},
        }
        j = next((i for i, q in enumerate(self.pipes) if q is p), None)
        toks = self.ptok[j] if j is not None and j < len(self.ptok) else {}
        # every component that is an object with an identity of its own (Component instances and plain callable objects; functions are shared)
        o["inst"] = {n.name: [id(n.component), toks.get(n.name)] for n in p.nodes()
                     if isinstance(n, ComponentNode) and not isinstance(n.component, FunctionType)}
        # what every component object says of its own settings (a pipeline's configuration document describes the components it runs)
        o["settings"] = {n.name: component_settings(n.component) for n in p.nodes()
                         if isinstance(n, ComponentNode) and not isinstance(n.component, FunctionType)}
        res = []
        for inputs in runs:
            row = []
            for n in p.nodes():
                if isinstance(n, ComponentNode):
                    try:
                        row.append([n.name, p.run(n, **inputs)])
                    except Exception as e:
                        row.append([n.name, "!" + type(e).__name__])
            res.append(row)
        o["runs"] = res
        # asking the pipeline for its wiring, its nodes and its results is reading: its configuration document is what it was
        doc1 = p.config.model_dump_json()
        o["read_changes"] = [] if doc1 == doc0 else ["wiring-lookups-and-runs"]
        if doc1 != doc0:
            o["end"] = {"config": doc1, "hash_of_config": config_content_hash(p.config)}
        return o

    def obs_dset(self, d: Dataset, deep: bool, save: bool = True):
        # the description of the dataset -- schema document and tables -- is read FIRST, before any accessor has been used on it (a dataset
        # is first observed straight after it was built); after every group of read-only accessors below it is read again
        doc = [d.schema.model_dump_json()]
        sch = json.loads(doc[0])
        cont = d._data
        tabs = [[(n, id(t)) for n, t in cont.tables.items()]]
        reads = []

        def after(what):
            now, tnow = d.schema.model_dump_json(), [(n, id(t)) for n, t in d._data.tables.items()]
            changed = now != doc[0]
            if tnow != tabs[0]:
                # other table objects: what counts is whether their contents are other
                changed = changed or {n: table_digest(t) for n, t in d._data.tables.items()} != o["tables"]
            if changed:
                reads.append(what)
            doc[0], tabs[0] = now, tnow

        o = {
            "meta": {"name": sch.get("name"), "default_interaction": sch.get("default_interaction")},
            "ents": {k: json.dumps(v, sort_keys=True) for k, v in sch["entities"].items()},
            "rels": {k: json.dumps(v, sort_keys=True) for k, v in sch["relationships"].items()},
            "tables": {n: table_digest(t) for n, t in cont.tables.items()},
        }
        if deep:
            views = {}
            for ecls in sch["entities"]:
                try:
                    es = d.entities(ecls)
                    views["ids:" + ecls] = es.ids().tolist()
                    for an in sch["entities"][ecls]["attributes"]:
                        try:
                            views[f"attr:{ecls}.{an}"] = digest(es.attribute(an).pandas().to_json())
                        except Exception as e:
                            views[f"attr:{ecls}.{an}"] = "!" + type(e).__name__
                except Exception as e:
                    views["ids:" + ecls] = "!" + type(e).__name__
            after("entities")
            for rcls in sch["relationships"]:
                try:
                    rs = d.relationships(rcls)
                    views["rel:" + rcls] = digest(rs.pandas().to_json())
                    if len(sch["relationships"][rcls]["entities"]) == 2:
                        m = rs.matrix().scipy(layout="coo")
                        views["matrix:" + rcls] = digest([m.row.tolist(), m.col.tolist(), m.shape])
                except Exception as e:
                    views["rel:" + rcls] = "!" + type(e).__name__
            after("relationships")
            views["interactions"] = guarded(lambda: d.interactions().name)
            after("interactions")
            try:
                views["users"] = d.users.ids().tolist()
            except Exception as e:
                views["users"] = "!" + type(e).__name__
            views["items"] = d.items.ids().tolist()
            after("vocabularies")
            # every field of the schema, as one document (as it was before any accessor ran)
            views["schema-json"] = digest(sch)
            # derived / cached views: per-user and per-item statistics, counts, matrix forms with values, rows of the default matrix
            views["stats:user"] = guarded(lambda: frame_digest(d.user_stats()))
            views["stats:item"] = guarded(lambda: frame_digest(d.item_stats()))
            after("stats")
            views["counts"] = {"users": guarded(lambda: int(d.user_count)), "items": guarded(lambda: int(d.item_count)),
                               "interactions": guarded(lambda: int(d.interaction_count)),
                               **{"e:" + c: guarded(lambda c=c: int(d.entities(c).count())) for c in sch["entities"]},
                               **{"r:" + c: guarded(lambda c=c: int(d.relationships(c).count())) for c in sch["relationships"]}}
            after("counts")
            for rcls in sch["relationships"]:
                if len(sch["relationships"][rcls]["entities"]) != 2:
                    continue

                def mat(rcls=rcls):
                    ms = d.relationships(rcls).matrix()
                    m = ms.scipy()
                    cs = ms.csr_structure()
                    return digest({"shape": list(m.shape), "indptr": m.indptr.tolist(), "indices": m.indices.tolist(), "data": m.data.tolist(),
                                   "n": [int(ms.n_rows), int(ms.n_cols)], "rowptrs": np.asarray(cs.rowptrs).tolist(), "colinds": np.asarray(cs.colinds).tolist(),
                                   "rowstats": frame_digest(ms.row_stats()), "colstats": frame_digest(ms.col_stats())})
                views["matrix-values:" + rcls] = guarded(mat)
            views["matrix-default"] = guarded(lambda: digest(d.interaction_matrix(format="scipy", layout="coo").shape))
            after("matrices")

            def rows():
                out = []
                for u in d.users.ids().tolist():
                    il = d.user_row(u)
                    out.append([u, None if il is None else ilist_digest(il)])
                return digest(out)
            views["user-rows"] = guarded(rows)
            after("user-rows")
            if save:
                try:
                    with tempfile.TemporaryDirectory(prefix="c14-") as tmp:
                        d.save(Path(tmp) / "ds")
                        saved = {}
                        for f in sorted((Path(tmp) / "ds").iterdir()):
                            if f.suffix == ".parquet":
                                saved[f.name] = hashlib.sha256(f.read_bytes()).hexdigest()[:16]
                            elif f.name == "schema.json":
                                saved[f.name] = digest(json.loads(f.read_text()))
                        views["saved"] = saved
                except Exception as e:   # e.g. the summary writer on a cleared relationship class (not this property's subject)
                    views["saved"] = "!" + type(e).__name__
                after("save")
            o["views"] = views
            o["read_changes"] = reads
            if reads:
                # what the description had become when the observation ended
                sch1 = json.loads(doc[0])
                o["end"] = {"meta": {"name": sch1.get("name"), "default_interaction": sch1.get("default_interaction")},
                            "ents": {k: json.dumps(v, sort_keys=True) for k, v in sch1["entities"].items()},
                            "rels": {k: json.dumps(v, sort_keys=True) for k, v in sch1["relationships"].items()},
                            "schema-json": digest(sch1)}

            def facts():
                idle = None
                try:
                    idle = int((d.user_stats()["count"].to_numpy() == 0).sum())
                except Exception:
                    pass
                return {"empty_classes": sorted(c for c in sch["entities"] if d.entities(c).count() == 0), "idle_users": idle}
            o["facts"] = guarded(facts)
        return o

    def obs_dbld(self, b: DatasetBuilder):
        sch = json.loads(b.schema.model_dump_json())
        return {
            "meta": {"name": sch.get("name"), "default_interaction": sch.get("default_interaction")},
            "ents": {k: json.dumps(v, sort_keys=True) for k, v in sch["entities"].items()},
            "rels": {k: json.dumps(v, sort_keys=True) for k, v in sch["relationships"].items()},
            # a class without records is built as an empty table of identifiers
            "tables": {n: table_digest(pa.table({n + "_id": pa.array([], type=pa.int64())}) if t is None else t) for n, t in b._tables.items()},
        }

    def snapshot(self, case, final=False, derived_from=None):
        runs = case.get("runs", [])
        deep = case.get("deep", True)
        seen = getattr(self, "_seen_dsets", 0)
        # the saved form is written when a dataset is first seen, at the end, and again right after every operation that derives from it
        out = {"pipes": [self.obs_pipe(p, runs) for p in self.pipes],
               "dsets": [self.obs_dset(d, deep, save=(final or j >= seen or j == derived_from)) for j, d in enumerate(self.dsets)]}
        self._seen_dsets = len(self.dsets)
        return out

    # ---- operations ---------------------------------------------------------------------------
    def comp_args(self, op):
        c = COMPS[op["comp"]]
        st = op.get("style", "fn")
        if st == "fn":
            return (c,)
        if st == "instance":
            return (c(**(op.get("settings") or {})),)
        return (c, op.get("settings") or {})

    @staticmethod
    def ref(b, op, field="name"):
        """the way the operation names its node: the node name, the node object, or an alias string standing for it"""
        by = op.get("by", "name")
        if by == "alias":
            return op["via"]
        if by == "node":
            return b.node(op[field])
        return op[field]

    @staticmethod
    def literal_names(b, op):
        "the names of the literal nodes the builder made for the literal values the operation wired (read from the builder's public node list)"
        out = {}
        for p_, v in (op.get("lits") or {}).items():
            found = [n.name for n in b.nodes() if isinstance(n, LiteralNode) and n.name not in LOOKUP_NAMES
                     and type(n.value) is type(v) and n.value == v]
            if len(found) != 1:
                raise AssertionError(f"literal node for {v!r}: {found}")
            out[p_] = found[0]
        return out

    @staticmethod
    def sources(b, op):
        "input sources as node objects, looked up by node name or through an alias of the source"
        via = op.get("ins_via") or {}
        return {p: b.node(via.get(p, t)) for p, t in op["ins"]}

    def apply(self, op):
        k = op["op"]
        r = {"err": None}
        try:
            if k == "pnew":
                self.pblds.append(PipelineBuilder(name=op.get("name")))
                self.btok.append({})
            elif k == "pb_input":
                self.pblds[op["b"]].create_input(op["name"], int)
            elif k == "pb_literal":
                self.pblds[op["b"]].literal(op["value"], name=op["name"])
            elif k in ("pb_add", "pb_replace"):
                b = self.pblds[op["b"]]
                kw = {**self.sources(b, op), **(op.get("lits") or {})}
                args = self.comp_args(op)
                if k == "pb_add":
                    b.add_component(op["name"], *args, **kw)
                else:
                    b.replace_component(self.ref(b, op), *args, **kw)
                r["code"] = PipelineComponent.from_node(b._nodes[op["name"]]).code
                st = op.get("style", "fn")
                if st == "fn":
                    self.btok[op["b"]].pop(op["name"], None)
                else:
                    self.btok[op["b"]][op["name"]] = "ctor" if st == "class" else self.tok()
                r["lits"] = self.literal_names(b, op)
            elif k == "pb_connect":
                b = self.pblds[op["b"]]
                b.connect(self.ref(b, op), **self.sources(b, op), **(op.get("lits") or {}))
                r["lits"] = self.literal_names(b, op)
            elif k == "pb_clear":
                b = self.pblds[op["b"]]
                b.clear_inputs(self.ref(b, op))
            elif k == "pb_alias":
                b = self.pblds[op["b"]]
                b.alias(op["alias"], self.ref(b, op, "node"))
            elif k == "pb_unalias":
                self.pblds[op["b"]].remove_alias(op["alias"])
            elif k == "pb_default":
                b = self.pblds[op["b"]]
                b.default_component(self.ref(b, op))
            elif k == "pbuild":
                self.pipes.append(self.pblds[op["b"]].build())
                self.ptok.append({n: (self.tok() if t == "ctor" else t) for n, t in self.btok[op["b"]].items()})
            elif k == "pmodify":
                self.pblds.append(self.pipes[op["p"]].modify())
                self.btok.append(dict(self.ptok[op["p"]]))
            elif k == "pclone":
                self.pipes.append(self.pipes[op["p"]].clone())
                self.ptok.append({n: self.tok() for n in self.ptok[op["p"]]})
            elif k == "pfromconfig":
                src = self.pipes[op["p"]]
                how = op["how"]
                if how == "pipeline":
                    self.pipes.append(Pipeline.from_config(src.config))
                elif how == "json":
                    self.pipes.append(Pipeline.from_config(json.loads(src.config.model_dump_json())))
                elif how == "builder":
                    self.pblds.append(PipelineBuilder.from_config(src.config))
                    # the builder holds instances made for it: every pipeline built from it holds these
                    self.btok.append({n: self.tok() for n in self.ptok[op["p"]]})
                elif how == "validate":
                    PipelineConfig.model_validate(src.config)
                else:
                    raise RuntimeError("unknown op pfromconfig/" + how)
                if how in ("pipeline", "json"):
                    self.ptok.append({n: self.tok() for n in self.ptok[op["p"]]})
            elif k == "ptrain":
                tgt = self.pipes[op["p"]]
                # train only a pipeline whose trainable instances are SUPPOSED to be its own (whether they really are is
                # what the observations afterwards show)
                names = [n.name for n in tgt.nodes() if isinstance(n, ComponentNode) and isinstance(n.component, Trainable)]
                mine = {self.ptok[op["p"]].get(n) for n in names} - {None}
                for kq, q in enumerate(self.ptok):
                    if kq != op["p"] and mine & set(q.values()):
                        raise LookupError("trainable instances are shared with another pipeline by design")
                tgt.train(self.dsets[op["d"]], TrainingOptions(rng=7))
                r["label"] = self.dsets[op["d"]].name
            elif k == "prun":
                p = self.pipes[op["p"]]
                for n in p.nodes():
                    if isinstance(n, ComponentNode):
                        try:
                            p.run(n, **op["inputs"])
                        except Exception:
                            pass
            elif k == "dnew":
                self.dblds.append(DatasetBuilder(op.get("name")))
            elif k == "dfrom":
                self.dblds.append(DatasetBuilder(self.dsets[op["d"]]))
            elif k == "db_entity_class":
                self.dblds[op["b"]].add_entity_class(op["cls"])
            elif k == "db_entities":
                self.dblds[op["b"]].add_entities(op["cls"], op["ids"], duplicates="update")
            elif k == "db_rel_class":
                self.dblds[op["b"]].add_relationship_class(op["cls"], op["entities"], allow_repeats=op.get("repeats", True),
                                                            interaction=op.get("interaction", False))
            elif k == "db_interactions":
                df = pd.DataFrame(op["rows"], columns=op["columns"])
                self.dblds[op["b"]].add_interactions(op["cls"], df, entities=op.get("entities"), missing="insert",
                                                     allow_repeats=op.get("repeats", True), default=op.get("default", False))
            elif k == "db_scalar_attr":
                ids = list(op["values"].keys())
                b = self.dblds[op["b"]]
                keyt = int if b.schema.entities[op["cls"]].id_type != "str" else str
                b.add_scalar_attribute(op["cls"], op["name"], [keyt(i) for i in ids], [op["values"][i] for i in ids])
            elif k == "db_list_attr":
                ids = list(op["values"].keys())
                b = self.dblds[op["b"]]
                keyt = int if b.schema.entities[op["cls"]].id_type != "str" else str
                b.add_list_attribute(op["cls"], op["name"], [keyt(i) for i in ids], [op["values"][i] for i in ids])
            elif k == "db_vector_attr":
                ids = list(op["values"].keys())
                b = self.dblds[op["b"]]
                keyt = int if b.schema.entities[op["cls"]].id_type != "str" else str
                b.add_vector_attribute(op["cls"], op["name"], [keyt(i) for i in ids],
                                       np.array([op["values"][i] for i in ids], dtype=np.float64))
            elif k == "db_filter":
                kw = {}
                if "min_time" in op:
                    kw["min_time"] = op["min_time"]
                if "max_time" in op:
                    kw["max_time"] = op["max_time"]
                if "remove" in op:
                    kw["remove"] = pd.DataFrame(op["remove"], columns=op["remove_columns"])
                self.dblds[op["b"]].filter_interactions(op["cls"], **kw)
            elif k == "db_clear":
                self.dblds[op["b"]].clear_relationships(op["cls"])
            elif k == "dbuild":
                self.dsets.append(self.dblds[op["b"]].build())
            elif k == "dsplit":
                r["new"] = self.split(op)
            else:
                raise RuntimeError("unknown op " + k)
        except (ValueError, LookupError, TypeError, PipelineError, RuntimeError, NotImplementedError, pa.ArrowException) as e:
            if isinstance(e, RuntimeError) and "unknown op" in str(e):
                raise
            from lenskit.diagnostics import DataError
            r["err"] = type(e).__name__
            r["msg"] = str(e)[:100]
        except Exception as e:
            from lenskit.diagnostics import DataError
            if not isinstance(e, DataError):
                raise
            r["err"] = "DataError"
            r["msg"] = str(e)[:100]
        # state of the builder an operation worked on (what the builder itself now says)
        if k.startswith("db_") or k in ("dnew", "dfrom"):
            i = op["b"] if "b" in op else len(self.dblds) - 1
            if 0 <= i < len(self.dblds):
                r["builder"] = self.obs_dbld(self.dblds[i])
        return r

    def split(self, op):
        from lenskit.splitting import crossfold_records, crossfold_users, sample_records, sample_users, split_global_time, split_temporal_fraction
        from lenskit.splitting.holdout import LastN, SampleFrac, SampleN

        d = self.dsets[op["d"]]
        how = op["how"]
        if how == "sample_records":
            parts = [sample_records(d, size=op["size"], rng=op["seed"])]
        elif how == "crossfold_records":
            parts = list(crossfold_records(d, partitions=op["parts"], rng=op["seed"]))
        elif how == "sample_users":
            if op.get("repeats"):
                parts = list(sample_users(d, size=op["size"], method=SampleN(op["n"], rng=op["seed"]), repeats=op["repeats"],
                                          disjoint=op.get("disjoint", True), rng=op["seed"]))
            else:
                parts = [sample_users(d, size=op["size"], method=SampleN(op["n"], rng=op["seed"]), rng=op["seed"])]
        elif how == "crossfold_users":
            parts = list(crossfold_users(d, partitions=op["parts"], method=LastN(op["n"]) if op.get("last") else SampleFrac(0.5, rng=op["seed"]), rng=op["seed"]))
        elif how == "global_time":
            parts = [split_global_time(d, op["time"])]
        elif how == "temporal_fraction":
            parts = [split_temporal_fraction(d, op["frac"])]
        else:
            raise RuntimeError("unknown split " + how)
        new = []
        for sp in parts:
            self.dsets.append(sp.train)
            new.append(len(self.dsets) - 1)
        return new


# ---- item lists handed to components must come back unchanged -----------------------------------


def ilist_digest(il: ItemList) -> str:
    "the content of an item list: identifiers, ordering, every field, its numbers where it has a vocabulary (public accessors only)"
    parts = {"ids": il.ids().tolist(), "ordered": bool(il.ordered), "len": len(il)}
    for f in sorted(getattr(il, "_fields", {}).keys()):
        try:
            parts["f:" + f] = np.asarray(il.field(f)).tolist()
        except Exception as e:
            parts["f:" + f] = "!" + type(e).__name__
    parts["numbers"] = guarded(lambda: il.numbers(missing="negative").tolist())
    return digest(parts)


def ilist_state(il: ItemList) -> dict:
    """the full observable state of an item list, aspect by aspect: content, WHICH vocabulary it has (identity: compared within one process
    only) and what that vocabulary holds, its numbers with each way of treating unknown items and relative to its own vocabulary handed
    back to it, its data-frame forms"""
    voc = guarded(lambda: il.vocabulary)
    has = voc is not None and not isinstance(voc, str)
    return {
        "content": ilist_digest(il),
        "vocabulary-identity": id(voc) if has else voc,
        "vocabulary-content": guarded(lambda: digest([str(x) for x in voc.ids().tolist()])) if has else None,
        "numbers:missing=error": guarded(lambda: il.numbers(missing="error").tolist()),
        "numbers:missing=negative": guarded(lambda: il.numbers(missing="negative").tolist()),
        "numbers:own-vocabulary": guarded(lambda: il.numbers(vocabulary=voc, missing="negative").tolist()) if has else None,
        "to_df": guarded(lambda: frame_digest(il.to_df())),
        "to_df:ids-only": guarded(lambda: frame_digest(il.to_df(numbers=False))),
        "fields": guarded(lambda: sorted(il.to_df(numbers=False).columns.tolist())),
    }


def state_diff(a: dict, b: dict) -> list:
    return sorted(k for k in a if a[k] != b.get(k))


_WRAPPED: set = set()
_CHANGES: list = []
_CALLS: list = [0]
_DETAIL: dict = {}
_LIST_KIND: list = ["ids"]       # how the item list handed to the pipeline in the current run is represented


def watch_component_inputs(pipe: Pipeline):
    "wrap the __call__ of every component class in the pipeline: digest every ItemList argument before and after"
    for n in pipe.nodes():
        if not isinstance(n, ComponentNode) or not isinstance(n.component, Component):
            continue
        cls = type(n.component)
        if cls in _WRAPPED:
            continue
        _WRAPPED.add(cls)
        orig = cls.__call__

        def make(orig, cls):
            def call(self, *args, **kwargs):
                watched = [(k, v, ilist_state(v)) for k, v in list(kwargs.items()) + list(enumerate(args)) if isinstance(v, ItemList)]
                out = orig(self, *args, **kwargs)
                for k, v, d0 in watched:
                    _CALLS[0] += 1
                    d1 = ilist_state(v)
                    if d1 != d0:
                        key = f"{cls.__module__}:{cls.__qualname__}.{k}:list={_LIST_KIND[0]}"
                        _CHANGES.append(key)
                        _DETAIL.setdefault(key, state_diff(d0, d1))
                return out

            call.__wrapped__ = orig
            call.__signature__ = __import__("inspect").signature(orig)
            call.__annotations__ = getattr(orig, "__annotations__", {})
            return call

        cls.__call__ = make(orig, cls)


def run_history(case):
    w = World()
    steps = []
    for t, op in enumerate(case["ops"]):
        r = w.apply(op)
        snap = w.snapshot(case, final=(t == len(case["ops"]) - 1), derived_from=op.get("d") if op["op"] in ("dfrom", "dsplit") else None)
        steps.append({"result": r, "snap": snap})
    return {"steps": steps}


def candidate_lists(case, full: Dataset, train: Dataset):
    """the same candidates in every REPRESENTATION an item list has: identifiers only; numbers + vocabulary; identifiers + a vocabulary --
    the full catalogue's, the training set's, one that numbers the catalogue in another order (a vocabulary that is not the object the
    model was trained with); with and without a further field"""
    from lenskit.data import Vocabulary

    cands = list(case["candidates"])
    known = [i for i in cands if i in set(full.items.ids().tolist())]
    ids = np.array(cands, dtype=np.int64)
    kids = np.array(known, dtype=np.int64)
    perm = Vocabulary(np.array(sorted(full.items.ids().tolist(), key=lambda i: (i * 7) % 13 * 100 + i), dtype=np.int64), name="item")
    out = [
        ("ids", lambda: ItemList(item_ids=ids)),
        ("numbers+vocabulary:catalogue", lambda: ItemList(item_nums=full.items.numbers(kids), vocabulary=full.items)),
        ("ids+vocabulary:catalogue", lambda: ItemList(item_ids=kids, vocabulary=full.items)),
        ("ids+vocabulary:training-set", lambda: ItemList(item_ids=np.array([i for i in known if i in set(train.items.ids().tolist())], dtype=np.int64),
                                                        vocabulary=train.items)),
        ("ids+vocabulary:permuted", lambda: ItemList(item_ids=ids, vocabulary=perm)),
        ("ids+vocabulary:catalogue+field", lambda: ItemList(item_ids=kids, vocabulary=full.items, prior=np.arange(len(kids), dtype=np.float64))),
        ("numbers+vocabulary:permuted", lambda: ItemList(item_nums=perm.numbers(kids), vocabulary=perm)),
    ]
    return out


def run_standard(case):
    "train a standard pipeline around a shipped scorer on a small dataset and run it, watching every ItemList input"
    from lenskit.pipeline import predict_pipeline, topn_pipeline
    from lenskit.splitting import sample_records
    import importlib

    db = DatasetBuilder("std")
    df = pd.DataFrame(case["ratings"], columns=["user_id", "item_id", "rating", "timestamp"])
    db.add_interactions("rating", df, entities=["user", "item"], missing="insert", default=True)
    full = db.build()
    # the data the model is trained on: the catalogue itself, or a training set DERIVED from it (a split; the records on part of the
    # items in a dataset of its own that numbers them in another order)
    how = case.get("train_on", "full")
    if how == "split":
        ds = sample_records(full, size=max(1, len(df) // 5), rng=case.get("seed", 3)).train
    elif how == "subset":
        keep = sorted(df["item_id"].unique().tolist())
        keep = keep[: max(3, (2 * len(keep)) // 3)]
        tb = DatasetBuilder("train")
        tb.add_entities("item", keep[::-1])
        tb.add_entities("user", sorted(df["user_id"].unique().tolist()))
        tb.add_interactions("rating", df[df["item_id"].isin(keep)], entities=["user", "item"], default=True)
        ds = tb.build()
    else:
        ds = full
    m, q = case["scorer"].split(":")
    cls = getattr(importlib.import_module(m), q)
    scorer = cls(**case.get("settings", {}))
    pipe = topn_pipeline(scorer, predicts_ratings=True, n=case.get("n", 5)) if case["builder"] == "topn" else predict_pipeline(scorer)
    watch_component_inputs(pipe)
    before = [World().obs_dset(d, True) for d in ([ds] if ds is full else [ds, full])]
    pipe.train(ds, TrainingOptions(rng=11))
    n0, c0 = len(_CHANGES), _CALLS[0]
    results = []
    kinds = []
    for u in case["users"]:
        for kind, make in candidate_lists(case, full, ds):
            items = make()
            _LIST_KIND[0] = kind
            kinds.append(kind)
            di = ilist_state(items)
            try:
                if case["builder"] == "topn":
                    out = pipe.run("recommender", query=u, items=items)
                else:
                    out = pipe.run("rating-predictor", query=u, items=items)
                results.append(len(out))
            except Exception as e:
                results.append("!" + type(e).__name__)
            d1 = ilist_state(items)
            if d1 != di:
                key = "pipeline-input:items:list=" + kind
                _CHANGES.append(key)
                _DETAIL.setdefault(key, state_diff(di, d1))
    _LIST_KIND[0] = "ids"
    after = [World().obs_dset(d, True) for d in ([ds] if ds is full else [ds, full])]
    changes = sorted(set(_CHANGES[n0:]))
    return {"std": True, "changes": changes, "details": {k: _DETAIL.get(k, []) for k in changes}, "calls": _CALLS[0] - c0, "results": results,
            "list_kinds": sorted(set(kinds)), "train_on": how,
            "dataset_unchanged": before == after, "before": before[0], "after": after[0]}
