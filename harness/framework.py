"""Generic flow of one property check (DESIGN.md section 2.4).

A property module (harness/props/cXX.py) provides:

  PID, PROPS_FILE ("Props/C07.v"), ALLOWED_AXIOMS (list of regexes), TRUSTED (list of str),
  ASSUMPTIONS (list of str), RULE (str), CASE_HEADER (Coq `Require` lines for case files),
  translate() -> {relative .v path under coq/: text}        (optional; raises TranslateError)
  gen_cases(rng, tier) -> list of JSON-able cases            (corpus cases are prepended)
  run_impl(case) -> JSON-able observation of the real code
  coq_term(case, obs) -> closed Gallina term of type bool: model agrees with the observation
                          (None: case has no model-side comparison)
  oracle(case, obs) -> list of (key, what): the property text evaluated on the implementation alone
  nontrivial(case, obs) -> bool
  sample(case, obs) -> something small to show in the evidence
  extra(report, tier, rng) (optional) -> further exercises; may call report.violation
  counters(case, obs) -> iterable of str (optional; input-distribution / branch counters)
"""

from __future__ import annotations

import argparse
import importlib
import json
import re
import sys
import time
import traceback
from collections import Counter
from pathlib import Path

import common
from common import COQ, VERIF, Report, Rng


class TranslateError(Exception):
    pass


def stub_text(why: str) -> str:
    return "(* translator failed closed: " + why.replace("*)", "* )") + " *)\n"


def regenerate(mod, rep: Report) -> list[str]:
    """Re-run the translators against the current source tree.  Returns broken obligations."""
    broken = []
    if not hasattr(mod, "translate"):
        return broken
    try:
        files = mod.translate()
    except TranslateError as e:
        files = {p: stub_text(str(e)) for p in getattr(mod, "GEN_FILES", [])}
        broken.append(f"translator failed closed: {e}")
    except Exception as e:  # a crash of the translator is also fail-closed
        files = {p: stub_text(repr(e)) for p in getattr(mod, "GEN_FILES", [])}
        broken.append(f"translator crashed: {e!r}")
    for rel, text in files.items():
        common.write_if_changed(COQ / rel, text)
    return broken


def check_proofs(mod, rep: Report):
    """Build Props/Cxx.vo with its dependency closure, re-check assumptions.  Returns
    (n_obligations, n_discharged, broken list, checker_cmd)."""
    props = COQ / mod.PROPS_FILE
    target = mod.PROPS_FILE[:-2] + ".vo"
    broken = []
    ok, log = common.make_targets([target])
    names = common.theorem_names(props)
    cmd = f"make -C {COQ} {target} && coqc -Q {COQ} LK {props}"
    if not ok:
        m = re.findall(r'File "([^"]+)", line (\d+)[^\n]*\n(?:[^\n]*\n){0,6}?Error:?([^\n]*(?:\n[^\n]+){0,3})', log)
        where = "; ".join(f"{a}:{b}: {c.strip()[:300]}" for a, b, c in m[:3]) or log[-800:]
        broken.append(f"proof obligations of {mod.PROPS_FILE} no longer check: {where}")
        return len(names), 0, broken, cmd
    ok2, blocks, out = common.print_assumptions(props)
    if not ok2:
        broken.append(f"Print Assumptions pass over {mod.PROPS_FILE} failed: {out[-600:]}")
        return len(names), 0, broken, cmd
    allowed = [re.compile(a) for a in mod.ALLOWED_AXIOMS]
    good = 0
    axioms_seen = set()
    for b in blocks:
        bad = [a for a in b["axioms"] if not any(r.fullmatch(a) for r in allowed)]
        axioms_seen.update(b["axioms"])
        if bad:
            broken.append(f"theorem {b['theorem']} depends on axioms outside the allow-list: {bad}")
        else:
            good += 1
    if len(blocks) != len(names):
        broken.append(f"{len(names)} theorems but {len(blocks)} Print Assumptions blocks in {mod.PROPS_FILE}")
    srcs = common.lk_closure(props)
    rep.coverage["files_checked"] = [str(p.relative_to(COQ)) for p in srcs]
    for b in common.scan_forbidden(srcs):
        broken.append("forbidden construct: " + b)
        good = 0
    if rep.tier == "thorough" and getattr(mod, "COQCHK", True):
        ck = common.coqchk(props)
        rep.coverage["coqchk"] = ck
        if not ck["ok"]:
            broken.append(f"coqchk did not accept {ck['module']}: {ck.get('tail', '')[-300:]}")
        else:
            for ax in ck["axioms"]:
                name = ax.split()[0].split(":")[0]
                short = name.split(".")[-1]
                if not any(r.fullmatch(name) or r.fullmatch(short) for r in allowed) and not any(
                    re.fullmatch(a, name) for a in getattr(mod, "COQCHK_LIBRARY_AXIOMS", [])):
                    broken.append(f"coqchk reports an axiom outside the allow-lists: {ax}")
            if ck["type_in_type"] or ck["unsafe_fix"] or ck["positivity"]:
                broken.append(f"coqchk reports disabled kernel checks: {ck}")
    rep.coverage["axioms_seen"] = sorted(axioms_seen)
    rep.coverage["theorems"] = names
    return len(names), good, broken, cmd


def load_corpus(pid: str) -> list:
    d = VERIF / "corpus" / pid
    out = []
    if d.is_dir():
        for f in sorted(d.glob("*.json")):
            c = json.loads(f.read_text())
            c.setdefault("_corpus", f.name)
            out.append(c)
    return out


def safe_impl(mod, case):
    """Run the implementation driver.  An exception that escapes it is classified by where it was
    raised: inside lenskit (/repo/src, or a library called from there) -> the implementation failed
    on this input; inside the harness -> the driver no longer fits the code (broken correspondence)."""
    try:
        return mod.run_impl(case), None
    except Exception as e:
        frames = traceback.extract_tb(e.__traceback__)
        harness_dir = str(common.VERIF / "harness")
        src_dir = str(common.SRC)
        last_harness = max((k for k, f in enumerate(frames) if f.filename.startswith(harness_dir)), default=-1)
        origin = "impl" if any(f.filename.startswith(src_dir) for f in frames[last_harness + 1:]) else "driver"
        return None, f"[{origin}] {type(e).__name__}: {e}\n{traceback.format_exc()[-1500:]}"


def run(mod, tier: str, seed: int, replay: str | None = None, max_cases: int | None = None) -> int:
    rep = Report(mod.PID, tier, seed, level="proof")
    rng = Rng(seed)
    rep.assumptions = list(getattr(mod, "ASSUMPTIONS", []))

    if replay:
        r = json.loads(Path(replay).read_text())
        case = r["replay"].get("case")
        if case is None:
            print(json.dumps(r, indent=1))
            print("replay names a broken obligation, not an input; re-run the check itself")
            return 0
        obs, err = safe_impl(mod, case)
        print("case:", json.dumps(case, default=str)[:4000])
        print("observation:", json.dumps(obs, default=str)[:4000], err or "")
        vs = mod.oracle(case, obs) if obs is not None else [("harness", err)]
        for k, w in vs:
            print(f"oracle: [{k}] {w}")
        print("REPRODUCED" if vs else "NOT-REPRODUCED")
        return 1 if vs else 0

    # 1. tie A: regenerate models from the current source
    broken = regenerate(mod, rep)
    # 2. proofs
    n_obl, n_ok, b2, cmd = check_proofs(mod, rep)
    broken += b2
    model_runs = not any("no longer check" in b or "translator" in b for b in broken) or getattr(mod, "MODEL_INDEPENDENT_OF_GEN", False)
    if broken and not model_runs:
        # is the executable model still buildable on its own?
        model_targets = [m[:-2] + ".vo" for m in getattr(mod, "MODEL_FILES", [])]
        if model_targets:
            okm, _ = common.make_targets(model_targets)
            model_runs = okm

    # 3. tie B: correspondence on corpus + generated cases
    cases = load_corpus(mod.PID) + list(mod.gen_cases(rng.fork("cases"), tier))
    if max_cases:
        cases = cases[:max_cases]
    observations, terms, term_idx = [], [], []
    dist = Counter()
    seen, nontriv = set(), 0
    harness_errors = []
    t_impl = time.time()
    for i, case in enumerate(cases):
        obs, err = safe_impl(mod, case)
        observations.append(obs)
        if err:
            harness_errors.append((i, err))
            continue
        for c in (mod.counters(case, obs) if hasattr(mod, "counters") else ()):
            dist[c] += 1
        h = common.digest({k: v for k, v in case.items() if not k.startswith("_")})
        if h not in seen:
            seen.add(h)
            if mod.nontrivial(case, obs):
                nontriv += 1
        if model_runs:
            t = mod.coq_term(case, obs)
            if t is not None:
                terms.append(t)
                term_idx.append(i)
    t_impl = time.time() - t_impl

    disagree, shard_errors, n_shards = [], [], 0
    t_coq = time.time()
    if terms:
        failing, shard_errors, n_shards = common.run_case_shards(mod.PID, mod.CASE_HEADER, terms, shard=getattr(mod, "SHARD", 250))
        disagree = [term_idx[j] for j in failing]
    t_coq = time.time() - t_coq
    for e in shard_errors:
        broken.append("correspondence shard did not evaluate: " + e[:600])

    # 4. the property itself, evaluated on the implementation's outputs
    found_input = False
    oracle_hits = 0
    for i, case in enumerate(cases):
        if observations[i] is None:
            continue
        for key, what in mod.oracle(case, observations[i]):
            oracle_hits += 1
            found_input = True
            small = shrink_case(mod, case, key)
            rep.violation(key, what, {"case": small, "observation": (mod.run_impl(small) if small is not case else observations[i])})
    impl_err = [(i, e) for i, e in harness_errors if e.startswith("[impl]")]
    drv_err = [(i, e) for i, e in harness_errors if not e.startswith("[impl]")]
    for i, err in impl_err[:5]:
        # lenskit itself raised something the driver does not expect on a generated (valid) input
        rep.violation(f"harness-error:{common.digest(cases[i])}", f"the implementation raised on a generated input: {err[:500]}",
                      {"case": cases[i]})
        found_input = True
    if drv_err:
        i, err = drv_err[0]
        broken.append(f"implementation driver no longer fits the code on {len(drv_err)} case(s) "
                      f"(first: case {i}, digest {common.digest(cases[i])}): {err[:400]}")
        rep.coverage["driver_failure_case"] = cases[i]

    # disagreements where the implementation still satisfies the property: model out of date
    stale = [i for i in disagree if not mod.oracle(cases[i], observations[i])]
    if stale:
        i = stale[0]
        rep.violation(
            f"correspondence:{mod.PID}",
            f"model and implementation differ on {len(stale)} case(s) where the property oracle is satisfied; "
            f"the theorems no longer speak about this code (first: case {i})",
            {"correspondence": mod.CASE_HEADER, "case": cases[i], "observation": observations[i],
             "coq_term": mod.coq_term(cases[i], observations[i])[:3000]},
            no_input=True,
        )
    if broken:
        # search for a failing input before reporting the broken obligation
        if not found_input and hasattr(mod, "search"):
            hit = mod.search(rng.fork("search"), rep)
            found_input = bool(hit)
        if not found_input and tier == "quick":
            extra_cases = list(mod.gen_cases(rng.fork("search-cases"), "thorough"))[: getattr(mod, "SEARCH_CASES", 1500)]
            for case in extra_cases:
                obs, err = safe_impl(mod, case)
                if obs is None:
                    continue
                vs = mod.oracle(case, obs)
                if vs:
                    key, what = vs[0]
                    small = shrink_case(mod, case, key)
                    rep.violation(key, what, {"case": small, "observation": mod.run_impl(small), "broken": broken})
                    found_input = True
                    break
        if not any(not v["no_input"] for v in rep.violations):
            rep.violation(f"obligation:{mod.PID}", "; ".join(broken)[:1500],
                          {"broken_obligations": broken, "theorems_file": mod.PROPS_FILE}, no_input=True)

    if hasattr(mod, "extra"):
        mod.extra(rep, tier, rng.fork("extra"))

    samples = []
    for i in range(min(3, len(cases))):
        j = (i * 7919) % len(cases) if cases else 0
        if observations[j] is not None:
            samples.append(mod.sample(cases[j], observations[j]) if hasattr(mod, "sample") else {"case": cases[j], "observation": observations[j]})
    rep.coverage.update(
        obligations=n_obl + len(getattr(mod, "GEN_FILES", [])),
        discharged=n_ok + (0 if any("translator" in b for b in broken) else len(getattr(mod, "GEN_FILES", []))),
        checker_cmd=cmd,
        trusted_base=list(mod.TRUSTED),
        evaluations=len(cases),
        distinct_nontrivial=nontriv,
        rule=mod.RULE,
        samples=samples or [{"note": "no case produced an observation"}],
        correspondence_shards=n_shards,
        correspondence_cases=len(terms),
        disagreements_checked=len(disagree),
        oracle_hits=oracle_hits,
        input_distribution=dict(sorted(dist.items())),
        broken_obligations=broken,
        impl_seconds=round(t_impl, 1),
        coq_case_seconds=round(t_coq, 1),
        repo=str(common.REPO),
    )
    return rep.finish()


def shrink_case(mod, case, key):
    if not hasattr(mod, "shrink"):
        return case
    try:
        def fails(c):
            try:
                return any(k == key for k, _ in mod.oracle(c, mod.run_impl(c)))
            except Exception:
                return False
        return mod.shrink(case, fails)
    except Exception:
        return case


def main(argv=None):
    ap = argparse.ArgumentParser()
    ap.add_argument("pid")
    ap.add_argument("--tier", default=None)
    ap.add_argument("--replay", default=None)
    ap.add_argument("--max-cases", type=int, default=None)
    a = ap.parse_args(argv)
    import os
    tier = a.tier or os.environ.get("VERIF_TIER") or "quick"
    mod = importlib.import_module("props." + a.pid.lower())
    return run(mod, tier, common.seed_from_env(), a.replay, a.max_cases)


if __name__ == "__main__":
    sys.exit(main())
