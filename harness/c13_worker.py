"""C13 worker: runs in a fresh interpreter with a chosen PYTHONHASHSEED.

usage: c13_worker.py <job.json> <out.json>
job = {"cases": [case, ...], "docs": {"<case index>": [[label, json text], ...]}}
For every case: build the pipeline from its description in THIS process ("produce"), clone it and
round-trip it through JSON in this process, run it, and reload every document handed over from the
producing process ("reload").  Everything is reported as plain JSON.
"""

from __future__ import annotations

import json
import sys
import warnings


def main():
    job = json.loads(open(sys.argv[1]).read())
    # (not `import common`: for a scratch tree that module re-syncs the Coq directory at import time, which must not
    #  happen concurrently in every worker)
    import logging
    import os
    from pathlib import Path

    src = str(Path(os.environ.get("VERIF_REPO", "/repo")).resolve() / "src")
    if src in sys.path:
        sys.path.remove(src)
    sys.path.insert(0, src)
    logging.disable(logging.CRITICAL)
    import lenskit

    if not str(Path(lenskit.__file__).resolve()).startswith(src):
        raise RuntimeError(f"lenskit imported from {lenskit.__file__}, wanted {src}")
    # lenskit logs through structlog (rich tracebacks with locals for every failing node): silence it
    import structlog

    structlog.configure(wrapper_class=structlog.make_filtering_bound_logger(logging.CRITICAL))
    import c13_impl

    out = []
    for i, case in enumerate(job["cases"]):
        docs = job.get("docs", {}).get(str(i), [])
        try:
            out.append(c13_impl.observe(case, docs))
        except Exception as e:  # harness-level failure
            import traceback

            out.append({"harness_error": f"{type(e).__name__}: {e}", "trace": traceback.format_exc()[-1200:]})
    open(sys.argv[2], "w").write(json.dumps(out))


if __name__ == "__main__":
    warnings.filterwarnings("ignore")
    main()
