"""Shared machinery for all property checks (see DESIGN.md section 2).

Runs under /venv/bin/python (the interpreter that has lenskit's dependencies).
Nothing here imports lenskit; property modules do that lazily after `use_repo()`.
"""

from __future__ import annotations

import fcntl
import hashlib
import json
import math
import os
import re
import subprocess
import sys
import time
from concurrent.futures import ThreadPoolExecutor
from fractions import Fraction
from pathlib import Path

VERIF = Path(__file__).resolve().parent.parent
REPO = Path(os.environ.get("VERIF_REPO", "/repo")).resolve()
# Registered commands always work on /repo and write into /verif.  For trying the checks against a
# scratch worktree (mutation testing, several at once) VERIF_REPO selects the tree and everything
# that is written (generated models, build output, evidence, replays) goes to a scratch directory.
if REPO == Path("/repo"):
    OUT = VERIF
    COQ = VERIF / "coq"
else:
    OUT = Path(os.environ.get("VERIF_OUT", "/tmp/verif-out-" + hashlib.sha256(str(REPO).encode()).hexdigest()[:10]))
    COQ = OUT / "coq"
    OUT.mkdir(parents=True, exist_ok=True)
    if not os.environ.get("VERIF_NO_SYNC"):   # helper processes of a check (C11 thread workers) only need SRC
        subprocess.run(["rsync", "-a", "--delete", "--exclude", "cases/", str(VERIF / "coq") + "/", str(COQ) + "/"], check=True)
SRC = REPO / "src"
GUARD = "LENSKIT_LKPY_VERIF"
PY = "/venv/bin/python"

NPROC = min(16, os.cpu_count() or 4)
MEM_KB = 20 * 1024 * 1024   # 20 GB address space per coqc


def base_env(**extra) -> dict:
    env = dict(os.environ)
    env.update(
        PYTHONPATH=str(SRC) + os.pathsep + str(VERIF / "harness"),
        PYTHONHASHSEED="0",
        TZ="UTC",
        LK_NUM_THREADS="1",
        LK_NUM_BACKEND_THREADS="1",
        LK_NUM_PROCS="1",
        OMP_NUM_THREADS="1",
        MKL_NUM_THREADS="1",
        OPENBLAS_NUM_THREADS="1",
        NUMBA_NUM_THREADS="1",
        PYTHONWARNINGS="ignore",
    )
    env[GUARD] = "1"
    env.update({k: str(v) for k, v in extra.items()})
    return env


def use_repo():
    """Make `import lenskit` resolve to REPO/src in this process and quieten it."""
    os.environ.setdefault(GUARD, "1")
    for k, v in (
        ("LK_NUM_THREADS", "1"),
        ("LK_NUM_BACKEND_THREADS", "1"),
        ("OMP_NUM_THREADS", "1"),
        ("MKL_NUM_THREADS", "1"),
        ("OPENBLAS_NUM_THREADS", "1"),
        ("NUMBA_NUM_THREADS", "1"),
    ):
        os.environ.setdefault(k, v)
    p = str(SRC)
    if p in sys.path:
        sys.path.remove(p)
    sys.path.insert(0, p)
    import logging
    import warnings

    logging.disable(logging.CRITICAL)
    warnings.filterwarnings("ignore")
    import lenskit  # noqa: F401

    got = Path(lenskit.__file__).resolve()
    if not str(got).startswith(str(SRC)):
        raise RuntimeError(f"lenskit imported from {got}, wanted {SRC}")


# ---------------------------------------------------------------------------------------------
# one PRNG state for every random choice (SplitMix64); replayable from VERIF_SEED
# ---------------------------------------------------------------------------------------------

MASK = (1 << 64) - 1


class Rng:
    def __init__(self, seed: int):
        self.s = seed & MASK

    def next(self) -> int:
        self.s = (self.s + 0x9E3779B97F4A7C15) & MASK
        z = self.s
        z = ((z ^ (z >> 30)) * 0xBF58476D1CE4E5B9) & MASK
        z = ((z ^ (z >> 27)) * 0x94D049BB133111EB) & MASK
        return z ^ (z >> 31)

    def fork(self, tag) -> "Rng":
        h = hashlib.sha256(f"{self.s}:{tag}".encode()).digest()
        return Rng(int.from_bytes(h[:8], "big"))

    def below(self, n: int) -> int:
        assert n > 0
        return self.next() % n

    def randint(self, lo: int, hi: int) -> int:
        "inclusive"
        return lo + self.below(hi - lo + 1)

    def chance(self, num: int, den: int) -> bool:
        return self.below(den) < num

    def choice(self, xs):
        return xs[self.below(len(xs))]

    def weighted(self, pairs):
        tot = sum(w for _, w in pairs)
        r = self.below(tot)
        for x, w in pairs:
            if r < w:
                return x
            r -= w
        raise AssertionError

    def shuffle(self, xs):
        xs = list(xs)
        for i in range(len(xs) - 1, 0, -1):
            j = self.below(i + 1)
            xs[i], xs[j] = xs[j], xs[i]
        return xs

    def sample(self, xs, k):
        return self.shuffle(xs)[:k]

    def subset(self, xs, num=1, den=2):
        return [x for x in xs if self.chance(num, den)]


def seed_from_env() -> int:
    return int(os.environ.get("VERIF_SEED", "20250930"))


# ---------------------------------------------------------------------------------------------
# exact numbers and Coq literals
# ---------------------------------------------------------------------------------------------


def frac_of_float(x) -> Fraction | None:
    """Exact rational value of a float; None for NaN/inf/None."""
    if x is None:
        return None
    x = float(x)
    if math.isnan(x) or math.isinf(x):
        return None
    return Fraction(x)


def cz(n: int) -> str:
    n = int(n)
    return f"({n})%Z" if n < 0 else f"{n}%Z"


def cnat(n: int) -> str:
    assert 0 <= int(n) < 5000, n
    return f"{int(n)}%nat"


def cq(q) -> str:
    q = Fraction(q)
    return f"(Qmake ({q.numerator}) {q.denominator})"


def cbool(b) -> str:
    return "true" if b else "false"


def copt(x, f) -> str:
    return "None" if x is None else f"(Some {f(x)})"


def clist(xs, f) -> str:
    return "[" + "; ".join(f(x) for x in xs) + "]"


def cpair(a, b) -> str:
    return f"({a}, {b})"


def cstr(s: str) -> str:
    assert '"' not in s
    return f'"{s}"%string'


def fjson(q):
    """JSON form of an exact rational (kept as a string so nothing is rounded)."""
    if q is None:
        return None
    q = Fraction(q)
    return f"{q.numerator}/{q.denominator}"


def fparse(s):
    if s is None:
        return None
    return Fraction(s)


def digest(obj) -> str:
    return hashlib.sha256(json.dumps(obj, sort_keys=True, default=str).encode()).hexdigest()[:16]


# ---------------------------------------------------------------------------------------------
# Coq: build, assumptions, case shards
# ---------------------------------------------------------------------------------------------

COQ_ARGS = ["-Q", str(COQ), "LK"]
FORBIDDEN = re.compile(
    r"\b(Admitted|admit|Axiom|Axioms|Parameter|Parameters|Conjecture|Conjectures|Admit Obligations|"
    r"Unset Guard Checking|Unset Positivity Checking|Unset Universe Checking|bypass_check|"
    r"type-in-type|impredicative-set|native_compute)\b"
)


class BuildLock:
    def __enter__(self):
        self.f = open(COQ / ".build.lock", "w")
        fcntl.flock(self.f, fcntl.LOCK_EX)
        return self

    def __exit__(self, *a):
        fcntl.flock(self.f, fcntl.LOCK_UN)
        self.f.close()


def write_if_changed(path: Path, text: str) -> bool:
    path.parent.mkdir(parents=True, exist_ok=True)
    if path.exists() and path.read_text() == text:
        return False
    path.write_text(text)
    return True


def strip_coq_comments(text: str) -> str:
    out, depth, i = [], 0, 0
    while i < len(text):
        if text.startswith("(*", i):
            depth += 1
            i += 2
        elif text.startswith("*)", i) and depth:
            depth -= 1
            i += 2
        else:
            if not depth:
                out.append(text[i])
            i += 1
    return "".join(out)


def scan_forbidden(files) -> list[str]:
    bad = []
    for f in files:
        body = strip_coq_comments(Path(f).read_text())
        # string literals may legitimately mention words; drop them
        body = re.sub(r'"[^"]*"', '""', body)
        for m in FORBIDDEN.finditer(body):
            bad.append(f"{f}: {m.group(0)}")
        if re.search(r"^\s*(Variable|Variables|Hypothesis|Hypotheses|Context)\b", body, re.M):
            # allowed only inside a Section: check nesting textually
            depth = 0
            for line in body.splitlines():
                if re.match(r"\s*Section\b", line):
                    depth += 1
                elif re.match(r"\s*End\b", line) and depth:
                    depth -= 1
                elif re.match(r"\s*(Variable|Variables|Hypothesis|Hypotheses|Context)\b", line) and not depth:
                    bad.append(f"{f}: {line.strip()} outside a Section")
    return bad


def lk_closure(start: Path) -> list[Path]:
    """Files of the development that `start` depends on (through `From LK Require ...`), itself included."""
    seen, todo = {}, [Path(start)]
    while todo:
        f = todo.pop()
        if f in seen or not f.exists():
            continue
        seen[f] = True
        body = strip_coq_comments(f.read_text())
        for m in re.finditer(r"From\s+LK\s+Require\s+(?:Import\s+|Export\s+)?(.*?)\.(?=\s|$)", body, re.S):
            for name in m.group(1).split():
                todo.append(COQ / (name.replace(".", "/") + ".v"))
        for m in re.finditer(r"(?<!LK\s)Require\s+(?:Import\s+|Export\s+)?(.*?)\.(?=\s|$)", body, re.S):
            for name in m.group(1).split():
                if name.startswith("LK."):
                    todo.append(COQ / (name[3:].replace(".", "/") + ".v"))
    return sorted(seen)


def ensure_makefile():
    mk = COQ / "Makefile"
    proj = COQ / "_CoqProject"
    files = sorted(
        str(p.relative_to(COQ))
        for d in ("Lib", "Model", "Gen", "Proofs", "Props")
        for p in (COQ / d).glob("*.v")
    )
    text = "-Q . LK\n-arg -w -arg -notation-overridden,-deprecated-hint-without-locality,-deprecated-instance-without-locality\n" + "\n".join(files) + "\n"
    changed = write_if_changed(proj, text)
    if changed or not mk.exists():
        subprocess.run(
            ["coq_makefile", "-f", "_CoqProject", "-o", "Makefile"],
            cwd=COQ, check=True, capture_output=True,
        )


def make_targets(targets: list[str], timeout=1500) -> tuple[bool, str]:
    """Full .vo build of the given targets (and their dependency closure)."""
    with BuildLock():
        ensure_makefile()
        # memory cap per process: a runaway proof search must not take the machine (and the lock) with it
        cmd = ["bash", "-c", f"ulimit -v {MEM_KB}; exec timeout {timeout} make -j{NPROC} -C {COQ} " + " ".join(targets)]
        p = subprocess.run(cmd, capture_output=True, text=True)
        return p.returncode == 0, (p.stdout + p.stderr)[-6000:]


def print_assumptions(props_file: Path, timeout=600) -> tuple[bool, list[dict], str]:
    """Re-compile a Props file on its own and parse every `Print Assumptions` block."""
    with BuildLock():
        p = subprocess.run(
            ["timeout", str(timeout), "coqc"] + COQ_ARGS + [str(props_file)],
            capture_output=True, text=True, cwd=COQ,
        )
    out = p.stdout
    names = re.findall(r"Print Assumptions\s+([A-Za-z0-9_'.]+)\s*\.", strip_coq_comments(props_file.read_text()))
    blocks: list[dict] = []
    cur = None
    for line in out.splitlines():
        if line.startswith("Closed under the global context"):
            blocks.append({"closed": True, "axioms": []})
            cur = None
        elif line.startswith("Axioms:"):
            cur = {"closed": False, "axioms": []}
            blocks.append(cur)
        elif cur is not None:
            m = re.match(r"^([A-Za-z_][A-Za-z0-9_'.]*)\s*(:|$)", line)
            if m and not line.startswith(" "):
                cur["axioms"].append(m.group(1))
    for i, b in enumerate(blocks):
        b["theorem"] = names[i] if i < len(names) else f"#{i}"
    ok = p.returncode == 0 and len(blocks) == len(names)
    return ok, blocks, (p.stdout + p.stderr)[-4000:]


def coqchk(props_file: Path, timeout=1500) -> dict:
    """Independent re-check of the compiled property file and everything it depends on (thorough tier)."""
    mod = "LK." + str(Path(props_file).relative_to(COQ))[:-2].replace("/", ".")
    with BuildLock():
        p = subprocess.run(["timeout", str(timeout), "coqchk", "-o", "-silent", "-Q", str(COQ), "LK", mod],
                           capture_output=True, text=True, cwd=COQ)
    out = p.stdout + p.stderr
    m = re.search(r"\* Axioms:(.*?)\n\s*\n\* Constants/Inductives relying on type-in-type:(.*?)\n\s*\n\* Constants/Inductives relying on unsafe \(co\)fixpoints:(.*?)\n\s*\n\* Inductives whose positivity is assumed:(.*?)(\n\s*\n|$)", out, re.S)
    res = {"ok": p.returncode == 0 and m is not None, "module": mod}
    if m:
        clean = lambda t: [x.strip() for x in t.strip().splitlines() if x.strip() and x.strip() != "<none>"]
        res.update(axioms=clean(m.group(1)), type_in_type=clean(m.group(2)), unsafe_fix=clean(m.group(3)), positivity=clean(m.group(4)))
    else:
        res["tail"] = out[-800:]
    return res


def theorem_names(props_file: Path) -> list[str]:
    body = strip_coq_comments(props_file.read_text())
    return re.findall(r"^\s*(?:Theorem|Corollary)\s+([A-Za-z0-9_']+)", body, re.M)


def run_case_shards(pid: str, header: str, terms: list[str], shard=250, timeout=900, stack_unlimited=True):
    """Evaluate boolean Coq terms inside the assistant; return (failing indices, errors).

    Each term must be a closed Gallina term of type bool.  A shard prints only the list of
    failing case numbers, so nothing has to be parsed out of wrapped terms.
    """
    d = COQ / "cases" / pid
    d.mkdir(parents=True, exist_ok=True)
    for old in d.glob("*"):
        old.unlink()
    files = []
    for k in range(0, len(terms), shard):
        lines = [header, "From Coq Require Import List. Import ListNotations."]
        idx = []
        for j, t in enumerate(terms[k : k + shard]):
            lines.append(f"Definition case_{k + j} : bool := {t}.")
            idx.append(k + j)
        lines.append(
            "Definition failing : list nat := List.map fst (List.filter (fun p => negb (snd p)) ["
            + "; ".join(f"({i}%nat, case_{i})" for i in idx)
            + "])."
        )
        lines.append("Eval vm_compute in failing.")
        f = d / f"cases_{pid}_{k // shard}.v"
        f.write_text("\n".join(lines) + "\n")
        files.append((f, idx))

    def one(fi):
        f, idx = fi
        sh = f"ulimit -s unlimited 2>/dev/null; exec timeout {timeout} coqc -Q {COQ} LK {f}" if stack_unlimited else None
        p = subprocess.run(["bash", "-c", sh], capture_output=True, text=True, cwd=d)
        if p.returncode != 0:
            return None, f"{f.name}: coqc exit {p.returncode}: {(p.stderr or p.stdout)[-1500:]}"
        m = re.search(r"=\s*\[(.*?)\]\s*:\s*list nat", p.stdout, re.S)
        if not m:
            return None, f"{f.name}: unparsable output {p.stdout[-500:]}"
        return [int(x) for x in re.findall(r"\d+", m.group(1))], None

    failing, errors, retry = [], [], []
    with ThreadPoolExecutor(NPROC) as ex:
        for (fi, res) in zip(files, ex.map(one, files)):
            bad, err = res
            if err and re.search(r"coqc exit (-\d+|137|124)\b", err):
                retry.append(fi)       # killed (memory pressure from the other shards / other jobs) or timed out
            elif err:
                errors.append(err)
            else:
                failing.extend(bad)
    for fi in retry:                   # once more, one at a time
        bad, err = one(fi)
        if err:
            errors.append(err)
        else:
            failing.extend(bad)
    return sorted(failing), errors, len(files)


def coq_eval(header: str, term: str, timeout=300) -> str:
    """Evaluate one term with vm_compute and return Coq's printed output (for searches)."""
    d = COQ / "cases" / "_eval"
    d.mkdir(parents=True, exist_ok=True)
    f = d / f"eval_{os.getpid()}_{abs(hash(term)) % 10**8}.v"
    f.write_text(header + "\nEval vm_compute in (" + term + ").\n")
    p = subprocess.run(["timeout", str(timeout), "coqc"] + COQ_ARGS + [str(f)], capture_output=True, text=True, cwd=d)
    for g in d.glob(f.stem + ".*"):
        g.unlink()
    if p.returncode != 0:
        raise RuntimeError(p.stderr[-2000:])
    return p.stdout


# ---------------------------------------------------------------------------------------------
# known findings, violations, evidence
# ---------------------------------------------------------------------------------------------


def known_findings(pid: str) -> list[dict]:
    f = VERIF / "KNOWN_FINDINGS.txt"
    out = []
    if not f.exists():
        return out
    for line in f.read_text().splitlines():
        m = re.match(r"^finding:\s+property=(\S+)\s+key=(\S+)\s+(.*)$", line)
        if m and m.group(1) == pid:
            out.append({"key": m.group(2), "what": m.group(3)})
    return out


class Report:
    """Collects what a run saw; prints VIOLATION / KNOWN-FINDING lines; writes evidence."""

    def __init__(self, pid: str, tier: str, seed: int, level="proof"):
        self.pid, self.tier, self.seed, self.level = pid, tier, seed, level
        self.t0 = time.time()
        self.violations: list[dict] = []
        self.known_seen: dict[str, str] = {}
        self.coverage: dict = {}
        self.assumptions: list[str] = []
        self.known = {k["key"]: k["what"] for k in known_findings(pid)}

    def violation(self, key: str, what: str, replay: dict, no_input=False):
        """key: stable identifier of the failing input / call site (matched against KNOWN_FINDINGS)."""
        if key in self.known:
            self.known_seen[key] = self.known[key]
            return
        for v in self.violations:
            if v["key"] == key:
                return
        self.violations.append({"key": key, "what": what, "replay": replay, "no_input": no_input})

    def finish(self) -> int:
        rd = OUT / "replays"
        for k, what in self.known_seen.items():
            print(f"KNOWN-FINDING: property={self.pid} key={k} {what}")
        lines = []
        for v in self.violations:
            rd.mkdir(exist_ok=True)
            path = rd / f"{self.pid}-{digest([v['key'], v['replay']])}.json"
            path.write_text(json.dumps(
                {"property": self.pid, "key": v["key"], "what": v["what"], "seed": self.seed,
                 "tier": self.tier, "replay": v["replay"],
                 "how": f"./check {self.pid} --replay {path}"}, indent=1, default=str))
            tail = " no-failing-input-found" if v["no_input"] else ""
            lines.append(f"VIOLATION property={self.pid} replay={path}{tail}")
            print(f"# {self.pid} violation [{v['key']}]: {v['what']}")
        ev = {
            "property_id": self.pid,
            "tier": self.tier,
            "seed": self.seed,
            "level": self.level,
            "coverage": self.coverage,
            "assumptions": self.assumptions,
            "wall_s": round(time.time() - self.t0, 2),
            "violations": len(self.violations),
        }
        ev["coverage"]["known_findings_seen"] = sorted(self.known_seen)
        (OUT / "evidence").mkdir(exist_ok=True)
        (OUT / "evidence" / f"{self.pid}.json").write_text(json.dumps(ev, indent=1, default=str) + "\n")
        for l in lines:
            print(l)
        sys.stdout.flush()
        return 1 if self.violations else 0


def shrink_list(xs: list, still_fails, max_steps=200) -> list:
    """Greedy delta-debugging on a list: drop chunks while `still_fails` holds."""
    steps = 0
    n = 2
    xs = list(xs)
    while len(xs) >= 1 and steps < max_steps:
        chunk = max(1, len(xs) // n)
        reduced = False
        for i in range(0, len(xs), chunk):
            cand = xs[:i] + xs[i + chunk :]
            steps += 1
            if still_fails(cand):
                xs, n, reduced = cand, max(n - 1, 2), True
                break
            if steps >= max_steps:
                break
        if not reduced:
            if chunk == 1:
                break
            n = min(n * 2, len(xs))
    return xs
