"""C17 -- physical layout of the arrays handed to the builder (pure Python, no NumPy needed here).

A *layout* says where the logical elements sit in a base buffer, so that the same description can be
(a) turned into a real NumPy view / sliced Arrow array by the driver and (b) handed to the Coq model, which
decodes it with nd1 / nd_rows / arrow_slice / la_window (Model/C17_layout.v).

  1-D NumPy:  {"st": stride, "off": start, "L": base length, "junk": [L codes]}      element i = buf[off + i*st]
  2-D NumPy:  {"tr": transposed?, "R", "C": base shape (row-major), "r0", "rs", "c0", "cs", "junk": [R*C codes]}
              view = (base.T if tr else base)[r0::rs][:n][:, c0::cs][:, :d]
  Arrow:      {"lead": a, "trail": b, "split": k | None, "junk": [a + b items]}       array = full.slice(a, n)
"""

from __future__ import annotations


# --------------------------------------------------------------------------------------------- 1-D
def g_lay1(rng, n, junk):
    """layout of a 1-D NumPy array of n elements; `junk()` draws a filler element"""
    if n == 0:
        return {"st": 1, "off": 0, "L": 0, "junk": []}
    t = rng.weighted([("c", 5), ("step", 3), ("rev", 2), ("revstep", 1)])
    if t == "c":
        st, off, L = 1, 0, n
    elif t == "step":
        st = rng.choice([2, 2, 3])
        off = rng.below(st)
        L = off + (n - 1) * st + 1 + rng.below(st)
    elif t == "rev":
        st, off, L = -1, n - 1, n
    else:
        lead, trail = rng.below(2), rng.below(2)
        st, off = -2, lead + (n - 1) * 2
        L = off + 1 + trail
    return {"st": st, "off": off, "L": L, "junk": [junk() for _ in range(L)]}


def lay1_buf(lay, logical):
    buf = list(lay["junk"])
    for i, x in enumerate(logical):
        buf[lay["off"] + i * lay["st"]] = x
    return buf


def lay1_name(lay):
    if lay is None:
        return "plain"
    st = lay["st"]
    return "contiguous" if st == 1 else "reversed" if st == -1 else "strided" if st > 0 else "reversed-strided"


# --------------------------------------------------------------------------------------------- 2-D
def _axis(rng, k, kind):
    """(start, step, extent) such that start + i*step lies in [0, extent) for i < k"""
    if kind == "exact":
        return 0, 1, k
    if kind == "rev":
        return k - 1, -1, k
    if kind == "offset":                       # a contiguous window of a longer axis
        lead, trail = rng.below(2), rng.below(2)
        if lead + trail == 0:
            lead = 1
        return lead, 1, lead + k + trail
    step = rng.choice([2, 2, 3])
    start = rng.below(step)
    return start, step, start + (k - 1) * step + 1 + rng.below(step)


def g_lay2(rng, n, d, junk):
    """layout of an n x d NumPy matrix (n, d >= 1)"""
    t = rng.weighted([("C", 4), ("F", 5), ("mixed", 5)])
    if t == "C":
        tr, ra, ca = False, _axis(rng, n, "exact"), _axis(rng, d, "exact")
    elif t == "F":
        tr, ra, ca = True, _axis(rng, n, "exact"), _axis(rng, d, "exact")
    else:
        tr = rng.chance(1, 2)
        kinds = ["exact", "step", "rev", "offset"]
        ra, ca = _axis(rng, n, rng.choice(kinds)), _axis(rng, d, rng.choice(kinds))
    (r0, rs, rext), (c0, cs, cext) = ra, ca
    # the view's row axis runs over base columns when transposed
    R, C = (cext, rext) if tr else (rext, cext)
    return {"tr": tr, "R": R, "C": C, "r0": r0, "rs": rs, "c0": c0, "cs": cs, "junk": [junk() for _ in range(R * C)]}


def lay2_strides(lay):
    """(off, s0, s1) in elements: view[i, j] = buf[off + i*s0 + j*s1]"""
    C = lay["C"]
    if lay["tr"]:
        return lay["c0"] * C + lay["r0"], lay["rs"], lay["cs"] * C
    return lay["r0"] * C + lay["c0"], lay["rs"] * C, lay["cs"]


def lay2_buf(lay, rows):
    off, s0, s1 = lay2_strides(lay)
    buf = list(lay["junk"])
    for i, row in enumerate(rows):
        for j, x in enumerate(row):
            buf[off + i * s0 + j * s1] = x
    return buf


def lay2_name(lay, n, d):
    if lay is None:
        return "plain"
    off, s0, s1 = lay2_strides(lay)
    full = lay["R"] * lay["C"] == n * d
    if full and s1 == 1 and s0 == d:
        return "C-contiguous"
    if full and s0 == 1 and s1 == n:
        return "F-contiguous" + ("" if n > 1 and d > 1 else "-degenerate")
    return ("transposed-" if lay["tr"] else "") + ("reversed" if s0 < 0 or s1 < 0 else "strided")


# --------------------------------------------------------------------------------------------- Arrow
def g_alay(rng, n, junk, allow_split=True):
    """a sliced (non-zero offset / shorter than its buffers) and possibly chunked Arrow array"""
    t = rng.weighted([("plain", 4), ("sliced", 4), ("chunked", 2 if allow_split and n >= 2 else 0)])
    lead = trail = 0
    split = None
    if t == "sliced":
        lead, trail = rng.randint(0, 2), rng.randint(0, 2)
        if lead + trail == 0:
            lead = 1
    elif t == "chunked":
        split = rng.randint(1, n - 1)
        lead = rng.below(2)
    return {"lead": lead, "trail": trail, "split": split, "junk": [junk() for _ in range(lead + trail)]}


def alay_full(lay, logical):
    j = lay["junk"]
    return list(j[: lay["lead"]]) + list(logical) + list(j[lay["lead"]:])


def alay_name(lay):
    if lay is None:
        return "plain"
    if lay["split"] is not None:
        return "chunked"
    return "sliced" if lay["lead"] or lay["trail"] else "plain"


def raw_listarray(full):
    """raw (offsets, flattened values, null flags) of pa.array(full) for a list of lists / None"""
    offs, vals, nulls = [0], [], []
    for l in full:
        if l is not None:
            vals.extend(l)
        offs.append(len(vals))
        nulls.append(l is None)
    return offs, vals, nulls
