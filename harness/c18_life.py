"""C18 -- object LIFETIMES as a generated dimension of training histories.

"Training again on a different dataset yields a model equivalent to a freshly constructed component trained only on
that dataset - no identifiers, statistics or parameters from earlier training data survive" speaks about every
sequence of training calls, and a sequence of calls happens in a process in which objects come and go: the usual
evaluation loop builds one dataset per fold, trains on it, KEEPS the trained model and DROPS the dataset before the
next one is built.  CPython hands the freed blocks to the next objects of the same size, so a later dataset routinely
lives at the address of an earlier one.  Anything that remembers a training outside the component's own instance
dictionary (a module-level table, a memoising decorator, a table keyed by the identity of the data) is invisible to a
history in which every dataset stays alive, and shows up here.

One case = one loop of `folds` iterations over small datasets of similar size (regenerated from `data_seed`):

  reference pass   every fold: a new dataset object, a freshly constructed object trained on it; ALL datasets and all
                   models stay alive until the pass is over (no address is ever used twice), then everything is dropped
  lifetime pass    every fold: a new dataset object; a freshly constructed object AND one long-lived object (retrained on
                   every fold, retrain on) are trained on it; the models are kept according to `keep` (all / a sliding
                   window / only the long-lived one), the dataset is dropped according to `drop`, the collector runs
                   according to `collect`

and every object of the lifetime pass must equal the reference object of its fold: attribute digests, probe outputs and
the error outcome.  The driver records which folds' datasets were allocated at the address of a dropped earlier one
(`reused_from`): a case counts as non-trivial only if that really happened.
"""

from __future__ import annotations

import gc

import c18_lib as L
import common

CHEAP_FOLDS = (40, 80)
COSTLY_FOLDS = (16, 32)
PIPE_KINDS = ["bias", "iknn", "uknn", "als", "ials", "funk", "svd"]      # scorers the standard pipelines accept here
MAX_COQ_STEPS = 24


def gen_case(rng, kind: str, costly: bool) -> dict:
    lo, hi = COSTLY_FOLDS if costly else CHEAP_FOLDS
    cfg = L.gen_config(rng, kind)
    if costly and "epochs" in cfg:
        cfg["epochs"] = 1
    through = "component"
    if kind in PIPE_KINDS and rng.chance(1, 4):
        through = rng.choice(["topn-pred", "topn-transform"])
    return {"type": "life", "kind": kind, "cfg": cfg, "folds": rng.randint(lo, hi), "data_seed": rng.randint(1, 10**9),
            "small": rng.chance(2, 3), "seed": rng.randint(1, 10**6), "through": through, "n": -1,
            "keep": rng.weighted([("all", 3), ("window", 1), ("long-lived-only", 1)]), "window": rng.randint(2, 8),
            "drop": rng.weighted([("all", 3), ("all-but-every-4th", 1)]),
            "collect": rng.weighted([("each", 3), ("every-8th", 1), ("never", 1)])}


def fold_spec(case, f: int) -> dict:
    return L.gen_dataset(common.Rng(case["data_seed"]).fork(("fold", f)), f, small=case["small"])


def fold_probes(specs, f: int) -> dict:
    """Users and items of this fold's dataset and of the previous one (whose object is gone), and unseen ones."""
    cur, prev = specs[f], specs[f - 1] if f else specs[f]
    gone = sorted({r[0] for r in prev["rows"]} - {r[0] for r in cur["rows"]})
    users = sorted({r[0] for r in cur["rows"]})[:1] + (gone[:1] or [max(r[0] for r in cur["rows"]) + 50])
    items = sorted({r[1] for r in cur["rows"]} | {r[1] for r in prev["rows"]})
    return {"users": users, "items": items + [max(items) + 50], "history": [[items[0], 7], [items[-1], 4]]}


def _make(case, P):
    if case["through"] == "component":
        return L.make(case["kind"], case["cfg"])
    return P.build_pipe({"kind": case["kind"], "cfg": case["cfg"], "builder": case["through"], "n": case["n"]})


def _train(case, obj, ds, seed):
    import numpy as np
    try:
        if case["through"] == "component":
            L.train(obj, ds, True, seed)
        else:
            from lenskit.training import TrainingOptions
            np.random.seed(seed % 2**32)
            obj.train(ds, TrainingOptions(retrain=True, rng=seed))
        return None
    except Exception as e:   # both passes record the error outcome; they must agree
        return type(e).__name__


def _snap(case, obj, probes, err, P):
    if err is not None:
        return {"error": err}
    if case["through"] == "component":
        return {"store": L.store_of(obj), "probe": P._dz(tuple(P._probes(obj, case["kind"], probes)))}
    stores = {n: L.store_of(c) for n, c, t in P.pipe_components(obj) if t}
    return {"stores": stores, "probe": P._dz(tuple(P.pipe_outputs(obj, {"builder": case["through"], "probes": probes})))}


def run(case):
    import props.c18 as P
    L.setup()
    import warnings

    n = case["folds"]
    specs = [fold_spec(case, f) for f in range(n)]
    probes = [fold_probes(specs, f) for f in range(n)]
    seed = case["seed"]
    first = _make(case, P)
    if case["through"] == "component":
        obs = {"class": type(first).__name__, "variant": P.variant_label(first)}
    else:
        obs = {"components": [[nm, type(c).__name__, P.variant_label(c) if t else None, t] for nm, c, t in P.pipe_components(first)]}
    del first
    folds = []
    with warnings.catch_warnings():
        warnings.simplefilter("ignore")
        # reference pass: nothing is dropped while it runs
        alive = []
        for f in range(n):
            ds = L.build_dataset(specs[f])
            o = _make(case, P)
            err = _train(case, o, ds, seed + f)
            folds.append({"ref": _snap(case, o, probes[f], err, P)})
            alive.append((ds, o))
        del alive, ds, o
        gc.collect()
        # lifetime pass; what exists now is parked in the permanent generation so that collecting is cheap
        gc.freeze()
        try:
            long_lived = _make(case, P)
            kept, held = [], []
            freed = {}          # address -> fold of the dropped dataset that lived there last
            for f in range(n):
                ds = L.build_dataset(specs[f])
                addr = id(ds)
                folds[f]["reused_from"] = freed.get(addr)
                fresh = _make(case, P)
                e1 = _train(case, fresh, ds, seed + f)
                e2 = _train(case, long_lived, ds, seed + f)
                ref = folds[f]["ref"]
                s1 = _snap(case, fresh, probes[f], e1, P)
                s2 = _snap(case, long_lived, probes[f], e2, P)
                folds[f]["fresh"] = "=" if s1 == ref else s1
                folds[f]["long-lived"] = "=" if s2 == ref else s2
                if case["keep"] == "all":
                    kept.append(fresh)
                elif case["keep"] == "window":
                    kept.append(fresh)
                    del kept[:-case["window"]]
                if case["drop"] == "all-but-every-4th" and f % 4 == 3:
                    held.append(ds)
                else:
                    freed[addr] = f
                del ds, fresh
                if case["collect"] == "each" or (case["collect"] == "every-8th" and f % 8 == 7):
                    gc.collect()
            del kept, held, long_lived
        finally:
            gc.unfreeze()
            gc.collect()
    obs["folds"] = folds
    obs["reuses"] = sum(1 for r in folds if r.get("reused_from") is not None)
    return obs


ROLES = ["fresh", "long-lived"]


def _flat(s):
    if s is None or "error" in s:
        return {}
    if "store" in s:
        return {k: v for k, v in s["store"].items() if not k.startswith("_")}
    return {f"{n}.{k}": v for n, st in s["stores"].items() for k, v in st.items() if not k.startswith("_")}


def oracle(case, obs):
    v = []
    tag = case["kind"] if case["through"] == "component" else f"pipeline-{case['through']}-{case['kind']}"
    for role in ROLES:
        bad = [f for f, r in enumerate(obs["folds"]) if r.get(role, "=") != "="]
        if not bad:
            continue
        f = bad[0]
        r = obs["folds"][f]
        ref, got = r["ref"], r[role]
        where = (f"fold {f} of {len(obs['folds'])} (models kept: {case['keep']}, datasets dropped: {case['drop']}, collector: {case['collect']}; "
                 + (f"this fold's dataset object was allocated at the address of the dropped dataset of fold {r['reused_from']}"
                    if r.get("reused_from") is not None else "no address reuse recorded for this fold's dataset object")
                 + f"; {len(bad)} fold(s) differ)")
        what = "a freshly constructed object" if role == "fresh" else "the long-lived object retrained on every fold (retrain on)"
        if ("error" in ref) != ("error" in got):
            v.append((f"lifetimes-train-raises:{tag}:{role}",
                      f"{where}: training {what} {'raised ' + got['error'] if 'error' in got else 'returned normally'}, while the same training with every "
                      f"earlier dataset still alive {'raised ' + ref['error'] if 'error' in ref else 'returned normally'}"))
            continue
        if "error" in ref:
            continue            # both raise (possibly different errors): outside the property
        x, y = _flat(got), _flat(ref)
        attrs = sorted(a for a in set(x) | set(y) if x.get(a) != y.get(a))
        if attrs:
            v.append((f"lifetimes-stale-model:{tag}:{role}",
                      f"{where}: attributes {attrs} of {what} trained on this fold's data differ from the same object trained on equal data "
                      "while every earlier dataset was still alive"))
        if got.get("probe") != ref.get("probe"):
            v.append((f"lifetimes-scores-differ:{tag}:{role}",
                      f"{where}: the outputs of {what} differ from those of the same object trained on equal data while every earlier dataset was still alive"))
    return v


def nontrivial(case, obs):
    return obs["reuses"] >= 1 and any("error" not in r["ref"] for r in obs["folds"])


def counters(case, obs):
    yield "life-kind=" + case["kind"]
    yield "life-through=" + case["through"]
    yield "life-models-kept=" + case["keep"]
    yield "life-datasets-dropped=" + case["drop"]
    yield "life-collector=" + case["collect"]
    n = obs["reuses"]
    yield "life-datasets-at-a-recycled-address=" + ("0" if n == 0 else "1-9" if n < 10 else "10+")
    if any("error" in r["ref"] for r in obs["folds"]):
        yield "life-fold-rejected-by-training"


def sample(case, obs):
    return {"case": case, "observation": {**{k: v for k, v in obs.items() if k != "folds"},
                                          "folds": [{k: (v if k != "ref" else "...") for k, v in r.items()} for r in obs["folds"][:3]]}}


def shrink(case, fails):
    """The history up to the first fold that differs (the loop is deterministic up to what the allocator does)."""
    c = dict(case)
    for frac in (4, 2):
        k = max(2, case["folds"] // frac)
        if k < c["folds"] and fails({**c, "folds": k}):
            c = {**c, "folds": k}
            break
    return c


# ---------------------------------------------------------------------------------------------
# model side: the sampled folds as a lifetime history
# ---------------------------------------------------------------------------------------------


def _root(folds, f):
    seen = set()
    while folds[f].get("reused_from") is not None and f not in seen:
        seen.add(f)
        f = folds[f]["reused_from"]
    return f


def coq_steps(obs, name=None):
    """Folds for the model: (address class, reference store, observed store of the long-lived object, observed store of the
    fresh object); the folds that differ first, then evenly spaced ones."""
    folds = obs["folds"]

    def st(s):
        if s is None or "error" in s:
            return None
        return s["store"] if name is None else s["stores"].get(name)
    rows = []
    for f, r in enumerate(folds):
        ref = st(r["ref"])
        if ref is None:
            continue
        a = ref if r.get("fresh", "=") == "=" else st(r["fresh"])
        b = ref if r.get("long-lived", "=") == "=" else st(r["long-lived"])
        if a is None or b is None:
            continue
        rows.append((f, _root(folds, f), ref, b, a, a != ref or b != ref))
    bad = [x for x in rows if x[5]][:6]
    rest = [x for x in rows if x not in bad]
    room = MAX_COQ_STEPS - len(bad)
    step = max(1, len(rest) // max(1, room))
    pick = sorted(bad + rest[::step][:room], key=lambda x: x[0])
    return pick
