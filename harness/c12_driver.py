"""Pool driver for C12: runs in its own process (started by props/c12.py with subprocess + base_env).

lenskit's process pool uses the spawn context, which re-imports this module in every worker: all work is
under the __main__ guard, task functions live in c12_tasks.
usage: python c12_driver.py <spec.json> <out.json>
"""

from __future__ import annotations

import json
import os
import sys


OWN_SEGMENTS: list[str] = []


def watch_segments():
    """Record the names of the shared-memory segments this process's invokers create (other processes on the
    machine create segments of their own, so /dev/shm cannot simply be diffed)."""
    import lenskit.parallel.pool as P
    orig = P.shm_serialize

    def recording(obj, manager=None):
        data = orig(obj, manager)
        OWN_SEGMENTS.extend(s.name.lstrip("/") for s, _ in data.buffers if s is not None)
        return data
    P.shm_serialize = recording


def shm_names():
    "own segments that still exist"
    return sorted(n for n in OWN_SEGMENTS if os.path.exists(os.path.join("/dev/shm", n)))


def run_invoker(spec):
    import multiprocessing as mp

    import c12_tasks
    from lenskit.parallel import invoker
    model = c12_tasks.build_payload(spec["model"])
    watch_segments()
    out = {"maps": [], "exit": None}
    during = None
    exit_got, exit_err = [], None
    try:
        try:
            ctx = invoker(model, c12_tasks.task, n_jobs=spec["n_jobs"])
        except Exception as e:                      # the model could not be sent to the workers
            out["setup_error"] = type(e).__name__
            out["not_serialisable"] = c12_tasks.failing_leaves(spec["model"], model)
            out["after"] = {"children": len(mp.active_children()), "shm_left": shm_names(), "segments_created": len(OWN_SEGMENTS)}
            out["invoker"] = None
            return out
        with ctx as inv:
            out["invoker"] = type(inv).__name__
            for tasks in spec["maps"]:
                got, err = [], None
                try:
                    for r in inv.map(iter(tasks)):
                        got.append(r)
                except BaseException as e:          # incl. failures that are not Exception subclasses
                    err = type(e).__name__
                out["maps"].append({"results": got, "error": err})
            during = {"children": len(mp.active_children()), "shm": len(shm_names())}
            if spec.get("exit_map") is not None:
                # this failure is NOT caught inside the block: it unwinds through __exit__
                for r in inv.map(iter(spec["exit_map"])):
                    exit_got.append(r)
    except BaseException as e:
        exit_err = type(e).__name__
    # the state of the pool at the moment control is back with the caller
    out["after"] = {"children": len(mp.active_children()), "shm_left": shm_names(), "segments_created": len(OWN_SEGMENTS)}
    out["during"] = during
    if spec.get("exit_map") is not None:
        out["exit"] = {"results": exit_got, "error": exit_err}
    return out


def run_batch(spec):
    import multiprocessing as mp

    import c12_batch
    watch_segments()
    out = c12_batch.run(spec)
    out["after"] = {"children": len(mp.active_children()), "shm_left": shm_names(), "segments_created": len(OWN_SEGMENTS)}
    return out


if __name__ == "__main__":
    import logging
    import warnings
    warnings.filterwarnings("ignore")
    logging.disable(logging.CRITICAL)
    spec = json.load(open(sys.argv[1]))
    res = run_batch(spec) if spec["mode"] == "batch" else run_invoker(spec)
    json.dump(res, open(sys.argv[2], "w"), default=str)
