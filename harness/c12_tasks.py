"""Task functions and payload builders for the C12 pool drivers.

Importable by spawned workers (harness/ is on PYTHONPATH through common.base_env); nothing here runs at
import time.
"""

from __future__ import annotations

import hashlib
import os
import time


def _h(*parts) -> str:
    m = hashlib.sha256()
    for p in parts:
        m.update(p if isinstance(p, (bytes, bytearray, memoryview)) else repr(p).encode())
    return m.hexdigest()[:16]


def digest(obj) -> object:
    """Content hash of a payload tree, computed wherever it is called (inside the worker for pool runs).

    Arrays and tensors are hashed by their *logical* content (dtype, shape, elements in index order): the
    memory layout of what arrives may legitimately differ from what was sent (a strided view arrives as a
    compact copy), the elements may not."""
    import numpy as np
    import torch
    if isinstance(obj, dict):
        return {k: digest(v) for k, v in sorted(obj.items())}
    if isinstance(obj, (list, tuple)):
        return [digest(v) for v in obj]
    if isinstance(obj, np.ndarray):
        # values, not bytes: NumPy itself hands back a non-contiguous big-endian array in native byte order
        nat = obj.dtype.newbyteorder("=")
        return ["nd", nat.str if nat.names is None else str(nat), list(obj.shape), _h(obj.astype(nat, copy=False).tobytes(order="C"))]
    if isinstance(obj, torch.Tensor):
        if obj.layout == torch.sparse_coo:
            return ["coo", str(obj.dtype), list(obj.shape), bool(obj.is_coalesced()), digest(obj._indices().numpy()), _tdense(obj._values())]
        if obj.layout in (torch.sparse_csr, torch.sparse_bsr):
            return [str(obj.layout), str(obj.dtype), list(obj.shape), _tdense(obj.crow_indices()), _tdense(obj.col_indices()), _tdense(obj.values())]
        if obj.layout in (torch.sparse_csc, torch.sparse_bsc):
            return [str(obj.layout), str(obj.dtype), list(obj.shape), _tdense(obj.ccol_indices()), _tdense(obj.row_indices()), _tdense(obj.values())]
        return _tdense(obj)
    return ["py", repr(obj)]


def _tdense(t):
    import torch
    c = t.detach().contiguous()
    raw = c.view(torch.int16) if c.dtype == torch.bfloat16 else c
    return ["dense", str(t.dtype), list(t.shape), _h(raw.numpy().tobytes())]


# ---- payload leaves -------------------------------------------------------------------------------------
# An array leaf is {"kind": "nd", "dtype", "shape", "data" (one int per element, index order), "layout",
# "readonly"}: `layout` says how the array that holds these elements lies in memory.

ND_LAYOUTS = ["C", "F", "T", "perm", "step", "neg", "cols", "frows", "bcast"]


def _elements(vals, dt, shape):
    import numpy as np
    n = 1
    for d in shape:
        n *= d
    vals = list(vals)[:n] + [0] * max(0, n - len(vals))
    if dt.names is not None:
        a = np.array([tuple(v + j for j in range(len(dt.names))) for v in vals], dtype=dt)
    elif dt.kind in "US":
        a = np.array([str(v) for v in vals], dtype=object).astype(dt) if vals else np.zeros(0, dtype=dt)
    elif dt.kind == "c":
        a = (np.array(vals, dtype="float64") + 1j * np.array(vals[::-1], dtype="float64")).astype(dt)
    elif dt.kind == "b":
        a = np.array([v % 2 == 1 for v in vals], dtype=dt)
    elif dt.kind in "Mm":
        a = np.array(vals, dtype="int64").astype(dt)
    else:
        a = np.array(vals, dtype="int64").astype(dt)
    return a.reshape(shape)


def build_nd(spec):
    """The array with the given elements in the given memory layout (the logical content is the same for every
    layout except `bcast`, which repeats the first slice)."""
    import numpy as np
    dt = np.dtype(spec["dtype"]) if not isinstance(spec["dtype"], list) else np.dtype([tuple(f) for f in spec["dtype"]])
    shape = tuple(spec["shape"])
    base = _elements(spec["data"], dt, shape)
    lay = spec.get("layout", "C")
    nd = base.ndim
    if lay == "C" or nd == 0:
        a = base.copy()
    elif lay == "F":                                   # owns Fortran-ordered memory
        a = np.asfortranarray(base)
    elif lay == "T":                                   # a transposed view of a C-ordered array
        a = np.ascontiguousarray(base.T).T
    elif lay == "perm":                                # a view with permuted axes of a C-ordered array
        axes = list(spec.get("axes") or range(nd))
        inv = [axes.index(i) for i in range(nd)]
        a = np.ascontiguousarray(base.transpose(inv)).transpose(axes)
    elif lay == "step":                                # every second slice of a larger array
        big = np.zeros((2 * shape[0],) + shape[1:], dtype=dt)
        big[::2] = base
        a = big[::2]
    elif lay == "neg":                                 # negative stride
        a = np.ascontiguousarray(base[::-1])[::-1]
    elif lay == "cols":                                # inner columns of a wider array (1-d: a slice at an offset)
        big = np.zeros(shape[:-1] + (shape[-1] + 3,), dtype=dt)
        big[..., 2:-1] = base
        a = big[..., 2:-1]
    elif lay == "frows":                               # inner rows of a taller Fortran-ordered array
        big = np.zeros((shape[0] + 2,) + shape[1:], dtype=dt, order="F")
        big[1:-1] = base
        a = big[1:-1]
    elif lay == "bcast":                               # stride 0
        a = np.broadcast_to(base[:1].copy(), shape) if shape[0] else base.copy()
    else:
        raise ValueError(lay)
    if spec.get("readonly") and a.flags.writeable:
        a.setflags(write=False)
    return a


def nd_info(a):
    """What the Coq codec model needs to know about an array: how NumPy's own protocol-5 reduction (public
    `__reduce_ex__(5)`, the contract of the model) ships it -- out of band as the C-ordered memory of an
    axis permutation of it, or in band -- its item size, shape and elements (bytes, index order)."""
    red = a.__reduce_ex__(5)
    nd = a.ndim
    if getattr(red[0], "__name__", "") == "_frombuffer":
        order = red[1][3]
        if order == "C":
            p = list(range(nd))
        elif order == "F":
            p = list(range(nd))[::-1]
        elif order == "K" and len(red[1]) > 4 and red[1][4] is not None:
            p = [int(x) for x in red[1][4]]
        else:
            raise RuntimeError(f"unrecognised NumPy reduction order {order!r}")
        q = [p.index(i) for i in range(nd)]
        transport = ["oob", p, q]
    else:
        transport = ["inband"]
    raw = a.tobytes(order="C")
    k = a.itemsize
    return {"transport": transport, "isz": k, "shape": list(a.shape), "elems": [list(raw[i * k:(i + 1) * k]) for i in range(a.size)],
            "flags": "".join(c for c, f in (("C", a.flags.c_contiguous), ("F", a.flags.f_contiguous)) if f) or "-"}


def build_tensor(spec):
    import torch
    k = spec["kind"]
    dt = getattr(torch, spec.get("tdtype", "float32"))
    shape = list(spec["shape"])
    dense = torch.tensor(spec["data"], dtype=torch.float64).reshape(shape).to(dt)
    lay = spec.get("tlayout", "C")
    if k == "dense":
        if lay == "T" and dense.ndim == 2:
            return dense.t().contiguous().t()
        if lay == "step" and dense.ndim >= 1:
            big = torch.zeros([2 * shape[0]] + shape[1:], dtype=dt)
            big[::2] = dense
            return big[::2]
        if lay == "0d":
            return dense.reshape(-1)[0].clone()
        return dense
    if k == "coo":
        c = dense.to_sparse_coo()
        how = spec.get("coalesced", True)
        if how is True:
            return c
        idx, val = c.indices(), c.values()
        if how == "dup" and val.numel():                 # a repeated entry: not coalesced
            idx, val = torch.cat([idx, idx[:, :1]], 1), torch.cat([val, val[:1]])
        elif how == "unsorted":                          # entries in reverse order: not coalesced
            idx, val = idx.flip(1), val.flip(0)
        return torch.sparse_coo_tensor(idx, val, shape)
    if k == "csr":
        c = dense.to_sparse_csr()
        if spec.get("idx32"):
            c = torch.sparse_csr_tensor(c.crow_indices().int(), c.col_indices().int(), c.values(), shape)
        return c
    if k == "csc":
        c = dense.to_sparse_csc()
        if spec.get("idx32"):
            c = torch.sparse_csc_tensor(c.ccol_indices().int(), c.row_indices().int(), c.values(), shape)
        return c
    if k == "bsr":
        return dense.to_sparse_bsr((1, 1))
    if k == "bsc":
        return dense.to_sparse_bsc((1, 1))
    raise ValueError(k)


def build_payload(spec):
    """spec: nested lists/dicts with leaves {"kind": ..., ...} -> model object holding arrays and tensors."""
    if isinstance(spec, list):
        return [build_payload(s) for s in spec]
    k = spec.get("kind")
    if k is None:
        return {n: build_payload(s) for n, s in spec.items()}
    if k == "py":
        return spec["value"]
    if k == "nd":
        return build_nd(spec)
    if k == "fbits":
        return build_fbits(spec)
    return build_tensor(spec)


def leaf_class(spec) -> str:
    "the class of payload a leaf belongs to (part of the oracle key)"
    k = spec["kind"]
    if k == "nd":
        return "nd:" + ("0d" if not spec["shape"] else spec.get("layout", "C"))
    if k == "fbits":
        return f"fbits:{spec['lib']}:{spec['dtype']}"
    c = k
    if k == "coo" and spec.get("coalesced", True) is not True:
        c += ":uncoalesced"
    if spec.get("tlayout", "C") != "C":
        c += ":" + spec["tlayout"]
    return c


def changed_leaves(spec, want, got, path="model"):
    "[(path, class, wanted digest, digest that arrived)] for every leaf whose digest differs"
    if isinstance(spec, list):
        if not isinstance(got, list) or len(got) != len(spec):
            return [(path, "container", None, None)]
        return [d for j, s in enumerate(spec) for d in changed_leaves(s, want[j], got[j], f"{path}[{j}]")]
    if spec.get("kind") is None:
        if not isinstance(got, dict) or sorted(got) != sorted(spec):
            return [(path, "container", None, None)]
        return [d for n, s in sorted(spec.items()) for d in changed_leaves(s, want[n], got[n], f"{path}.{n}")]
    return [] if want == got else [(path, leaf_class(spec), want, got)]


def failing_leaves(spec, obj, path="model"):
    "[(path, class)] of the leaves that cannot be serialised on their own (names the payload when a whole model fails)"
    from lenskit.parallel.serialize import shm_serialize
    if isinstance(spec, list):
        return [x for j, sp in enumerate(spec) for x in failing_leaves(sp, obj[j], f"{path}[{j}]")]
    if spec.get("kind") is None:
        return [x for n, sp in sorted(spec.items()) for x in failing_leaves(sp, obj[n], f"{path}.{n}")]
    data = None
    try:
        data = shm_serialize(obj)
        return []
    except Exception:
        return [(path, leaf_class(spec))]
    finally:
        for shm, _n in (data.buffers if data is not None else []):
            if shm is not None:
                shm.close()
                shm.unlink()


# ---- floating-point leaves given bit by bit, and arithmetic on them ------------------------------------------
# {"kind": "fbits", "lib": "np" | "torch", "dtype": "float32" | "float64", "bits": [...]}: a vector whose elements are
# the given bit patterns (subnormal numbers, the largest finite numbers, signed zeros, NaNs with a payload ...).

UINT = {"float64": "uint64", "float32": "uint32"}


def build_fbits(spec):
    import numpy as np
    a = np.array(spec["bits"], dtype=UINT[spec["dtype"]]).view(spec["dtype"]).copy()
    if spec["lib"] == "torch":
        import torch
        return torch.from_numpy(a).clone()
    return a


NUM_KEY = {("np", "float64"): "a64", ("np", "float32"): "a32", ("torch", "float64"): "t64", ("torch", "float32"): "t32", ("py", "float64"): "a64"}


def _from_bits(bits, dtype):
    import numpy as np
    return np.array(bits, dtype=UINT[dtype]).view(dtype).copy()


def _to_bits(v):
    "bit patterns of a NumPy array / scalar, a tensor, or a list of Python floats; with the dtype they have"
    import numpy as np
    if isinstance(v, (list, float)):
        v = np.array(v, dtype="float64")
    elif not isinstance(v, (np.ndarray, np.generic)):
        v = v.detach().contiguous().numpy()
    v = np.ascontiguousarray(v).reshape(-1)
    return [str(v.dtype), [int(b) for b in v.view(UINT[str(v.dtype)]).tolist()]]


def calc(model, c):
    """The value of one small floating-point computation, bit by bit.

    c = {"lib": "py" | "np" | "torch", "dtype", "src": "model" | "task", "xs": bits (src task), "sel": indices (src model),
         "steps": [[op, operand bits or None], ...]}.  The operand vector comes from the model (model["num"][...]) or from
    the task; each step is applied to the value of the one before.  Every operation is either correctly rounded
    element by element (mul, add, sub, div, sqrt, cast32) or -- sum, dot -- generated over values whose exact sum is
    representable (integer multiples of one power of two), so the value does not depend on the order of the additions:
    it is a function of (model, task) alone unless the numeric environment of the process differs."""
    import math
    import struct

    import numpy as np
    lib, dt = c["lib"], c["dtype"]
    try:
        if c["src"] == "model":
            a = model["num"][NUM_KEY[lib, dt]]
            a = a[list(c["sel"])]
        else:
            a = _from_bits(c["xs"], dt)
            if lib == "torch":
                import torch
                a = torch.from_numpy(a)
        if lib == "py":
            v = [float(x) for x in a.tolist()]
            for op, cb in c["steps"]:
                k = None if cb is None else [float(x) for x in _from_bits(cb, "float64").tolist()]
                vec = isinstance(v, list)
                xs = v if vec else [v]
                ks = None if k is None else (k if len(k) == len(xs) else k * len(xs))
                if op == "mul":
                    r = [x * y for x, y in zip(xs, ks)]
                elif op == "add":
                    r = [x + y for x, y in zip(xs, ks)]
                elif op == "sub":
                    r = [x - y for x, y in zip(xs, ks)]
                elif op == "div":
                    r = [x / y for x, y in zip(xs, ks)]
                elif op == "sqrt":
                    r = [math.sqrt(x) if x >= 0 else math.nan for x in xs]
                elif op == "cast32":
                    r = [struct.unpack("f", struct.pack("f", x))[0] for x in xs]
                elif op == "sum":
                    r, vec = sum(xs, 0.0), False
                elif op == "dot":
                    r, vec = sum((x * y for x, y in zip(xs, ks)), 0.0), False
                else:
                    raise ValueError(op)
                v = r if vec or not isinstance(r, list) else r[0]
            return _to_bits(v)
        with np.errstate(all="ignore"):
            v = a
            for op, cb in c["steps"]:
                k = None
                if cb is not None:
                    kdt = str(v.dtype).replace("torch.", "")
                    k = _from_bits(cb, kdt)
                    if lib == "torch":
                        import torch
                        k = torch.from_numpy(k)
                    if len(cb) == 1 and op != "dot":
                        k = k[0]
                if op == "mul":
                    v = v * k
                elif op == "add":
                    v = v + k
                elif op == "sub":
                    v = v - k
                elif op == "div":
                    v = v / k
                elif op == "sqrt":
                    v = np.sqrt(v) if lib == "np" else v.sqrt()
                elif op == "cast32":
                    v = v.astype("float32") if lib == "np" else v.float()
                elif op == "sum":
                    v = v.sum()
                elif op == "dot":
                    v = np.dot(v, k) if lib == "np" else v.dot(k)
                else:
                    raise ValueError(op)
            return _to_bits(v)
    except Exception as e:                      # ZeroDivisionError / OverflowError of Python floats: part of the value
        return ["error", type(e).__name__]


def calcs_of(model, arg):
    return [calc(model, c) for c in arg.get("calc") or []]


FLAYOUT = {"float64": (52, 11), "float32": (23, 8)}       # (fraction bits, exponent bits)


def is_nan_bits(dtype, b) -> bool:
    m, e = FLAYOUT[dtype]
    return (b >> m) & ((1 << e) - 1) == (1 << e) - 1 and b & ((1 << m) - 1) != 0


def canon_num(num):
    """The VALUE of a list of computed results (what `calc` returned), for comparison between two evaluations.

    A NaN that comes out of an arithmetic operation is a NaN: which operand's payload (and sign) an operation with two
    NaN operands -- or an invalid operation -- hands back is not a function of the operands under IEEE 754; on x86 it is
    the first *machine* operand's, and which Python operand that is depends on the code path (CPython's generic
    `float_add` and its specialised `BINARY_OP_ADD_FLOAT` differ, so the first evaluation in a fresh process and a later
    one in the same process disagree; vector and scalar tails of a SIMD loop may as well).  Every computed NaN is therefore
    replaced by the token "nan"; every other result keeps its exact bit pattern (subnormal numbers, signed zeros,
    infinities, the last bit of every rounding).  TRANSPORTED values (the model's leaves, `digest`) are not touched: a NaN
    of the model must arrive with its payload."""
    out = []
    for r in num or []:
        if isinstance(r, list) and len(r) == 2 and r[0] in FLAYOUT:
            out.append([r[0], ["nan" if is_nan_bits(r[0], b) else b for b in r[1]]])
        else:
            out.append(r)
    return out


class TaskFailure(Exception):
    pass


class HardStop(BaseException):
    "a SystemExit-like failure: not an Exception subclass"


FAILURES = {"TaskFailure": TaskFailure, "StopIteration": StopIteration, "KeyError": KeyError, "ValueError": ValueError,
            "HardStop": HardStop}


def task(model, arg):
    """f(model, x): identifies the task, the process, the time span, and what the model looks like here."""
    t0 = time.time()
    if arg.get("delay_ms"):
        time.sleep(arg["delay_ms"] / 1000.0)
    if arg.get("fail"):
        exc = FAILURES[arg["fail"] if isinstance(arg["fail"], str) else "TaskFailure"]
        raise exc(f"task {arg['id']} failed")
    if arg.get("kill"):
        os._exit(3)                      # the worker process dies without reporting
    return {"id": arg["id"], "x2": arg["x"] * 2 + model["k"], "digest": digest(model), "num": calcs_of(model, arg), "pid": os.getpid(), "t0": t0,
            "t1": time.time()}


def value_of(model, arg, model_digest):
    "the result fields that do not depend on where/when the task ran"
    return {"id": arg["id"], "x2": arg["x"] * 2 + model["k"], "digest": model_digest, "num": calcs_of(model, arg)}
