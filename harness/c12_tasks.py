"""Task functions and payload builders for the C12 pool drivers.

Importable by spawned workers (harness/ is on PYTHONPATH through common.base_env); nothing here runs at
import time.
"""

from __future__ import annotations

import hashlib
import os
import time


def _h(*parts) -> str:
    m = hashlib.sha256()
    for p in parts:
        m.update(p if isinstance(p, (bytes, bytearray, memoryview)) else repr(p).encode())
    return m.hexdigest()[:16]


def digest(obj) -> object:
    """Content hash of a payload tree, computed wherever it is called (inside the worker for pool runs)."""
    import numpy as np
    import torch
    if isinstance(obj, dict):
        return {k: digest(v) for k, v in sorted(obj.items())}
    if isinstance(obj, (list, tuple)):
        return [digest(v) for v in obj]
    if isinstance(obj, np.ndarray):
        return ["nd", str(obj.dtype), list(obj.shape), _h(np.ascontiguousarray(obj).tobytes())]
    if isinstance(obj, torch.Tensor):
        if obj.layout == torch.sparse_coo:
            o = obj.coalesce() if obj.is_coalesced() else obj
            return ["coo", list(obj.shape), digest(o._indices().numpy()), digest(o._values().numpy())]
        if obj.layout == torch.sparse_csr:
            return ["csr", list(obj.shape), digest(obj.crow_indices().numpy()), digest(obj.col_indices().numpy()), digest(obj.values().numpy())]
        if obj.layout == torch.sparse_csc:
            return ["csc", list(obj.shape), digest(obj.ccol_indices().numpy()), digest(obj.row_indices().numpy()), digest(obj.values().numpy())]
        return ["dense", str(obj.dtype), list(obj.shape), _h(obj.contiguous().numpy().tobytes())]
    return ["py", repr(obj)]


def build_payload(spec):
    """spec: nested lists/dicts with leaves {"kind": ..., ...} -> model object holding arrays and tensors."""
    import numpy as np
    import torch
    if isinstance(spec, list):
        return [build_payload(s) for s in spec]
    k = spec.get("kind")
    if k is None:
        return {n: build_payload(s) for n, s in spec.items()}
    if k == "py":
        return spec["value"]
    if k == "nd":
        a = np.array(spec["data"], dtype=np.dtype(spec["dtype"]))
        return a.reshape(spec["shape"])
    dense = torch.tensor(spec["data"], dtype=getattr(torch, spec.get("tdtype", "float32"))).reshape(spec["shape"])
    if k == "dense":
        return dense
    if k == "coo":
        return dense.to_sparse_coo()
    if k == "csr":
        return dense.to_sparse_csr()
    if k == "csc":
        return dense.to_sparse_csc()
    raise ValueError(k)


class TaskFailure(Exception):
    pass


class HardStop(BaseException):
    "a SystemExit-like failure: not an Exception subclass"


FAILURES = {"TaskFailure": TaskFailure, "StopIteration": StopIteration, "KeyError": KeyError, "ValueError": ValueError,
            "HardStop": HardStop}


def task(model, arg):
    """f(model, x): identifies the task, the process, the time span, and what the model looks like here."""
    t0 = time.time()
    if arg.get("delay_ms"):
        time.sleep(arg["delay_ms"] / 1000.0)
    if arg.get("fail"):
        exc = FAILURES[arg["fail"] if isinstance(arg["fail"], str) else "TaskFailure"]
        raise exc(f"task {arg['id']} failed")
    if arg.get("kill"):
        os._exit(3)                      # the worker process dies without reporting
    return {"id": arg["id"], "x2": arg["x"] * 2 + model["k"], "digest": digest(model), "pid": os.getpid(), "t0": t0, "t1": time.time()}


def value_of(model, arg, model_digest):
    "the result fields that do not depend on where/when the task ran"
    return {"id": arg["id"], "x2": arg["x"] * 2 + model["k"], "digest": model_digest}
