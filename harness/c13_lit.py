"""C13 -- literal values as a generated dimension.

Three things live here, importable both by the generator (harness/props/c13.py) and by the worker
processes (this module is on PYTHONPATH of every harness process, so the ``c13_lit:describe`` codes of a
configuration resolve in a fresh interpreter, and pickled instances of the classes below can be loaded):

* a JSON-able *encoding* of arbitrary Python literal values (tuples, dicts with non-string keys, NumPy
  arrays and scalars, sets, bytes, non-finite floats, instances of subclasses of the basic types ...)
  with `pyval` (encoding -> value);
* `canon(v)`: a deterministic rendering of a value that shows the TYPE of every part as well as its
  value (so a tuple and the equal list, 1 and True and 1.0 and numpy.int64(1), 0.0 and -0.0, a dict
  with key 1 and a dict with key "1" are all told apart), independent of the process;
* components whose results depend on the type as well as the value of what they are given.
"""

from __future__ import annotations

import enum
from collections import OrderedDict

# --- classes whose instances are literal values ----------------------------------------------------


class StrS(str):
    "a proper subclass of str"


class IntE(enum.IntEnum):
    "a proper subclass of int"

    ONE = 1
    TWO = 2
    SEVEN = 7


# --- encoding <-> value ------------------------------------------------------------------------------

TAGS = ("__tuple__", "__token__", "__float__", "__idict__", "__np__", "__nps__", "__set__", "__frozenset__", "__bytes__",
        "__odict__", "__strs__", "__inte__")


def tag_of(e):
    if isinstance(e, dict) and len(e) == 1:
        k = next(iter(e))
        if k in TAGS:
            return k
    return None


def pyval(e):
    "the Python value an encoded literal stands for"
    t = tag_of(e)
    if t is None:
        if isinstance(e, dict):
            return {k: pyval(x) for k, x in e.items()}
        if isinstance(e, list):
            return [pyval(x) for x in e]
        return e
    x = e[t]
    if t == "__tuple__":
        return tuple(pyval(y) for y in x)
    if t == "__token__":
        import vcomp
        return vcomp.Token(x)
    if t == "__float__":
        return float(x)
    if t == "__idict__":
        return {pyval(k): pyval(v) for k, v in x}
    if t == "__odict__":
        return OrderedDict((pyval(k), pyval(v)) for k, v in x)
    if t == "__np__":
        import numpy as np
        return np.array(pyval(x[1]), dtype=x[0])
    if t == "__nps__":
        import numpy as np
        return np.dtype(x[0]).type(pyval(x[1]))
    if t == "__set__":
        return set(pyval(y) for y in x)
    if t == "__frozenset__":
        return frozenset(pyval(y) for y in x)
    if t == "__bytes__":
        return bytes.fromhex(x)
    if t == "__strs__":
        return StrS(x)
    if t == "__inte__":
        return IntE(x)
    raise AssertionError(t)


def canon(v) -> str:
    "type-and-value rendering, the same text in every process"
    t = type(v)
    if v is None:
        return "None"
    if t in (bool, int, float, str, bytes, complex):
        return f"{t.__name__}:{v!r}"
    if t in (list, tuple):
        return t.__name__ + "[" + ",".join(canon(x) for x in v) + "]"
    if isinstance(v, dict):
        return t.__name__ + "{" + ",".join(canon(k) + "=>" + canon(x) for k, x in v.items()) + "}"
    if isinstance(v, (set, frozenset)):
        return t.__name__ + "{" + ",".join(sorted(canon(x) for x in v)) + "}"
    mod = getattr(t, "__module__", "")
    if mod == "numpy":
        import numpy as np
        if isinstance(v, np.ndarray):
            return f"ndarray:{v.dtype}:{list(v.shape)}:{canon(v.tolist())}"
        if isinstance(v, np.generic):
            return f"numpy.{t.__name__}:{canon(v.item())}"
    if hasattr(v, "v") and t.__name__ in ("Token", "Inner"):
        return f"{t.__qualname__}({canon(v.v)})"
    for base in (bool, int, float, str, list, tuple):
        if isinstance(v, base):
            return f"{t.__qualname__}<{canon(base(v))}>"
    return f"<{t.__qualname__}>"


# --- what the Coq model is told about a value (harness/props/c13.py renders it) -------------------------


def exact_json(e) -> bool:
    "does the encoded literal consist of exactly the basic JSON types (finite floats, string keys)?"
    if tag_of(e) is not None:
        return False
    if isinstance(e, dict):
        return all(exact_json(x) for x in e.values())
    if isinstance(e, list):
        return all(exact_json(x) for x in e)
    return True


# --- siblings: the "same" value with another type somewhere ----------------------------------------------


def siblings(e):
    """encoded literals a careless serialisation could confuse with `e` (each differs from it in canon())"""
    t = tag_of(e)
    out = []
    if t is None:
        if isinstance(e, bool):
            out += [int(e), float(e), {"__nps__": ["bool", e]}]
        elif isinstance(e, int):
            if e in (0, 1):
                out.append(bool(e))
            if abs(e) < 2 ** 53:
                out += [float(e), {"__nps__": ["float64", float(e)]}]
            if abs(e) < 2 ** 31:
                out.append({"__nps__": ["int64", e]})
            if e in (1, 2, 7):
                out.append({"__inte__": e})
            out.append(str(e))
        elif isinstance(e, float):
            out += [{"__nps__": ["float64", e]}]
            if e == 0.0:
                out.append(-e)
            if e == int(e) and abs(e) < 2 ** 53:
                out.append(int(e))
        elif isinstance(e, str):
            out.append({"__strs__": e})
        elif isinstance(e, list):
            out.append({"__tuple__": e})
            if e and all(isinstance(x, int) and not isinstance(x, bool) and abs(x) < 2 ** 31 for x in e):
                out += [{"__np__": ["int64", e]}, {"__set__": e}]
            if e and all(isinstance(x, float) for x in e):
                out.append({"__np__": ["float64", e]})
            for i, x in enumerate(e):
                out += [e[:i] + [s] + e[i + 1:] for s in siblings(x)[:2]]
        elif isinstance(e, dict):
            out.append({"__odict__": [[k, v] for k, v in e.items()]})
            if e and all(k.lstrip("-").isdigit() and str(int(k)) == k for k in e):
                out.append({"__idict__": [[int(k), v] for k, v in e.items()]})
            for k, x in e.items():
                out += [{**e, k: s} for s in siblings(x)[:2]]
        elif e is None:
            out += ["None", {"__float__": "nan"}]
    elif t == "__tuple__":
        out.append(list(e[t]))
        for i, x in enumerate(e[t]):
            out += [{"__tuple__": e[t][:i] + [s] + e[t][i + 1:]} for s in siblings(x)[:2]]
    elif t == "__idict__":
        kv = e[t]
        if all(isinstance(k, int) and not isinstance(k, bool) for k, _ in kv):
            out.append({str(k): v for k, v in kv})
            out.append({"__idict__": [[float(k), v] for k, v in kv]})
        if all(isinstance(k, bool) for k, _ in kv):
            out.append({"__idict__": [[int(k), v] for k, v in kv]})
    elif t == "__np__":
        dt, data = e[t]
        out.append(data)
        if dt == "int64":
            out += [{"__np__": ["int32", data]}, {"__np__": ["float64", data]}]
        elif dt == "float64":
            out.append({"__np__": ["float32", data]})
    elif t == "__nps__":
        dt, x = e[t]
        out.append(x)
        if dt == "float64":
            out.append({"__nps__": ["float32", x]})
        if dt == "int64":
            out.append({"__nps__": ["int32", x]})
    elif t == "__set__":
        out += [{"__frozenset__": e[t]}, list(e[t])]
    elif t == "__frozenset__":
        out += [{"__set__": e[t]}, {"__tuple__": list(e[t])}]
    elif t == "__float__":
        out += [None, {"__nps__": ["float64", e]}]
    elif t == "__bytes__":
        out.append(bytes.fromhex(e[t]).decode("latin-1"))
    elif t == "__odict__":
        if all(isinstance(k, str) for k, _ in e[t]):
            out.append({k: v for k, v in e[t]})
    elif t == "__strs__":
        out.append(e[t])
    elif t == "__inte__":
        out.append(e[t])
    return out


# --- components whose results depend on the type as well as the value of their inputs ------------------------


def describe(v) -> str:
    return canon(v)


def describe2(a, b) -> str:
    return canon(a) + " | " + canon(b)


def lookup(table, key) -> str:
    "a mapping literal used with the key it was written with"
    if not isinstance(table, dict):
        raise TypeError("lookup: table is a " + type(table).__name__)
    if key in table:
        return "hit:" + canon(table[key])
    return "miss:" + canon(sorted(canon(k) for k in table))


def extend(xs, x) -> str:
    "a sequence literal used the way its type allows: tuple + tuple, list + list"
    if isinstance(xs, tuple):
        return canon(xs + (x,))
    if isinstance(xs, list):
        return canon(xs + [x])
    if isinstance(xs, (set, frozenset)):
        return canon(xs | {x})
    raise TypeError("extend: xs is a " + type(xs).__name__)


def total(xs) -> str:
    "arithmetic on a literal: the result type follows the literal's type"
    if isinstance(xs, (list, tuple, set, frozenset)):
        r = 0
        for x in xs:
            if isinstance(x, (bool, int, float)) or type(x).__module__ == "numpy":
                r = r + x
        return canon(r)
    if isinstance(xs, dict):
        return canon(len(xs))
    if xs is None or isinstance(xs, (str, bytes)):
        return canon(xs)
    try:
        return canon(xs + xs)
    except TypeError:
        return canon(xs)
