"""Assemble MANIFEST.json from manifest.d/*.json fragments (one per property)."""
import json
from pathlib import Path

V = Path(__file__).resolve().parent.parent
base = json.loads((V / "manifest.d" / "_base.json").read_text())
checks, na = [], []
for f in sorted((V / "manifest.d").glob("C*.json")):
    d = json.loads(f.read_text())
    if "not_applicable" in d:
        na.append({"property_id": d["property_id"], "reason": d["not_applicable"]})
        continue
    pid = d["property_id"]
    d.setdefault("quick_cmd", f"./check {pid} --tier quick")
    d.setdefault("thorough_cmd", f"./check {pid} --tier thorough")
    d.setdefault("evidence_file", f"/verif/evidence/{pid}.json")
    d.setdefault("replay_cmd_template", f"./check {pid} --replay {{path}}")
    d.setdefault("engine", "coq-lk")
    checks.append(d)
base["checks"] = checks
base["not_applicable"] = na
(V / "MANIFEST.json").write_text(json.dumps(base, indent=1) + "\n")
print(f"{len(checks)} checks, {len(na)} not applicable")
