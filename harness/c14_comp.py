"""Plain callable objects for the pipeline histories of C14: component KINDS that are neither functions nor `Component`
subclasses.  A pipeline configuration records only their class (``module:qualname``); `clone()` / `from_config` rebuild them
with no arguments.  Like `vcomp`, this module is importable from every harness process (the harness directory is on the path)."""

from __future__ import annotations

from vcomp import M, _i


class Plain:
    "callable object with state given by the caller; not trainable"

    def __init__(self, k=0):
        self.k = k

    def __call__(self, x: int) -> int:
        return (_i(x) + 1000 + 7 * self.k) % M


class PlainLearner:
    """callable object that satisfies the Trainable protocol (it has train()): Pipeline.train trains it; it remembers
    what it was trained on and its result depends on that"""

    def __init__(self, bias=0):
        self.bias = bias
        self.trained_on = None
        self.n_items = 0

    def train(self, data, options=None):
        self.trained_on = data.name
        self.n_items = data.item_count

    def __call__(self, x: int) -> int:
        return (_i(x) + self.bias + 1000 * self.n_items + _i(self.trained_on)) % M
