"""C10 -- drives the real lenskit matrix-factorisation trainers and canonicalises what they did.

Imported by harness/props/c10.py; lenskit itself is imported lazily (setup(), after common.use_repo()).  Nothing here knows about the Coq model.
Observation hooks are installed from outside (no source hooks):
  * ALS: the instance attribute `als_half_epoch` is wrapped to snapshot both factor matrices around
    every half-step and `new_user_embedding` to record the folded-in embedding; while they exist,
    `lenskit.als._explicit._train_bias_row_cholesky` (module global) and the instance method
    `_train_new_row` are wrapped to record the row a fold-in used.  Trained state is read back through
    public attributes only (`user_features_`, `item_features_`, `bias_`); private caches are not read.
  * FunkSVD: `lenskit.funksvd.Context` is wrapped to record the sample arrays handed to the trainer.
The way the seed reaches a training is part of the case (`seed_route`, see `rng_input` / `Seeded`): in the options as an
integer, an integer sequence, a SeedSequence, a Generator or a BitGenerator, or NOT in the options at all, with a
generator installed through `lenskit.random.set_global_rng` right before `train()`.  The process-wide generator is
put back as it was as soon as `train()` returns, so no other case sees it.
A case may carry a training history (`case["trainings"]`): all its trainings run on ONE scorer object,
each followed by its own queries; the observation of the j-th later training is `obs["later"][j-1]`.
"""

from __future__ import annotations

from fractions import Fraction

import common
from common import fjson, fparse, frac_of_float

_ready = False


def setup():
    global _ready, np, pd, torch, DatasetBuilder, ItemList, RecQuery, TrainingOptions
    global BiasedMFScorer, ImplicitMFScorer, FunkSVDScorer, ex_mod, fsvd_mod, lk_random
    if _ready:
        return
    common.use_repo()
    import numpy as np
    import pandas as pd
    import torch
    from lenskit.als import BiasedMFScorer, ImplicitMFScorer
    from lenskit.data import DatasetBuilder, ItemList, RecQuery
    from lenskit.funksvd import FunkSVDScorer
    from lenskit.training import TrainingOptions
    import lenskit.als._explicit as ex_mod
    import lenskit.funksvd as fsvd_mod
    import lenskit.random as lk_random

    torch.set_num_threads(1)
    _ready = True


def num(x):
    return fjson(frac_of_float(x))


def mat(t):
    return [[num(x) for x in row] for row in t.tolist()]


def vecj(t):
    return [num(x) for x in t.tolist()]


def build_dataset(case):
    dsb = DatasetBuilder()
    dsb.add_entities("user", list(case["users"]))
    dsb.add_entities("item", list(case["items"]))
    df = pd.DataFrame(
        {
            "user_id": [r[0] for r in case["ratings"]],
            "item_id": [r[1] for r in case["ratings"]],
            "rating": np.array([float(fparse(r[2])) for r in case["ratings"]],
                               dtype=np.float32 if case.get("rating_dtype", "f32") == "f32" else np.float64),
        }
    )
    dsb.add_interactions("rating", df, entities=["user", "item"], missing="error", default=True)
    return dsb.build()


def csr_rows(m):
    crow = m.crow_indices().tolist()
    col = m.col_indices().tolist()
    val = m.values().tolist()
    return [[[col[j], num(val[j])] for j in range(crow[i], crow[i + 1])] for i in range(m.shape[0])]


def reg_arg(case):
    r = case["reg"]
    if isinstance(r, list):
        return {"user": float(fparse(r[0])), "item": float(fparse(r[1]))}
    return float(fparse(r))


def damping_arg(case):
    d = case["damping"]
    if isinstance(d, dict):
        return {k: float(fparse(v)) for k, v in d.items()}
    return float(fparse(d))


def bias_obs(b):
    return {
        "global": num(b.global_bias),
        "item": None if b.item_biases is None else [num(x) for x in b.item_biases.tolist()],
        "user": None if b.user_biases is None else [num(x) for x in b.user_biases.tolist()],
    }


def make_query(q):
    hist = None
    if q["history"] is not None:
        ids = [h[0] for h in q["history"]]
        # the rating column of a history is single precision unless the query says otherwise (`hist_dtype`)
        rs = np.array([float(fparse(h[1])) for h in q["history"]],
                      dtype=np.float64 if q.get("hist_dtype") == "f64" else np.float32)
        hist = ItemList(item_ids=np.array(ids, dtype=np.int64), rating=rs)
    return RecQuery(user_id=q["user"], user_items=hist)


def scores_obs(res, cand):
    ids = res.ids().tolist()
    sc = res.scores()
    return {"ids": ids, "scores": [None if s is None else num(s) for s in (sc.tolist() if sc is not None else [None] * len(ids))]}


def err_kind(e):
    if isinstance(e, KeyError):
        return "EKey"
    if "cholesky solve failed" in str(e):
        return "ESolve"
    if isinstance(e, AssertionError):
        return "EAssert"
    if isinstance(e, (ValueError, TypeError)):
        return "E" + type(e).__name__
    return "E:" + type(e).__name__


def phase_cases(case):
    """The trainings run one after the other on ONE scorer object: the case itself, then each entry of
    case["trainings"] (its dataset, seed, retrain flag and queries; the configuration stays that of the object)."""
    base = {k: v for k, v in case.items() if k != "trainings"}
    out = [base]
    for t in case.get("trainings") or []:
        out.append({**base, **t})
    return out


SEED_FORMS = ("int", "list", "seedseq", "generator", "bitgen")


def seed_route(pc):
    """(where, form): where the seed is put ("options": TrainingOptions(rng=...); "global": nothing in the options, a
    generator installed with lenskit.random.set_global_rng beforehand) and in which representation"""
    r = pc.get("seed_route") or "int"
    where, form = ("global", r[len("global-"):]) if r.startswith("global-") else ("options", r)
    assert form in SEED_FORMS, r
    return where, form


def rng_input(pc):
    """A NEW seed-like / generator-like value for the training's seed in the representation the case asks for; equal
    calls give equal sources (a Generator / BitGenerator is stateful: every use gets its own)."""
    s = pc["seed"]
    form = seed_route(pc)[1]
    if form == "int":
        return s
    if form == "list":
        return [s & 0xFFFF, s >> 16, 20]
    if form == "seedseq":
        return np.random.SeedSequence(s)
    if form == "generator":
        return np.random.default_rng(s)
    return np.random.PCG64(s)


def seed_generator(pc):
    """A generator equal to the one the training draws from: SPEC 7 -- `numpy.random.default_rng` of the seed source --
    whether the source sits in the options or was installed process-wide."""
    return np.random.default_rng(rng_input(pc))


class Seeded:
    """`with Seeded(pc) as options: model.train(ds, options)`: the seed of `pc` handed over by the route of `pc`.  For the
    process-wide route the previously installed generator is put back afterwards (through the module attribute when it
    exists; otherwise a fresh-entropy generator is installed, which is what "nothing installed" means to callers)."""

    def __init__(self, pc):
        self.pc = pc
        self.where = seed_route(pc)[0]

    def __enter__(self):
        retrain = self.pc.get("retrain", True)
        if self.where == "options":
            return TrainingOptions(rng=rng_input(self.pc), retrain=retrain)
        self.had = hasattr(lk_random, "_global_rng")
        self.saved = getattr(lk_random, "_global_rng", None)
        lk_random.set_global_rng(rng_input(self.pc))
        return TrainingOptions(retrain=retrain)

    def __exit__(self, *exc):
        if self.where == "global":
            if self.had:
                lk_random._global_rng = self.saved
            else:
                lk_random.set_global_rng(None)
        return False


def run_als(case):
    """Only public behaviour is read back: the dataset's vocabularies, `user_features_` / `item_features_` / `bias_`, the
    arguments of the public hook `als_half_epoch(epoch, TrainContext)`, the result of `new_user_embedding`, the scores.
    Private caches (e.g. the implicit fold-in matrix) are NOT read: the fold-in system is rebuilt from the trained
    item embeddings and the configuration by the model and the oracle.  The two private row solvers are wrapped only to
    see which (item number, value) pairs a fold-in used; if a refactoring removes them the observation has no `folds`."""
    setup()
    explicit = case["kind"] == "als-explicit"
    kw = dict(embedding_size=case["k"], epochs=case["epochs"], regularization=reg_arg(case),
              user_embeddings=case["user_embeddings"])
    if explicit:
        m = BiasedMFScorer(damping=damping_arg(case), **kw)
    else:
        m = ImplicitMFScorer(weight=float(fparse(case["weight"])), use_ratings=case["use_ratings"], **kw)
    rec = {"steps": [], "mats": {}, "regs": {}}
    orig = m.als_half_epoch

    def wrap(epoch, ctx):
        before, other = ctx.left.clone(), ctx.right.clone()
        r = orig(epoch, ctx)
        rec["steps"].append({"side": ctx.label, "before": mat(before), "other": mat(other), "after": mat(ctx.left.clone())})
        if ctx.label not in rec["mats"]:
            rec["mats"][ctx.label] = csr_rows(ctx.matrix)
            rec["regs"][ctx.label] = num(ctx.reg)
        return r

    m.als_half_epoch = wrap

    folds, embeds = [], []
    restore = None
    if explicit:
        saved = getattr(ex_mod, "_train_bias_row_cholesky", None)
        if saved is not None:
            def rec_fold(items, ratings, *a, **k):
                x = saved(items, ratings, *a, **k)
                folds.append({"nums": items.tolist(), "vals": vecj(ratings), "x": vecj(x), "vals_dtype": str(ratings.dtype)})
                return x

            ex_mod._train_bias_row_cholesky = rec_fold
            restore = lambda: setattr(ex_mod, "_train_bias_row_cholesky", saved)
    else:
        saved_new = getattr(m, "_train_new_row", None)
        if saved_new is not None:
            def rec_new(items, ratings, *a, **k):
                x = saved_new(items, ratings, *a, **k)
                folds.append({"nums": items.tolist(), "vals": vecj(ratings), "x": vecj(x), "vals_dtype": str(ratings.dtype)})
                return x

            m._train_new_row = rec_new
    orig_nue = m.new_user_embedding

    def rec_nue(user_num, items):
        u, off = orig_nue(user_num, items)
        embeds.append({"u": vecj(u), "offset": None if off is None else num(off)})
        return u, off

    m.new_user_embedding = rec_nue

    out = []
    try:
        for pc in phase_cases(case):
            o = als_phase(m, pc, rec, explicit, folds, embeds)
            out.append(o)
            if o["error"]:
                break       # the object is in no defined state after a failed training
    finally:
        if restore:
            restore()
    obs = out[0]
    if len(out) > 1 or case.get("trainings"):
        obs["later"] = out[1:]
    return obs


def als_phase(m, pc, rec, explicit, folds, embeds):
    ds = build_dataset(pc)
    rec["steps"], rec["mats"], rec["regs"] = [], {}, {}
    obs = {"users": ds.users.ids().tolist(), "items": ds.items.ids().tolist()}
    try:
        with Seeded(pc) as options:
            m.train(ds, options)
    except Exception as e:  # the linear solver may fail (no ridge); anything else is reported by the oracle
        obs["error"] = err_kind(e)
        obs["msg"] = str(e)[:120]
        obs["steps_done"] = len(rec["steps"])
        return obs
    obs["error"] = None
    obs["steps"] = rec["steps"]
    obs["matrix"] = rec["mats"]
    obs["ctx_reg"] = rec["regs"]
    obs["P"] = None if m.user_features_ is None else mat(m.user_features_)
    obs["Q"] = mat(m.item_features_)
    obs["dtype"] = str(m.item_features_.dtype)
    if explicit:
        obs["bias"] = bias_obs(m.bias_)

    # fold-in / scoring
    qobs = []
    for q in pc["queries"]:
        folds.clear()
        embeds.clear()
        cand = ItemList(item_ids=np.array(q["items"], dtype=np.int64))
        try:
            res = m(make_query(q), cand)
            o = scores_obs(res, q["items"])
            o["error"] = None
        except Exception as e:
            o = {"error": err_kind(e), "msg": str(e)[:120]}
        o["folds"] = [dict(f) for f in folds]
        o["embeds"] = [dict(e) for e in embeds]
        qobs.append(o)
    obs["queries"] = qobs
    return obs


def hexf(x):
    return float(x).hex()


def make_funksvd(case):
    rngv = case["range"]
    return FunkSVDScorer(
        features=case["k"], epochs=case["epochs"], learning_rate=float(fparse(case["lrate"])),
        regularization=float(fparse(case["reg"])), damping=damping_arg(case),
        range=None if rngv is None else (float(fparse(rngv[0])), float(fparse(rngv[1]))),
    )


def run_funksvd(case):
    setup()
    m = make_funksvd(case)
    out = []
    for pc in phase_cases(case):
        o = funksvd_phase(m, pc)
        out.append(o)
        if o["error"]:
            break
    obs = out[0]
    if len(out) > 1 or case.get("trainings"):
        obs["later"] = out[1:]
    return obs


def funksvd_phase(m, pc):
    ds = build_dataset(pc)
    captured = {}
    Ctx = fsvd_mod.Context

    def rec_ctx(users, items, ratings, bias):
        captured.update(users=users.tolist(), items=items.tolist(), ratings=[hexf(x) for x in ratings.tolist()],
                        bias=[hexf(x) for x in bias.tolist()],
                        dtypes=[str(users.dtype), str(items.dtype), str(ratings.dtype), str(bias.dtype)])
        return Ctx(users, items, ratings, bias)

    fsvd_mod.Context = rec_ctx
    obs = {"users": ds.users.ids().tolist(), "items": ds.items.ids().tolist()}
    try:
        with Seeded(pc) as options:
            m.train(ds, options)
    except Exception as e:
        obs["error"] = err_kind(e)
        obs["msg"] = str(e)[:120]
        return obs
    finally:
        fsvd_mod.Context = Ctx
    obs["error"] = None
    obs["ctx"] = captured or None          # None: this call of train() did not run the trainer
    obs["P"] = [[hexf(x) for x in row] for row in m.user_features_.tolist()]
    obs["Q"] = [[hexf(x) for x in row] for row in m.item_features_.tolist()]
    obs["bias"] = bias_obs(m.bias_)
    # the seeded sample order, recomputed from the same source: the shuffle of 0..n-1 drawn from a generator equal to
    # the one the training was given (in the options, or installed process-wide); the COO matrix in its stored order
    coo = ds.interaction_matrix(format="pandas", layout="coo", field="rating")
    shuf = np.arange(len(coo), dtype=np.int_)
    seed_generator(pc).shuffle(shuf)
    stored = {
        "users": np.asarray(coo["user_num"]).tolist(), "items": np.asarray(coo["item_num"]).tolist(),
        "ratings": [hexf(x) for x in np.asarray(coo["rating"], dtype=np.float64).tolist()],
    }
    obs["stored"] = stored
    obs["order"] = shuf.tolist()
    coo = coo.iloc[shuf, :]
    obs["expected_order"] = {
        "users": np.asarray(coo["user_num"]).tolist(), "items": np.asarray(coo["item_num"]).tolist(),
        "ratings": [hexf(x) for x in np.asarray(coo["rating"], dtype=np.float64).tolist()],
    }
    # a second training from an equal seed source, on a new object of the same configuration
    if captured:
        m2 = make_funksvd(pc)
        try:
            with Seeded(pc) as options:
                m2.train(ds, options)
            obs["twin"] = {"error": None, "P": [[hexf(x) for x in row] for row in m2.user_features_.tolist()],
                           "Q": [[hexf(x) for x in row] for row in m2.item_features_.tolist()]}
        except Exception as e:
            obs["twin"] = {"error": err_kind(e), "msg": str(e)[:120]}
    qobs = []
    for q in pc["queries"]:
        cand = ItemList(item_ids=np.array(q["items"], dtype=np.int64))
        try:
            res = m(make_query(q), cand)
            o = scores_obs(res, q["items"])
            o["error"] = None
        except Exception as e:
            o = {"error": err_kind(e), "msg": str(e)[:120]}
        qobs.append(o)
    obs["queries"] = qobs
    return obs
