"""Regenerate every generated model from the source tree, then build the whole development."""
import importlib
import pkgutil
import sys

import common
import framework
import props


def main():
    rc = 0
    for m in sorted(pkgutil.iter_modules(props.__path__), key=lambda m: m.name):
        mod = importlib.import_module("props." + m.name)
        rep = common.Report(mod.PID, "quick", 0)
        broken = framework.regenerate(mod, rep)
        for b in broken:
            print(f"[setup] {mod.PID}: {b}")
    ok, log = common.make_targets(["all"], timeout=3000)
    if not ok:
        # a property whose generated model no longer matches its proofs must not stop the others:
        # build per property and report
        print(log[-3000:])
        for m in sorted(pkgutil.iter_modules(props.__path__), key=lambda m: m.name):
            mod = importlib.import_module("props." + m.name)
            ok1, log1 = common.make_targets([mod.PROPS_FILE[:-2] + ".vo"])
            print(f"[setup] {mod.PID}: {'ok' if ok1 else 'BROKEN'}")
        rc = 0  # checks themselves report broken obligations
    print("[setup] done")
    return rc


if __name__ == "__main__":
    sys.exit(main())
