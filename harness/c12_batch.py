"""Batch side of the C12 drivers: build a small dataset and pipeline from a spec, run
lenskit.batch.{recommend,score,predict} (one operation) or a BatchPipelineRunner with several invocations
in the given order, and the single-query operations.

Used in-process by props/c12.py for n_jobs=1 and by c12_driver.py (own process) for pools.
"""

from __future__ import annotations

from lenskit.basic.bias import BiasScorer
from lenskit.data import ItemList, QueryInput, RecQuery
from lenskit.knn import ItemKNNScorer


class QueryFailure(Exception):
    pass


FAILURES = {"QueryFailure": QueryFailure, "StopIteration": StopIteration, "KeyError": KeyError}


class FailingBias(BiasScorer):
    "a scorer that fails for one user (importable, so that it can be rebuilt in pool workers)"
    fail_user = None
    fail_exc = "QueryFailure"

    def __call__(self, query: QueryInput, items: ItemList) -> ItemList:
        if RecQuery.create(query).user_id == self.fail_user:
            raise FAILURES[self.fail_exc](f"no scores for user {self.fail_user}")
        return super().__call__(query, items)


class FailingKNN(ItemKNNScorer):
    fail_user = None
    fail_exc = "QueryFailure"

    def __call__(self, query: QueryInput, items: ItemList) -> ItemList:
        if RecQuery.create(query).user_id == self.fail_user:
            raise FAILURES[self.fail_exc](f"no scores for user {self.fail_user}")
        return super().__call__(query, items)


ONAME = {"recommend": "recommendations", "score": "scores", "predict": "predictions"}


def canon_il(il):
    import numpy as np
    if il is None:
        return None
    sc = il.scores()
    bits = None
    if sc is not None:
        # scores are COMPUTED results: compared bit by bit (subnormal numbers, signed zeros, last bits), except that a NaN
        # score is a NaN whatever its payload / sign (which one an operation on NaNs returns depends on the code path, see
        # c12_tasks.canon_num)
        s32 = np.asarray(sc, dtype=np.float32)
        bits = ["nan" if nan else int(b) for b, nan in zip(s32.view(np.uint32).tolist(), np.isnan(s32).tolist())]
    return {"ids": [int(x) for x in il.ids().tolist()], "scores": bits, "ordered": bool(il.ordered)}


def ops_of(spec):
    return spec.get("ops") or [spec["op"]]


def build(spec):
    import numpy as np
    import pandas as pd
    from lenskit.basic.popularity import PopScorer
    from lenskit.data import from_interactions_df
    from lenskit.pipeline import predict_pipeline, topn_pipeline
    df = pd.DataFrame(spec["ratings"], columns=["user_id", "item_id", "rating"])
    # the magnitude of the ratings is a dimension of its own: with rating_exp = -135 every rating, mean and offset is a subnormal
    # single-precision number (scores are handed out in single precision)
    df["rating"] = df["rating"].astype(np.float64) / 2 * 2.0 ** int(spec.get("rating_exp") or 0)
    ds = from_interactions_df(df)
    if spec.get("fail_user") is not None:
        scorer = FailingKNN(k=3, min_nbrs=1) if spec["scorer"] == "iknn" else FailingBias(damping=2)
        scorer.fail_user = spec["fail_user"]
        scorer.fail_exc = spec.get("fail_exc") or "QueryFailure"
    else:
        scorer = {"pop": lambda: PopScorer(), "bias": lambda: BiasScorer(damping=2), "iknn": lambda: ItemKNNScorer(k=3, min_nbrs=1)}[spec["scorer"]]()
    ops = ops_of(spec)
    kw = {} if spec.get("pipe_n") is None else {"n": spec["pipe_n"]}
    if ops == ["predict"]:
        pipe = predict_pipeline(scorer)
    elif len(ops) == 1:
        pipe = topn_pipeline(scorer, **kw)
    else:
        pipe = topn_pipeline(scorer, predicts_ratings=True, **kw)        # recommender, scorer and rating-predictor
    pipe.train(ds)
    return ds, pipe


def test_input(spec):
    """keys -> the batch functions' test argument"""
    import numpy as np
    from lenskit.data import ItemListCollection
    form = spec["form"]
    keys = spec["keys"]
    if form == "ids":
        return [k[0] for k in keys]
    if form == "dict":
        return {k[0]: ItemList(item_ids=np.array(items, dtype=np.int64)) for k, items in zip(keys, spec["items"])}
    c = ItemListCollection(spec["key_fields"])
    for k, items in zip(keys, spec["items"]):
        c.add(ItemList(item_ids=np.array(items, dtype=np.int64)), *k)
    return c


def _collection(res):
    return {"key_fields": list(res.key_fields), "keys": [[int(v) for v in k] for k in res.keys()], "lists": [canon_il(il) for il in res.lists()]}


def params_of(spec):
    """The parameters of the batch call and the same parameters for the single-query operation.
    via: 'helper' (batch.recommend / score / predict) or 'runner' (BatchPipelineRunner used directly; always for several invocations);
    n: the list length as given (None, 0, 1, small, larger than the catalogue, negative); n_given=False: no n at all (runner only);
    cands: candidate items given as the recommend invocation's `items` input (runner only; the helper has no such parameter)."""
    import numpy as np
    ops = ops_of(spec)
    via = "runner" if len(ops) > 1 else (spec.get("via") or "helper")
    n = spec.get("n")
    rkw, skw = {}, {}
    if via == "helper" or spec.get("n_given", True):
        rkw["n"] = n
        skw["n"] = n
    if via == "runner" and spec.get("cands") is not None:
        rkw["items"] = ItemList(item_ids=np.array(spec["cands"], dtype=np.int64))
        skw["items"] = ItemList(item_ids=np.array(spec["cands"], dtype=np.int64))
    return via, n, rkw, skw


def run(spec):
    import numpy as np
    from lenskit import batch
    from lenskit.batch import BatchPipelineRunner
    from lenskit.operations import predict, recommend, score
    ds, pipe = build(spec)
    test = test_input(spec)
    ops = ops_of(spec)
    out = {"error": None, "outputs": []}
    via, n, rkw, skw = params_of(spec)
    try:
        if via == "helper":
            # the module-level convenience functions, with the parameters as given (n by position or by keyword)
            op = ops[0]
            if op == "recommend":
                if spec.get("n_kw"):
                    res = batch.recommend(pipe, test, n=n, n_jobs=spec["n_jobs"])
                else:
                    res = batch.recommend(pipe, test, n, n_jobs=spec["n_jobs"])
            elif op == "score":
                res = batch.score(pipe, test, n_jobs=spec["n_jobs"])
            else:
                res = batch.predict(pipe, test, n_jobs=spec["n_jobs"])
            out["outputs"] = [[ONAME[op], _collection(res)]]
        else:
            # a BatchPipelineRunner invoked directly: one or several invocations in the given order
            runner = BatchPipelineRunner(n_jobs=spec["n_jobs"])
            for op in ops:
                okw = {"output": spec["onames"][op]} if (spec.get("onames") or {}).get(op) else {}      # the name the results are filed under
                if op == "recommend":
                    runner.recommend(**okw, **rkw)
                elif op == "score":
                    runner.score(**okw)
                else:
                    runner.predict(**okw)
            results = runner.run(pipe, test)
            out["outputs"] = [[name, _collection(results.output(name))] for name in results.outputs]
    except BaseException as e:
        out["error"] = type(e).__name__
        out["msg"] = str(e)[:200]
    # the corresponding single-query operation for each key in turn
    single = {}
    uidx = spec["key_fields"].index("user_id") if "user_id" in spec["key_fields"] else None
    for op in ops:
        rows = []
        for k, items in zip(spec["keys"], spec.get("items") or [None] * len(spec["keys"])):
            try:
                q = k[uidx] if uidx is not None else None
                il = None if items is None else ItemList(item_ids=np.array(items, dtype=np.int64))
                if op == "recommend":
                    r = recommend(pipe, q, **skw)          # the same parameters, given to the single-query operation
                elif op == "score":
                    r = score(pipe, q, il)
                else:
                    r = predict(pipe, q, il)
                rows.append(canon_il(r))
            except BaseException as e:
                rows.append({"error": type(e).__name__})
        single[ONAME[op]] = rows
    out["single"] = single
    return out
