"""Shared pieces of the C18 / C11 drivers: small datasets, the catalogue of trainable components,
canonical digests of learned state, probe queries.  Imports lenskit lazily (after common.use_repo())."""

from __future__ import annotations

import hashlib
import pickle
from fractions import Fraction

import common

_ready = False


def setup(limit_threads=True):
    global _ready, np, pd, torch, sps, pa
    if _ready:
        return
    import os
    os.environ.setdefault("TQDM_DISABLE", "1")      # implicit's progress bars
    common.use_repo()
    import logging

    import structlog
    structlog.configure(wrapper_class=structlog.make_filtering_bound_logger(logging.CRITICAL))
    import numpy as np
    import pandas as pd
    import pyarrow as pa
    import scipy.sparse as sps
    import torch

    if limit_threads:
        torch.set_num_threads(1)
    _ready = True


# ---------------------------------------------------------------------------------------------
# datasets: JSON spec -> lenskit Dataset
# ---------------------------------------------------------------------------------------------


def gen_dataset(rng, tag: int, small=False):
    """A dataset spec.  Users/items are drawn from shifted id ranges so that consecutive datasets of a
    history share only part of their vocabularies and differ in size."""
    nu = rng.randint(3, 6) if small else rng.randint(4, 11)
    ni = rng.randint(4, 7) if small else rng.randint(5, 13)
    uoff = rng.choice([0, 0, 3, 6, 20])
    ioff = rng.choice([100, 100, 104, 109, 130])
    dens = rng.choice([2, 3, 4])  # out of 6
    rows = []
    for u in range(nu):
        picked = [i for i in range(ni) if rng.chance(dens, 6)]
        if not picked:
            picked = [rng.below(ni)]
        for i in picked:
            rows.append([uoff + u, ioff + i, rng.randint(1, 10), 1_000_000 + rng.below(2_000_000)])
    # every item of the range that nobody rated is simply absent from the vocabulary
    return {"tag": tag, "rows": rows, "timestamps": rng.chance(3, 4)}


_ds_cache: dict = {}


def dataset(spec):
    setup()
    key = common.digest(spec)
    if key in _ds_cache:
        return _ds_cache[key]
    ds = build_dataset(spec)
    if len(_ds_cache) > 64:
        _ds_cache.clear()
    _ds_cache[key] = ds
    return ds


def build_dataset(spec):
    """A NEW Dataset object for the spec, referenced by nobody but the caller (drivers that vary object lifetimes drop it)."""
    setup()
    from lenskit.data import from_interactions_df

    df = pd.DataFrame({
        "user_id": np.array([r[0] for r in spec["rows"]], dtype=np.int64),
        "item_id": np.array([r[1] for r in spec["rows"]], dtype=np.int64),
        "rating": np.array([r[2] / 2.0 for r in spec["rows"]], dtype=np.float64),
    })
    if spec.get("string_ids"):      # identifiers as text (their hash differs between interpreter processes)
        df["user_id"] = ["u%d" % u for u in df["user_id"]]
        df["item_id"] = ["i%d" % i for i in df["item_id"]]
    if spec.get("timestamps", True):
        df["timestamp"] = np.array([r[3] for r in spec["rows"]], dtype=np.int64)
    if spec.get("implicit"):
        df = df.drop(columns=["rating"])
    return from_interactions_df(df)


# ---------------------------------------------------------------------------------------------
# components
# ---------------------------------------------------------------------------------------------

# kind -> (module, class, how it is called)
KINDS = {
    "bias": ("lenskit.basic.bias", "BiasScorer", "scorer"),
    "pop": ("lenskit.basic.popularity", "PopScorer", "items"),
    "tbpop": ("lenskit.basic.popularity", "TimeBoundedPopScore", "items"),
    "cand_all": ("lenskit.basic.candidates", "AllTrainingItemsCandidateSelector", "none"),
    "cand_unrated": ("lenskit.basic.candidates", "UnratedTrainingItemsCandidateSelector", "query"),
    "history": ("lenskit.basic.history", "UserTrainingHistoryLookup", "lookup"),
    "known": ("lenskit.basic.history", "KnownRatingScorer", "scorer"),
    "iknn": ("lenskit.knn.item", "ItemKNNScorer", "scorer"),
    "uknn": ("lenskit.knn.user", "UserKNNScorer", "scorer"),
    "als": ("lenskit.als", "BiasedMFScorer", "scorer"),
    "ials": ("lenskit.als", "ImplicitMFScorer", "scorer"),
    "funk": ("lenskit.funksvd", "FunkSVDScorer", "scorer"),
    "svd": ("lenskit.sklearn.svd", "BiasedSVDScorer", "scorer"),
    "flexe": ("lenskit.flexmf", "FlexMFExplicitScorer", "scorer"),
    "flexi": ("lenskit.flexmf", "FlexMFImplicitScorer", "scorer"),
    "impals": ("lenskit.implicit", "ALS", "scorer"),
    "impbpr": ("lenskit.implicit", "BPR", "scorer"),
}


def gen_config(rng, kind: str) -> dict:
    c = rng.choice
    if kind == "bias":
        return {"damping": c([0, 2, 5]), "entities": c([["user", "item"], ["item"], ["user"]])}
    if kind == "pop":
        return {"score": c(["quantile", "rank", "count"])}
    if kind == "tbpop":
        return {"score": c(["quantile", "rank", "count"]), "cutoff": c(["1970-01-20T00:00:00Z", "1970-01-30T00:00:00Z"])}
    if kind in ("cand_all", "cand_unrated", "history"):
        return {}
    if kind == "known":
        return {"score": c([None, "rating", "indicator"]), "source": c(["training", "training", "query"])}
    if kind == "iknn":
        return {"max_nbrs": c([2, 5]), "min_sim": c([1e-6, 0.1]), "feedback": c(["explicit", "implicit"]),
                "save_nbrs": c([None, 3]), "block_size": c([250, 2])}
    if kind == "uknn":
        return {"max_nbrs": c([2, 5]), "min_sim": c([1e-6, 0.1]), "feedback": c(["explicit", "implicit"])}
    if kind == "als":
        return {"embedding_size": c([2, 3]), "epochs": c([1, 2, 3]), "user_embeddings": c([True, True, False, "prefer"]),
                "damping": c([0, 5])}
    if kind == "ials":
        return {"embedding_size": c([2, 3]), "epochs": c([1, 2]), "user_embeddings": c([True, True, False, "prefer"]),
                "use_ratings": c([False, True])}
    if kind == "funk":
        return {"features": c([2, 3]), "epochs": c([2, 4]), "damping": c([0, 5])}
    if kind == "svd":
        return {"embedding_size": 2, "algorithm": c(["randomized", "arpack"]), "n_iter": 3}
    if kind == "flexe":
        return {"embedding_size": c([2, 4]), "epochs": c([1, 2]), "batch_size": c([8, 16]),
                "reg_method": c(["L2", "AdamW", None])}
    if kind == "flexi":
        return {"embedding_size": c([2, 4]), "epochs": c([1, 2]), "batch_size": c([8, 16]),
                "loss": c(["logistic", "pairwise"]), "reg_method": c(["L2", "AdamW"]),
                "negative_strategy": c(["uniform", "popular"])}
    if kind == "impals":
        return {"factors": 4, "iterations": 2, "random_state": c([3, 11]), "num_threads": 1, "weight": c([40.0, 5.0])}
    if kind == "impbpr":
        return {"factors": 4, "iterations": 3, "random_state": c([3, 11]), "num_threads": 1}
    raise KeyError(kind)


def make(kind: str, cfg: dict):
    setup()
    import importlib

    mod, cls, _ = KINDS[kind]
    C = getattr(importlib.import_module(mod), cls)
    if mod == "lenskit.implicit":
        _quiet_implicit()
    return C(**cfg)


_quiet_done = False


def _quiet_tqdm(orig, *a, **k):
    k["disable"] = True
    return orig(*a, **k)


def _quiet_implicit():
    """implicit's fit() always draws a progress bar on stderr; swap the tqdm its modules look up."""
    global _quiet_done
    if _quiet_done:
        return
    import functools
    import sys

    for name, m in list(sys.modules.items()):
        if name.startswith("implicit.") and hasattr(m, "tqdm") and callable(getattr(m, "tqdm")):
            try:
                setattr(m, "tqdm", functools.partial(_quiet_tqdm, m.tqdm))
            except Exception:
                pass
    _quiet_done = True


def train_opts(retrain: bool, seed):
    from lenskit.training import TrainingOptions

    return TrainingOptions(retrain=retrain, rng=seed)


def train(comp, ds, retrain: bool, seed):
    """One training call.  scikit-learn's TruncatedSVD and implicit take their randomness from numpy's
    global generator unless told otherwise: pin it so that equal inputs give equal bits."""
    np.random.seed((int(seed) if isinstance(seed, int) else 0) % (2**32))
    comp.train(ds, train_opts(retrain, seed))


# ---------------------------------------------------------------------------------------------
# canonical bytes and digests of learned state
# ---------------------------------------------------------------------------------------------

fallbacks: set[str] = set()


def _h(*parts: bytes) -> bytes:
    m = hashlib.sha256()
    for p in parts:
        m.update(len(p).to_bytes(8, "big"))
        m.update(p)
    return m.digest()


def canon(x, depth=0) -> bytes:
    setup()
    if depth > 12:
        return b"<deep>"
    if x is None:
        return b"N"
    if isinstance(x, (bool, np.bool_)):
        return b"b1" if x else b"b0"
    if isinstance(x, (int, np.integer)):
        return b"i" + str(int(x)).encode()
    if isinstance(x, (float, np.floating)):
        return b"f" + float(x).hex().encode()
    if isinstance(x, str):
        return b"s" + x.encode()
    if isinstance(x, bytes):
        return b"y" + x
    if isinstance(x, np.ndarray):
        if x.dtype == object:
            return _h(b"ao", *[canon(e, depth + 1) for e in x.tolist()])
        return _h(b"a", x.dtype.str.encode(), str(x.shape).encode(), np.ascontiguousarray(x).tobytes())
    if isinstance(x, torch.Tensor):
        x = x.detach().cpu()
        if x.layout == torch.sparse_csr:
            return _h(b"tcsr", str(tuple(x.shape)).encode(), canon(x.crow_indices().numpy()), canon(x.col_indices().numpy()), canon(x.values().numpy()))
        if x.layout == torch.sparse_coo:
            x = x.coalesce()
            return _h(b"tcoo", str(tuple(x.shape)).encode(), canon(x.indices().numpy()), canon(x.values().numpy()))
        return _h(b"t", canon(x.numpy()))
    if sps.issparse(x):
        y = x.tocsr().copy()
        y.sort_indices()
        return _h(b"sp", x.format.encode(), str(x.shape).encode(), canon(y.data), canon(y.indices), canon(y.indptr))
    if isinstance(x, (pd.Series, pd.Index)):
        return _h(b"pd", canon(np.asarray(x)), canon(np.asarray(x.index)) if isinstance(x, pd.Series) else b"")
    if isinstance(x, pd.DataFrame):
        return _h(b"df", *[canon(c) + canon(x[c].to_numpy()) for c in x.columns], canon(np.asarray(x.index)))
    if isinstance(x, (pa.Array, pa.ChunkedArray)):
        return _h(b"pa", canon(x.to_pylist(), depth + 1))
    if isinstance(x, pa.Table):
        return _h(b"pat", *[c.encode() + canon(x.column(c).to_pylist(), depth + 1) for c in sorted(x.column_names)])
    if isinstance(x, dict):
        items = sorted(((canon(k, depth + 1), canon(v, depth + 1)) for k, v in x.items()))
        return _h(b"d", *[k + v for k, v in items])
    if isinstance(x, (list, tuple)):
        return _h(b"l", *[canon(e, depth + 1) for e in x])
    if isinstance(x, (set, frozenset)):
        return _h(b"S", *sorted(canon(e, depth + 1) for e in x))
    name = type(x).__name__
    from lenskit.data import Vocabulary
    from lenskit.data.relationships import MatrixRelationshipSet

    if isinstance(x, Vocabulary):
        return _h(b"V", canon(x.name), canon(x.ids()))
    if isinstance(x, MatrixRelationshipSet):
        return _h(b"M", canon(x.row_type), canon(x.col_type), canon(x.row_vocabulary), canon(x.col_vocabulary), canon(x._table, depth + 1))
    if isinstance(x, torch.nn.Module):
        sd = x.state_dict()
        return _h(b"nn", name.encode(), canon(bool(x.training)), *[k.encode() + canon(v) for k, v in sorted(sd.items())])
    if hasattr(x, "get_params") and hasattr(x, "fit"):   # scikit-learn estimator
        st = {k: v for k, v in vars(x).items()}
        return _h(b"sk", name.encode(), canon(st, depth + 1))
    import dataclasses

    if dataclasses.is_dataclass(x) and not isinstance(x, type):
        return _h(b"dc", name.encode(), canon({f.name: getattr(x, f.name) for f in dataclasses.fields(x)}, depth + 1))
    if hasattr(x, "model_dump"):
        return _h(b"pyd", name.encode(), canon(x.model_dump(mode="python"), depth + 1))
    if hasattr(x, "__dict__") and not callable(x):
        pub = {k: v for k, v in vars(x).items() if not k.startswith("_")}
        return _h(b"o", name.encode(), canon(pub, depth + 1))
    fallbacks.add(name)
    return _h(b"pk", pickle.dumps(x))


SMALL = 1 << 20
BIG = 1 << 60


def digest_value(x) -> int:
    """Integers that the model inspects (the epoch counter) stand for themselves; anything else is a digest."""
    if isinstance(x, (int, np.integer)) and not isinstance(x, (bool, np.bool_)) and 0 <= int(x) < SMALL:
        return int(x)
    return BIG + int.from_bytes(hashlib.sha256(canon(x)).digest()[:7], "big")


def store_of(comp) -> dict:
    """The instance dictionary as attribute -> value digest.  The configuration is not learned state;
    private attributes (a stop watch) are volatile and are recorded as present only."""
    out = {}
    for k, v in vars(comp).items():
        if k == "config":
            continue
        out[k] = 1 if k.startswith("_") else digest_value(v)
    return out


# ---------------------------------------------------------------------------------------------
# probes
# ---------------------------------------------------------------------------------------------


def gen_probes(rng, specs) -> dict:
    users = sorted({r[0] for s in specs for r in s["rows"]})
    items = sorted({r[1] for s in specs for r in s["rows"]})
    users = users + [max(users) + 50]           # one user nobody has seen
    items = items + [max(items) + 50, 7]        # two items nobody has seen
    hist_items = rng.sample(items, min(len(items), rng.randint(2, 5)))
    hist = [[i, rng.randint(1, 10)] for i in hist_items]
    return {"users": users, "items": rng.shuffle(items), "history": hist}


def _fl(a):
    return tuple("nan" if x != x else float(x).hex() for x in np.asarray(a, dtype=np.float64).tolist())


def probe(comp, kind: str, probes: dict) -> list:
    """Canonical outputs of the component on every probe query (users with and without a supplied history)."""
    setup()
    from lenskit.data import ItemList, RecQuery

    how = KINDS[kind][2] if kind in KINDS else kind
    items = ItemList(item_ids=np.array(probes["items"], dtype=np.int64))
    hist = ItemList(item_ids=np.array([h[0] for h in probes["history"]], dtype=np.int64),
                    rating=np.array([h[1] / 2.0 for h in probes["history"]], dtype=np.float64))
    out = []
    if how == "none":
        r = comp()
        return [("ids", tuple(int(i) for i in r.ids().tolist()))]
    if how == "items":
        r = comp(items=items)
        return [("scores", _fl(r.scores()))]
    for u in probes["users"]:
        for with_hist in (False, True):
            q = RecQuery(user_id=u, user_items=hist if with_hist else None)
            try:
                if how == "scorer":
                    r = comp(query=q, items=items)
                    out.append(("scores", _fl(r.scores())))
                elif how == "query":
                    r = comp(query=q)
                    out.append(("ids", tuple(int(i) for i in r.ids().tolist())))
                elif how == "lookup":
                    r = comp(query=q)
                    ui = r.user_items
                    if ui is None:
                        out.append(("none",))
                    else:
                        rt = ui.field("rating")
                        out.append(("hist", tuple(int(i) for i in ui.ids().tolist()), None if rt is None else _fl(rt)))
                else:
                    raise KeyError(how)
            except (KeyError, ValueError, RuntimeError, TypeError, IndexError, AttributeError) as e:
                out.append(("error", type(e).__name__))
    return out


def probe_digests(comp, kind, probes) -> list[int]:
    return [int.from_bytes(hashlib.sha256(repr(p).encode()).digest()[:7], "big") for p in probe(comp, kind, probes)]


def fmt_q(x: Fraction | None):
    return common.fjson(x)
