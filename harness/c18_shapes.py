"""C18 -- two generated dimensions of the training clauses.

* training DATA shapes: datasets that make learned statistics empty or degenerate (no interaction inside a time
  window, no rating column, one user, one item, all ratings equal, a single interaction, no time stamps), used as the
  LATER (or the earlier) dataset of a history;
* pipeline SHAPES: how component nodes are wired (edges, fallbacks), which node is the default, which have aliases;
  every node has a role -- it feeds the default node, feeds only an aliased node, or sits on a side branch that is run
  by name only.

Everything here is plain data (JSON-able specs); lenskit is imported lazily by the builders at the bottom."""

from __future__ import annotations

# ---------------------------------------------------------------------------------------------
# training data shapes
# ---------------------------------------------------------------------------------------------

DATA_SHAPES = ["old-timestamps", "recent-timestamps", "no-ratings", "one-user", "one-item", "equal-ratings",
               "single-row", "no-timestamps"]

# c18_lib.gen_dataset draws time stamps from [1_000_000, 3_000_000) seconds: every windowed statistic of the shipped
# configurations (cut-offs between day 19 and day 30 of 1970) sees part of such a dataset.  `old` lies before every
# such window (nothing is recent), `recent` after it (everything is).
OLD = (1_000_000, 1_400_000)
RECENT = (2_700_000, 3_000_000)


def reshape(spec: dict, how: str, rng) -> dict:
    """The dataset `spec` (c18_lib.gen_dataset) bent into the degenerate shape `how`; still a rows-based spec."""
    s = dict(spec)
    rows = [list(r) for r in spec["rows"]]
    if how == "old-timestamps":
        rows = [[u, i, r, OLD[0] + rng.below(OLD[1] - OLD[0])] for u, i, r, _ in rows]
        s["timestamps"] = True
    elif how == "recent-timestamps":
        rows = [[u, i, r, RECENT[0] + rng.below(RECENT[1] - RECENT[0])] for u, i, r, _ in rows]
        s["timestamps"] = True
    elif how == "no-ratings":
        s["implicit"] = True
    elif how == "one-user":
        u0 = rows[rng.below(len(rows))][0]
        rows = list({r[1]: [u0, r[1], r[2], r[3]] for r in rows}.values())
    elif how == "one-item":
        i0 = rows[rng.below(len(rows))][1]
        rows = list({r[0]: [r[0], i0, r[2], r[3]] for r in rows}.values())
    elif how == "equal-ratings":
        v = rng.randint(1, 10)
        rows = [[u, i, v, t] for u, i, _, t in rows]
    elif how == "single-row":
        rows = [rows[rng.below(len(rows))]]
    elif how == "no-timestamps":
        s["timestamps"] = False
    else:
        raise KeyError(how)
    s["rows"] = rows
    s["shape"] = how
    return s


def shape_of(spec: dict) -> str:
    """The shape a dataset spec actually has (recomputed from the rows: a shrunk or hand-written case has one too)."""
    rows = spec["rows"]
    tags = []
    if spec.get("implicit"):
        tags.append("no-ratings")
    if not spec.get("timestamps", True):
        tags.append("no-timestamps")
    elif all(r[3] < OLD[1] for r in rows):
        tags.append("old-timestamps")
    elif all(r[3] >= RECENT[0] for r in rows):
        tags.append("recent-timestamps")
    if len(rows) == 1:
        tags.append("single-row")
    else:
        if len({r[0] for r in rows}) == 1:
            tags.append("one-user")
        if len({r[1] for r in rows}) == 1:
            tags.append("one-item")
        if len({r[2] for r in rows}) == 1 and not spec.get("implicit"):
            tags.append("equal-ratings")
    return "+".join(tags) if tags else "plain"


# ---------------------------------------------------------------------------------------------
# pipeline shapes
# ---------------------------------------------------------------------------------------------


def gen_wiring(rng, names: list[str]) -> dict:
    """Wire the component nodes `names` (in node order) into a graph.

    inputs[name] = sources of the node (pipeline input "x", earlier nodes, earlier fallback nodes), at most two;
    fallbacks    = extra function nodes `use_first_of(primary, fallback)` inserted after the node they are listed under;
    default      = the default node or None; aliases = [[alias, node]].
    A source may feed several consumers (shared); many nodes feed nothing (side branches)."""
    sources = ["x"]
    inputs, fallbacks, order = {}, [], []
    for j, nm in enumerate(names):
        k = rng.weighted([(0, 1), (1, 4), (2, 2)])
        inputs[nm] = [rng.choice(sources) for _ in range(k)]
        order.append(nm)
        sources.append(nm)
        if rng.chance(1, 4):
            fb = {"name": f"f{j}", "primary": rng.choice(["opt", "opt"] + sources), "fallback": rng.choice(sources), "after": nm}
            fallbacks.append(fb)
            order.append(fb["name"])
            sources.append(fb["name"])
    nodes = order
    outputs = rng.weighted([("none", 1), ("default", 3), ("alias", 2), ("both", 3)])
    default, aliases = None, []
    if outputs in ("default", "both"):
        default = rng.choice(nodes)
    if outputs in ("alias", "both"):
        for a in range(rng.randint(1, 2)):
            aliases.append([f"out{a}", rng.choice(nodes)])
    if default is not None and rng.chance(1, 3) and aliases:
        default = aliases[0][0]       # the default node named through an alias, as the standard pipelines do
    return {"inputs": inputs, "fallbacks": fallbacks, "order": order, "default": default, "aliases": aliases}


def edges_of(w: dict) -> list[list[str]]:
    """[consumer, source] pairs between nodes (pipeline inputs are not nodes of interest)."""
    out = []
    for nm, srcs in w["inputs"].items():
        for s in srcs:
            if s not in ("x", "opt"):
                out.append([nm, s])
    for fb in w["fallbacks"]:
        for s in (fb["primary"], fb["fallback"]):
            if s not in ("x", "opt"):
                out.append([fb["name"], s])
    return out


def resolve(w: dict, name: str) -> str:
    for a, n in w["aliases"]:
        if a == name:
            return n
    return name


def closure(w: dict, roots: list[str]) -> set[str]:
    edges = edges_of(w)
    seen, todo = set(), list(roots)
    while todo:
        n = todo.pop()
        if n in seen:
            continue
        seen.add(n)
        todo.extend(s for c, s in edges if c == n)
    return seen


def roles(w: dict | None, names: list[str]) -> dict[str, str]:
    """Where each node sits relative to the declared outputs of the pipeline."""
    if w is None or (w["default"] is None and not w["aliases"]):
        return {n: "no-declared-output" for n in names}
    d = closure(w, [resolve(w, w["default"])]) if w["default"] is not None else set()
    a = closure(w, [n for _, n in w["aliases"]])
    behind_fb = closure(w, [fb["name"] for fb in w["fallbacks"]]) - {fb["name"] for fb in w["fallbacks"]}
    out = {}
    for n in names:
        if n in d:
            r = "feeds-default"
        elif n in a:
            r = "feeds-alias-only"
        else:
            r = "side-branch"
        if n in behind_fb:
            r += "/in-fallback"
        out[n] = r
    return out


def consumers(w: dict | None, name: str) -> int:
    return 0 if w is None else sum(1 for c, s in edges_of(w) if s == name)


# ---------------------------------------------------------------------------------------------
# a score transform for rating-predictor nodes (module-level so that pipelines holding it pickle)
# ---------------------------------------------------------------------------------------------

_classes = None


def classes():
    """Harness components, created once lenskit is importable and published as module attributes (for pickle)."""
    global _classes
    if _classes is None:
        import numpy as np
        from lenskit.data import ItemList, RecQuery
        from lenskit.pipeline import Component

        globals().update(ItemList=ItemList, RecQuery=RecQuery)      # the annotations below are resolved in this module

        class ClipTransform(Component[ItemList]):
            "Clips predicted ratings to the rating scale; learns nothing."
            config: None

            def __call__(self, query: RecQuery, items: ItemList) -> ItemList:
                s = items.scores()
                if s is None:
                    return items
                return ItemList(items, scores=np.clip(s, 0.5, 5.0))

        ClipTransform.__module__ = __name__
        ClipTransform.__qualname__ = "ClipTransform"
        globals()["ClipTransform"] = ClipTransform
        _classes = {"ClipTransform": ClipTransform}
    return _classes
