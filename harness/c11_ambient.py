"""C11: ambient state and synthetic large datasets, shared by the in-process driver (props/c11.py) and the
worker processes (c11_worker.py).

`ambient(state)` is a context manager that puts the interpreter into a state which is NOT part of "same seed, inputs
and call sequence" -- logging verbosity of the lenskit loggers (stdlib and structlog, the way LoggingConfig.apply sets
them up, but with the records dropped), the warnings filter, and the process-global generators (numpy legacy,
`random`, torch, lenskit's own global generator) -- and restores everything afterwards.  A seeded operation must give
the same result inside and outside of it.

`synthetic_dataset(spec)` builds a dataset with many users / items and few ratings from a compact description, so that
embedding matrices cross size thresholds of the training code while the run stays cheap.  No lenskit import at module
level (the callers set up sys.path first)."""

from __future__ import annotations

import contextlib

DIMENSIONS = ("log", "warnings", "global_rng")


def _drop(logger, name, event_dict):
    import structlog
    raise structlog.DropEvent


@contextlib.contextmanager
def ambient(state: dict | None):
    if not state or not any(state.get(d) is not None for d in DIMENSIONS):
        yield
        return
    import logging
    import random
    import warnings

    import numpy as np
    import structlog
    import torch

    import lenskit.random as LR

    lk = logging.getLogger("lenskit")
    saved_level, saved_prop, saved_handlers = lk.level, lk.propagate, list(lk.handlers)
    root = logging.getLogger()
    saved_disable, saved_root_handlers = root.manager.disable, list(root.handlers)
    saved_struct = structlog.get_config() if structlog.is_configured() else None
    saved_np, saved_py, saved_torch, saved_glob = np.random.get_state(), random.getstate(), torch.get_rng_state(), LR._global_rng
    null = logging.NullHandler()
    stack = contextlib.ExitStack()
    try:
        if state.get("log"):
            lvl = 5 if state["log"] == "TRACE" else getattr(logging, state["log"])
            logging.disable(logging.NOTSET)      # the harness switches all stdlib logging off (common.use_repo)
            if not root.handlers:
                root.addHandler(null)            # ... so keep other libraries' warnings away from stderr
            lk.setLevel(lvl)
            lk.propagate = False        # nothing reaches the root handlers / stderr
            lk.addHandler(null)
            try:
                from lenskit.logging.tracing import lenskit_filtering_logger
                wrapper = lenskit_filtering_logger(lvl)
            except Exception:
                wrapper = structlog.make_filtering_bound_logger(max(lvl, 10))
            structlog.configure(
                processors=[structlog.processors.add_log_level, structlog.stdlib.add_logger_name,
                            structlog.stdlib.PositionalArgumentsFormatter(), _drop],
                wrapper_class=wrapper, logger_factory=structlog.stdlib.LoggerFactory(), cache_logger_on_first_use=False)
        if state.get("warnings"):
            stack.enter_context(warnings.catch_warnings(record=True))
            warnings.simplefilter(state["warnings"])
        if state.get("global_rng") is not None:
            s = int(state["global_rng"])
            np.random.seed(s % (2**32))
            random.seed(s)
            torch.manual_seed(s)
            LR.set_global_rng(s)
        yield
    finally:
        stack.close()
        lk.setLevel(saved_level)
        lk.propagate = saved_prop
        lk.handlers[:] = saved_handlers
        root.handlers[:] = saved_root_handlers
        logging.disable(saved_disable)
        if state.get("log"):
            if saved_struct is not None:
                structlog.configure(**saved_struct)
            else:
                structlog.reset_defaults()
        np.random.set_state(saved_np)
        random.setstate(saved_py)
        torch.set_rng_state(saved_torch)
        LR._global_rng = saved_glob


def single_dimensions(state: dict | None) -> list[dict]:
    """The states that switch on one dimension of `state` only (to name which one matters)."""
    return [{d: state[d]} for d in DIMENSIONS if state and state.get(d) is not None]


_cache: dict = {}


def synthetic_dataset(spec: dict):
    """{"users": nu, "items": ni, "extra": m, "seed": s}: every user rates one item and every item is rated by one
    user (so both vocabularies have the requested sizes), plus `extra` further ratings; integer ids."""
    key = tuple(sorted(spec.items()))
    if key in _cache:
        return _cache[key]
    import numpy as np
    import pandas as pd

    from lenskit.data import from_interactions_df

    nu, ni, extra = int(spec["users"]), int(spec["items"]), int(spec.get("extra", 0))
    g = np.random.default_rng([int(spec["seed"]), nu, ni])
    users = np.concatenate([np.arange(nu), g.integers(0, nu, ni), g.integers(0, nu, extra)])
    items = np.concatenate([g.integers(0, ni, nu), np.arange(ni), g.integers(0, ni, extra)])
    df = pd.DataFrame({"user_id": users.astype(np.int64), "item_id": items.astype(np.int64) + 1_000_000,
                       "rating": g.integers(1, 11, len(users)) / 2.0,
                       "timestamp": 1_000_000 + g.integers(0, 10**6, len(users))})
    df = df.drop_duplicates(["user_id", "item_id"], ignore_index=True)
    ds = from_interactions_df(df)
    _cache.clear()
    _cache[key] = ds
    return ds


def numeric_fingerprint(x, depth=0) -> list[float]:
    """Floats that summarise the floating-point content of a learned attribute (norm, sum and up to 48 entries at
    fixed positions of every float array / tensor found in it), for comparisons up to rounding between runs whose
    BLAS summation order legitimately differs (different numbers of backend threads on large matrices)."""
    import numpy as np
    import torch

    if depth > 6 or x is None:
        return []
    if isinstance(x, torch.nn.Module):
        out = []
        for k, v in sorted(x.state_dict().items()):
            out += numeric_fingerprint(v, depth + 1)
        return out
    if isinstance(x, torch.Tensor):
        x = x.detach().cpu()
        if x.layout != torch.strided:
            x = x.to_dense() if x.numel() < 10**7 else x.coalesce().values()
        x = x.numpy()
    if isinstance(x, np.ndarray):
        if x.dtype.kind != "f" or x.size == 0:
            return []
        flat = np.ascontiguousarray(x, dtype=np.float64).ravel()
        pos = np.unique(np.linspace(0, flat.size - 1, 48).astype(np.int64))
        vals = [float(np.linalg.norm(flat)), float(flat.sum())] + [float(v) for v in flat[pos]]
        return [v if v == v else 0.0 for v in vals]
    if isinstance(x, dict):
        out = []
        for k in sorted(x, key=repr):
            out += numeric_fingerprint(x[k], depth + 1)
        return out
    if isinstance(x, (list, tuple)):
        out = []
        for e in x[:32]:
            out += numeric_fingerprint(e, depth + 1)
        return out
    if isinstance(x, (bool, int, str, bytes)):
        return []
    if isinstance(x, float):
        return [x if x == x else 0.0]
    if hasattr(x, "__dict__"):
        return numeric_fingerprint({k: v for k, v in vars(x).items() if not k.startswith("__")}, depth + 1)
    return []


def scaled(a: list[float], b: list[float], unit=10**9) -> tuple[list[int], list[int]]:
    """The two fingerprints as integers in units of 1e-9 of their common scale (largest magnitude, at least 1)."""
    scale = max([1.0] + [abs(v) for v in a] + [abs(v) for v in b])
    return [round(v / scale * unit) for v in a], [round(v / scale * unit) for v in b]


def close(a: list[float], b: list[float], tol=1000) -> bool:
    """Equal up to rounding: same shape, every entry within 1e-6 of the common scale."""
    if len(a) != len(b):
        return False
    x, y = scaled(a, b)
    return all(abs(p - q) <= tol for p, q in zip(x, y))
