"""Importable functions and components for generated pipeline graphs (properties C13 and C14).

Everything here is deterministic and pure: a component's result is a function of its inputs and its
settings only, so two pipelines with equal configurations must return equal results.
This module is on PYTHONPATH of every harness process (common.base_env) so that the
``module:qualname`` strings of a pipeline configuration can be resolved in a fresh process.
"""

from __future__ import annotations

from dataclasses import dataclass, field

from pydantic import AliasChoices, BaseModel, Field

from lenskit.pipeline.components import Component
from lenskit.pipeline.types import Lazy

M = 1_000_003


# --- types used for pipeline inputs (exercise the three forms of type_string) ---------------------


class Token:
    "module.Name form"

    def __init__(self, v=0):
        self.v = v


class Outer:
    class Inner:
        "module:Qual.Name form"

        def __init__(self, v=0):
            self.v = v


# --- plain functions -----------------------------------------------------------------------------


def _i(x) -> int:
    if x is None:
        return 17
    if isinstance(x, bool):
        return 2 if x else 1
    if isinstance(x, int):
        return x % M
    if isinstance(x, float):
        return int(x * 8) % M
    if isinstance(x, str):
        h = 7
        for ch in x.encode():
            h = (h * 131 + ch) % M
        return h
    if isinstance(x, (list, tuple)):
        h = 11
        for e in x:
            h = (h * 137 + _i(e)) % M
        return h
    if isinstance(x, dict):
        h = 13
        for k in sorted(x):
            h = (h * 139 + _i(k) * 3 + _i(x[k])) % M
        return h
    if isinstance(x, (Token, Outer.Inner)):
        return (x.v * 5 + 3) % M
    return 19


def const7() -> int:
    return 7


def inc(x: int) -> int:
    return (_i(x) + 1) % M


def neg(x: int) -> int:
    return (M - _i(x)) % M


def add(x: int, y: int) -> int:
    return (_i(x) + 3 * _i(y)) % M


def mix3(a: int, b: int, c: int) -> int:
    return (_i(a) * 31 + _i(b) * 17 + _i(c)) % M


def user_item(user: int, item: int) -> int:
    "parameter names commonly used for default connections"
    return (_i(user) * 1009 + _i(item)) % M


def opt_first(x: int | None, y: int) -> int:
    return _i(y) if x is None else (_i(x) * 2) % M


def lazy_pick(x: int, y: Lazy[int]) -> int:
    if _i(x) % 2 == 0:
        return (_i(x) + 5) % M
    return (_i(y.get()) + 9) % M


def anyval(v) -> int:  # no annotation on purpose (TypecheckWarning path)
    return _i(v)


# --- configurable components ----------------------------------------------------------------------


class ScaleConfig(BaseModel):
    factor: int = 2
    offset: float = 0.0
    label: str | None = None
    tags: list[str] = Field(default_factory=list)
    opts: dict[str, int | None] = Field(default_factory=dict)


class Scale(Component[int]):
    config: ScaleConfig

    def __call__(self, x: int) -> int:
        c = self.config
        return (_i(x) * c.factor + _i(c.offset) + _i(c.label) + _i(c.tags) + _i(c.opts)) % M


@dataclass
class AffineConfig:
    a: int = 1
    b: int = 0
    flag: bool = False
    ws: list[float] = field(default_factory=list)


class Affine(Component[int]):
    config: AffineConfig

    def __call__(self, x: int, y: int) -> int:
        c = self.config
        return (_i(x) * c.a + _i(y) * (3 if c.flag else 5) + c.b + _i(c.ws)) % M


class AliasedConfig(BaseModel):
    "a field that is validated through aliases (like the k / features settings of shipped scorers)"

    size: int = Field(default=5, validation_alias=AliasChoices("size", "k", "features"))
    rate: float | None = None


class Aliased(Component[int]):
    config: AliasedConfig

    def __call__(self, user: int) -> int:
        return (_i(user) + self.config.size * 7 + _i(self.config.rate)) % M


class NoSettings(Component[int]):
    config: None

    def __call__(self, x: int) -> int:
        return (_i(x) * 3 + 1) % M


class Bare:
    "callable object that is not a Component: serialised by class path, rebuilt with no arguments"

    def __call__(self, x: int) -> int:
        return (_i(x) + 1000) % M


class Box:
    "namespace class: components with a dotted qualified name (module:Box.Shift, module:Box.twice)"

    class Shift(Component[int]):
        config: AffineConfig

        def __call__(self, x: int) -> int:
            return (_i(x) + self.config.a * 11 + self.config.b) % M

    @staticmethod
    def twice(x: int) -> int:
        return (_i(x) * 2) % M


# --- a trainable component (C14): its result depends on what it was trained on ----------------------


@dataclass
class LearnerConfig:
    bias: int = 0


class Learner(Component[int]):
    "remembers the dataset it was trained on; untrained it behaves like a constant offset"

    config: LearnerConfig
    trained_on: str | None = None
    n_items: int = 0

    def train(self, data, options=None):
        self.trained_on = data.name
        self.n_items = data.item_count

    def __call__(self, x: int) -> int:
        return (_i(x) + self.config.bias + 1000 * self.n_items + _i(self.trained_on)) % M
