"""C10 -- matrix-factorisation training meets its optimality conditions and update rules
(DESIGN.md section 4, C10; notes/design/C10.md)."""

from __future__ import annotations

from fractions import Fraction

import common
from c10_impl import phase_cases
from common import cbool, clist, cnat, copt, cq, cz, fjson, fparse

PID = "C10"
PROPS_FILE = "Props/C10.v"
GEN_FILES: list[str] = []
MODEL_FILES = ["Model/C10_als.v", "Model/C10_funksvd.v", "Model/C10_history.v"]
ALLOWED_AXIOMS: list[str] = []   # every theorem of Props/C10.v is closed under the global context
# coqchk lists the axioms of every library loaded with the closure of Props/C10.v: Model/C10_funksvd.v imports Coq's
# primitive 63-bit integers and binary64 floats for the float instance that the case files run.  No theorem depends on
# them (Print Assumptions: closed); they are standard-library primitives, named here so that nothing else slips through.
COQCHK_LIBRARY_AXIOMS = [
    r"Coq\.Numbers\.Cyclic\.Int63\.(PrimInt63|Uint63)\.[A-Za-z0-9_'.]+",
    r"Coq\.Floats\.(PrimFloat|FloatAxioms|FloatOps|FloatLemmas)\.[A-Za-z0-9_'.]+",
]
CASE_HEADER = (
    "From Coq Require Import ZArith QArith PrimFloat.\n"
    "From LK Require Import Lib.QLib Model.C10_als Model.C10_funksvd Model.C10_history.\n"
    "Open Scope Q_scope."
)
SHARD = 5
TRUSTED = [
    "Coq 8.16.1 kernel + vm_compute (no native_compute); MathComp 1.15 + Algebra Tactics for Proofs/C10_normal_eq.v (closed under the global context)",
    "Coq's primitive binary64 floats and 63-bit integers (PrimFloat, Uint63) as the meaning of numba's float64 arithmetic in the FunkSVD loop "
    "(no fused multiply-add, operations in source order); they appear only in the correspondence run, never in a theorem's assumptions "
    "(coqchk of the thorough tier lists them as library axioms of the loaded closure: COQCHK_LIBRARY_AXIOMS)",
    "section hypothesis solve_exact: lenskit.math.solve.solve_cholesky (torch.linalg.cholesky_ex + cholesky_solve) returns a solution of A x = y; "
    "what it returned is checked on every case through the residual |Ax-y| <= 2^-40 (|A||x| + |y| + | |M|^T|v| |) with A, y rebuilt by the model "
    "(the last term is the size of the data y = M^T v was formed from: y may cancel to 0 exactly while the code's y is rounding noise)",
    "correspondence harness harness/props/c10.py + harness/c10_impl.py: wrapping of als_half_epoch / new_user_embedding / funksvd.Context (and, while they exist, the private row "
    "solvers _train_bias_row_cholesky / _train_new_row, to see the row a fold-in used) from outside; only public trained state is read back (user_features_, item_features_, bias_, "
    "the datasets' vocabularies) -- no private cache such as OtOr_: the fold-in system is rebuilt by the model and by the oracle from the item embeddings of the LAST training; "
    "exact float->rational conversion, tolerances 2^-40 (float64 results) and 2^-18 (results of a few float32 operations: bias sums, normalised fold-in ratings)",
    "BiasModel's formulas are property C08's; here the learned bias arrays are read from the trained object",
    "NumPy's generators: default_rng(seed source) and Generator.shuffle define 'the seeded sample order'; the harness repeats the draw on a generator equal to the one the training "
    "is given (SPEC 7: default_rng of the integer / sequence / SeedSequence / Generator / BitGenerator, in the options or installed with lenskit.random.set_global_rng) and hands the "
    "indices to the model (is_order checks that they are a permutation)",
    "torch / numba / numpy kernels, TorchScript fork/wait fan-out (> 50 rows) are exercised, not verified",
]
ASSUMPTIONS = [
    "ratings, weights and hyper-parameters are finite; regularisation >= 0 (uniqueness and solvability need regularisation * count > 0)",
    "the ALS fan-out over row chunks (TorchScript fork) computes the same per-row function as the sequential path (rows are independent in the model; >50-row runs are in the thorough tier)",
    "numba compiles the FunkSVD loop without floating-point contraction or reassociation (checked: features reproduce bit for bit)",
]
RULE = ("structured generator: 2-9 users x 2-10 items (12x12 in the thorough tier; every 60th case 52-58 users so that explicit ALS takes its fork/wait fan-out), half-star ratings, optional users/items without data, "
        "embedding size 1-4, 0-3 epochs, scalar or per-side regularisation (dyadic and non-dyadic), damping scalar or per entity, "
        "confidence weight, use_ratings, each user-embedding policy, float32 or float64 rating column, 3-5 scoring queries after every training "
        "(known/unknown/no user; no/empty/known/partly-unknown/all-unknown history; known and unknown candidates); FunkSVD with 1-3 features, "
        "1-4 epochs, optional rating range (also inverted), 4 learning rates; training histories on ONE scorer object (5 in 11 ALS cases, 4 in 11 FunkSVD cases): 1-2 further "
        "train() calls, each followed by 2-3 queries of its own -- on a fresh dataset (other vocabulary and sizes), on the previous data plus ratings / a new user / a new item, on the same data "
        "with another seed, or train(retrain=False) on other data (must change nothing); 3 in 4 ALS histories have a fold-in query after every training; "
        "exact-zero boundary of the history-derived user bias (BiasedMF under every user-embedding policy, FunkSVD; half of the trainings, re-trainings included): the dataset's mean is made "
        "dyadic, its bias model computed exactly, and 1-2 histories (single or double precision rating column) are solved for whose residuals r - b_g - b_i cancel exactly "
        "(known items with a dyadic bias and unknown items, the last rating balancing the others; or every rating exactly at its baseline: all-zero embedding), presented mostly "
        "for a user known from training whose stored bias is not 0, also for an unknown / absent user; every residual / score / "
        "trajectory check of a training and its queries is made against the state that training left; the way the seed reaches a training is drawn for every training "
        "(first and later ones, ALS and FunkSVD): TrainingOptions(rng = integer / integer sequence / SeedSequence / Generator / BitGenerator) or TrainingOptions() with "
        "lenskit.random.set_global_rng(<any of these>) called right before train() (about 4 in 11; the process-wide generator is put back afterwards) -- the FunkSVD sample order is "
        "recomputed from a generator equal to the one the seed stands for, the float run of the model goes over the stored ratings in THAT order, and a second FunkSVD training "
        "from an equal seed source on a new object must leave the same features; malformed stream: zero regularisation (solver may fail), zero epochs; "
        "non-trivial = training ran, at least one half-step updated >= 2 rows with data (ALS) or >= 2 samples share a user or item (FunkSVD), "
        "and at least one query returned a finite score; distinct = by hash of the case")

TOL64 = Fraction(1, 2**40)
TOLB = Fraction(1, 2**18)
TOL32 = Fraction(1, 2**20)


# ---------------------------------------------------------------------------------------------
# generator
# ---------------------------------------------------------------------------------------------

REGS = ["1/10", "1/20", "1/8", "1/1", "1/100", "5/2", "3/10"]
WEIGHTS = ["40/1", "1/1", "5/2", "10/1", "1/2"]
DAMPS = ["0/1", "5/1", "5/2", "1/1"]


def gen_dataset(rng, big=False, wide=False):
    hi = 12 if big else 9
    nu, ni = rng.randint(2, hi - 1 if not big else hi), rng.randint(2, hi)
    if wide:            # more than 50 rows on the user side: the TorchScript fork/wait fan-out of explicit ALS
        nu, ni = rng.randint(52, 58), rng.randint(2, 4)
    uids = rng.sample(list(range(1, 60)), nu)
    iids = rng.sample(list(range(100, 180)), ni)
    dens = rng.choice([3, 5, 7])
    ratings = []
    for u in uids:
        for i in iids:
            if rng.chance(dens, 10):
                ratings.append([u, i, fjson(Fraction(rng.randint(1, 10), 2))])
    if not ratings:
        ratings.append([uids[0], iids[0], "4/1"])
    ratings = rng.shuffle(ratings)
    users, items = list(uids), list(iids)
    if rng.chance(1, 2):   # entities without any data
        users += rng.sample([x for x in range(60, 70)], rng.randint(1, 2))
        items += rng.sample([x for x in range(180, 190)], rng.randint(1, 2))
    if rng.chance(1, 3):
        users = rng.shuffle(users)
        items = rng.shuffle(items)
    return users, items, ratings


def gen_queries(rng, users, items, lo=3, hi=5):
    qs = []
    for _ in range(rng.randint(lo, hi)):
        uk = rng.weighted([("known", 6), ("unknown", 2), ("none", 2)])
        user = rng.choice(users) if uk == "known" else (999 if uk == "unknown" else None)
        hk = rng.weighted([("none", 4), ("known", 3), ("mixed", 3), ("unknown", 1), ("empty", 1)])
        if hk == "none":
            hist = None
        elif hk == "empty":
            hist = []
        else:
            pool = {"known": items, "mixed": items + [900, 901, 902], "unknown": [900, 901, 902]}[hk]
            n = rng.randint(1, min(5, len(pool)))
            hist = [[i, fjson(Fraction(rng.randint(1, 10), 2))] for i in rng.sample(pool, n)]
        nc = rng.randint(0, min(6, len(items) + 2))
        cands = rng.sample(items + [950, 951], nc)
        qs.append({"user": user, "history": hist, "items": cands})
    return qs

# ---------------------------------------------------------------------------------------------
# histories aimed at the exact-zero boundary of the history-derived user bias
#
# Ratings are dyadic rationals, so the bias model of a generated dataset can be computed exactly here (global mean,
# damped item means, damped user means -- the formulas of property C08, used only to CHOOSE inputs; nothing is judged
# with them).  When the global mean and the biases of the items a history touches are dyadic with few bits, every
# single- and double-precision operation of the scoring path on them is exact, and a history can be solved for whose
# residuals  r - b_g - b_i  cancel exactly: the user bias derived from it is 0.0 (not merely small), the intermediate
# value the scoring path may mistake for "no bias given".  Such a history is presented for a user known from training
# whose stored bias is not 0 (and, less often, for an unknown / absent user), under every user-embedding policy.
# ---------------------------------------------------------------------------------------------

UNKNOWN_ITEMS = [900, 901, 902]


def damp_of(case, who):
    d = case["damping"]
    return F(d.get(who, "0/1")) if isinstance(d, dict) else F(d)


def is_dyadic(x, bits=12):
    d = Fraction(x).denominator
    return d & (d - 1) == 0 and d <= 2**bits


def exact_biases(case, data):
    """(global mean, {item: bias}, {user: bias}) of BiasModel.learn on the dataset, as exact rationals"""
    _users, _items, ratings = data
    rs = [(u, i, F(r)) for u, i, r in ratings]
    g = sum(r for _, _, r in rs) / len(rs)
    di, du = damp_of(case, "item"), damp_of(case, "user")
    isum, icnt, usum, ucnt = {}, {}, {}, {}
    for u, i, r in rs:
        isum[i] = isum.get(i, 0) + (r - g)
        icnt[i] = icnt.get(i, 0) + 1
    bi = {i: isum[i] / (icnt[i] + di) for i in isum}
    for u, i, r in rs:
        usum[u] = usum.get(u, 0) + (r - g - bi[i])
        ucnt[u] = ucnt.get(u, 0) + 1
    bu = {u: usum[u] / (ucnt[u] + du) for u in usum}
    return g, bi, bu


def make_mean_dyadic(rng, ratings):
    """Move a few ratings by half stars (in place) until the mean of the dataset is a dyadic rational."""
    n = len(ratings)
    odd = n
    while odd % 2 == 0:
        odd //= 2
    vals = [int(F(r[2]) * 2) for r in ratings]
    need_up = (-sum(vals)) % odd
    up = sum(10 - v for v in vals) >= need_up
    todo = need_up if up else sum(vals) % odd
    while todo:
        j = rng.below(n)
        if up and vals[j] < 10:
            vals[j] += 1
            todo -= 1
        elif not up and vals[j] > 1:
            vals[j] -= 1
            todo -= 1
    for r, v in zip(ratings, vals):
        r[2] = fjson(Fraction(v, 2))


def zero_bias_query(rng, case, data):
    """A query whose history has a user bias of exactly 0 (None when the dataset's biases do not allow one)."""
    users, items, _ = data
    g, bi, bu = exact_biases(case, data)
    if not is_dyadic(g):
        return None
    good = [i for i in items if is_dyadic(bi.get(i, 0))]        # known items whose bias is exact in single precision
    base = lambda i: g + bi.get(i, 0)                           # an unknown item has no item bias
    pool = good + UNKNOWN_ITEMS
    biased = [u for u in users if bu.get(u, 0) != 0]
    uk = rng.weighted([("known-biased", 6 if biased else 0), ("known", 1), ("unknown", 1), ("none", 1)])
    if case["kind"] == "funksvd" and uk in ("unknown", "none") and rng.chance(2, 3):
        uk = "known-biased" if biased else "known"             # FunkSVD scores known users only
    user = rng.choice(biased) if uk == "known-biased" else rng.choice(users) if uk == "known" else (999 if uk == "unknown" else None)
    hist = None
    for _ in range(8):
        mode = rng.weighted([("cancelling", 5), ("at-baseline", 2)])
        n = rng.randint(1, min(4, len(pool)))
        if good and rng.chance(3, 4):       # at least one item the model knows (a fold-in with a non-empty known part)
            first = rng.choice(good)
            ids = [first] + rng.sample([i for i in pool if i != first], n - 1)
        else:
            ids = rng.sample(pool, n)
        if mode == "at-baseline" or n == 1:
            # every rating exactly at its baseline: all residuals 0, user bias 0, normalised ratings 0, embedding 0
            h = [[i, base(i)] for i in ids]
        else:
            h = [[i, Fraction(rng.randint(1, 10), 2)] for i in ids[:-1]]
            resid = sum(r - base(i) for i, r in h)
            h.append([ids[-1], base(ids[-1]) - resid])            # the last entry balances the others
            h = rng.shuffle(h)
        if all(Fraction(1, 4) <= r <= Fraction(11, 2) for _, r in h):
            hist = [[i, fjson(r)] for i, r in h]
            break
    if hist is None:
        return None
    nc = rng.randint(1, min(6, len(items) + 1))
    cands = rng.sample(items + [950], nc)
    return {"user": user, "history": hist, "items": cands, "hist_dtype": rng.choice(["f32", "f64"]), "aim": "zero-history-bias"}


def aim_zero_history_bias(rng, case, t, cur=None):
    """With probability 1/2: (when `t` brings the data its queries are judged against, `cur` is None) make the mean of
    t's ratings dyadic, then append 1-2 queries with a zero-bias history against that data."""
    if case["kind"] == "als-implicit" or not rng.chance(1, 2):
        return
    if cur is None:
        make_mean_dyadic(rng, t["ratings"])
        cur = (t["users"], t["items"], t["ratings"])
    for _ in range(rng.randint(1, 2)):
        q = zero_bias_query(rng, case, cur)
        if q is not None:
            t["queries"].append(q)


def gen_case(rng, tier, malformed=False, wide=False):
    kind = "als-explicit" if wide else rng.weighted([("als-explicit", 4), ("als-implicit", 4), ("funksvd", 3)])
    users, items, ratings = gen_dataset(rng, big=(tier != "quick" and rng.chance(1, 3)), wide=wide)
    case = {"kind": kind, "users": users, "items": items, "ratings": ratings,
            "rating_dtype": rng.choice(["f32", "f64"]), "seed": rng.randint(0, 2**31 - 1),
            "damping": ({"user": rng.choice(DAMPS), "item": rng.choice(DAMPS)} if rng.chance(1, 4) else rng.choice(DAMPS)),
            "queries": gen_queries(rng, users, items)}
    if kind.startswith("als"):
        case["k"] = rng.randint(1, 4) if not wide else 2
        case["epochs"] = rng.weighted([(1, 4), (2, 4), (3, 2)]) if not wide else 1
        case["reg"] = [rng.choice(REGS), rng.choice(REGS)] if rng.chance(1, 3) else rng.choice(REGS)
        case["user_embeddings"] = rng.weighted([(True, 5), (False, 2), ("prefer", 3)])
        if kind == "als-implicit":
            case["weight"] = rng.choice(WEIGHTS)
            case["use_ratings"] = rng.chance(1, 2)
        if malformed:
            if rng.chance(1, 2):
                case["reg"] = "0/1"
            else:
                case["epochs"] = 0
    else:
        case["k"] = rng.randint(1, 3)
        case["epochs"] = rng.randint(1, 4)
        case["lrate"] = rng.choice(["1/1000", "1/100", "1/20", "1/8"])
        case["reg"] = rng.choice(["3/200", "1/10", "0/1", "1/2"])
        rk = rng.weighted([("none", 4), ("normal", 4), ("tight", 2)])
        case["range"] = None if rk == "none" else (["1/2", "5/1"] if rk == "normal" else ["3/1", "4/1"])
        if malformed:
            case["range"] = ["4/1", "2/1"]      # inverted range
    case["style"] = kind + ("/malformed" if malformed else "") + ("/wide" if wide else "")
    if not wide:
        aim_zero_history_bias(rng.fork("zero-history-bias"), case, case)
        gen_trainings(rng.fork("trainings"), case)
    aim_seed_route(rng.fork("seed-route"), case)
    return case


# ---------------------------------------------------------------------------------------------
# the way the seed reaches a training (own fork of the random stream: every other draw of a case is what it was)
#
# A seed is a seed whichever way it is handed over: in the options as an integer, a sequence of integers, a
# SeedSequence, a Generator or a BitGenerator (SPEC 7), or not in the options at all -- TrainingOptions() -- with a
# generator installed through lenskit.random.set_global_rng(<any of these>) beforehand.  Every training of every case
# (first and later ones, ALS and FunkSVD) draws its route here; harness/c10_impl.py builds the options / installs and
# afterwards restores the process-wide generator, and recomputes the FunkSVD sample order from an equal generator.
# ---------------------------------------------------------------------------------------------

SEED_ROUTES = [("int", 8), ("list", 1), ("seedseq", 1), ("generator", 2), ("bitgen", 1),
               ("global-int", 4), ("global-list", 1), ("global-seedseq", 1), ("global-generator", 2), ("global-bitgen", 1)]


def aim_seed_route(rng, case):
    case["seed_route"] = rng.weighted(SEED_ROUTES)
    for t in case.get("trainings") or []:
        t["seed_route"] = rng.weighted(SEED_ROUTES)


def route_of(case):
    return case.get("seed_route") or "int"


def route_tag(case):
    """key suffix naming the route of the seed (none for the plain integer in the options)"""
    r = route_of(case)
    return "" if r == "int" else f":seed-via-{r}"


def describe_route(case):
    r = route_of(case)
    what = {"int": "{s}", "list": "[integers made of {s}]", "seedseq": "SeedSequence({s})", "generator": "default_rng({s})",
            "bitgen": "PCG64({s})"}[r[len("global-"):] if r.startswith("global-") else r].format(s=case["seed"])
    if r.startswith("global-"):
        return f"TrainingOptions() without an rng, lenskit.random.set_global_rng({what}) called right before train()"
    return f"TrainingOptions(rng={what})"


def has_fold_query(queries):
    return any(q["history"] for q in queries)


def force_fold_query(rng, queries, items):
    """make sure one query of the list carries a history with a known item"""
    if has_fold_query(queries) or not queries:
        return
    q = queries[rng.below(len(queries))]
    n = rng.randint(1, min(3, len(items)))
    q["history"] = [[i, fjson(Fraction(rng.randint(1, 10), 2))] for i in rng.sample(items, n)]


def gen_more_data(rng, users, items, ratings):
    """the previous data plus further ratings on unrated pairs, optionally a new user and a new item"""
    users, items, ratings = list(users), list(items), [list(r) for r in ratings]
    have = {(u, i) for u, i, _ in ratings}
    if rng.chance(1, 2):
        users.append(rng.choice([x for x in range(70, 80) if x not in users]))
    if rng.chance(1, 2):
        items.append(rng.choice([x for x in range(190, 200) if x not in items]))
    free = [(u, i) for u in users for i in items if (u, i) not in have]
    for u, i in rng.sample(free, min(len(free), rng.randint(1, 5))):
        ratings.append([u, i, fjson(Fraction(rng.randint(1, 10), 2))])
    return users, items, rng.shuffle(ratings)


def gen_trainings(rng, case):
    """Training history: further train() calls on the SAME scorer object, each followed by its own queries."""
    als = case["kind"].startswith("als")
    n = rng.weighted([(0, 6), (1, 4), (2, 1)]) if als else rng.weighted([(0, 7), (1, 3), (2, 1)])
    if n == 0:
        return
    fold_every_time = als and rng.chance(3, 4)
    if fold_every_time:
        force_fold_query(rng, case["queries"], case["items"])
    cur = (case["users"], case["items"], case["ratings"])       # data of the last training that ran
    can_noop = (not als) or case["epochs"] > 0                   # IterativeTraining counts finished epochs
    out = []
    for _ in range(n):
        how = rng.weighted([("fresh", 4), ("more", 3), ("reseed", 2), ("noop", 1 if can_noop else 0)])
        if how in ("fresh", "noop"):
            data = gen_dataset(rng)
        elif how == "more":
            data = gen_more_data(rng, *cur)
        else:
            data = tuple(list(x) for x in cur)
        t = {"users": data[0], "items": data[1], "ratings": data[2], "seed": rng.randint(0, 2**31 - 1),
             "retrain": how != "noop", "how": how}
        if how != "noop":
            cur = data
        t["queries"] = gen_queries(rng, cur[0], cur[1], 2, 3)
        if fold_every_time:
            force_fold_query(rng, t["queries"], cur[1])
        # zero-bias histories against the state this call leaves (fresh data: made dyadic first; otherwise the data as it is)
        aim_zero_history_bias(rng.fork(f"zero-history-bias-{len(out)}"), case, t, None if how == "fresh" else cur)
        out.append(t)
    case["trainings"] = out
    case["style"] += "/history"


def gen_cases(rng, tier):
    n = 120 if tier == "quick" else 800
    return [gen_case(rng.fork(k), tier, malformed=(k % 10 == 9), wide=(k % 60 == 59)) for k in range(n)]


# ---------------------------------------------------------------------------------------------
# implementation driver
# ---------------------------------------------------------------------------------------------


def run_impl(case):
    import c10_impl
    if case["kind"] == "funksvd":
        return c10_impl.run_funksvd(case)
    return c10_impl.run_als(case)


# ---------------------------------------------------------------------------------------------
# training histories: the trainings made on the one scorer object, each with the state it must be judged against
# ---------------------------------------------------------------------------------------------


def describe_history(pcs, n):
    parts = []
    for j, pc in enumerate(pcs[: n + 1]):
        nf = sum(1 for q in pc["queries"] if q["history"])
        parts.append(f"train(d{j}, seed={pc['seed']}" + ("" if route_of(pc) == "int" else f" via {route_of(pc)}")
                     + ("" if j == 0 else f", retrain={pc.get('retrain', True)}") + ")")
        parts.append(f"{len(pc['queries'])} queries ({nf} with a history)")
    return " -> ".join(parts)


def phases(case, obs):
    """One entry per train() call that was made: `case`/`obs` are what a single training with that data would be
    (for a train(retrain=False) on a trained object: the data and vocabulary of the last training that ran, this call's
    queries), `prev` the observation of the last training that ran before it, `noop` whether the call must change nothing,
    `suffix` the part of the oracle key that names the history."""
    pcs = phase_cases(case)
    pobs = [obs] + list(obs.get("later") or [])
    out = []
    last = None      # entry of the last training that ran
    n_ran = 0
    for n, (pc, po) in enumerate(zip(pcs, pobs)):
        trained = last is not None and (case["kind"] == "funksvd" or case["epochs"] > 0)
        noop = n > 0 and not pc.get("retrain", True) and trained
        if noop:
            ec = {**last["case"], "queries": pc["queries"], "retrain": False}
            eo = dict(po)
            eo["users"], eo["items"] = last["obs"]["users"], last["obs"]["items"]
        else:
            ec, eo = pc, po
        suffix = (":after-retrain" if (n_ran - (1 if noop else 0)) >= 1 else "") + (":after-noop-train" if noop else "")
        e = {"n": n, "case": ec, "obs": eo, "noop": noop, "prev": last["obs"] if last else None, "suffix": suffix,
             "label": describe_history(pcs, n) if n else ""}
        out.append(e)
        if po.get("error"):
            break
        if not noop:
            last = e
            n_ran += 1
    return out


# ---------------------------------------------------------------------------------------------
# model side
# ---------------------------------------------------------------------------------------------


def F(s):
    return fparse(s)


def c_vec(v):
    return clist(v, lambda x: cq(F(x)))


def c_mat(m):
    return clist(m, c_vec)


def c_srow(row):
    return clist(row, lambda cv: f"({cnat(cv[0])}, {cq(F(cv[1]))})")


def c_rows(rows):
    return clist(rows, c_srow)


def c_hist(h):
    return clist(h, lambda ir: f"({cz(ir[0])}, {cq(F(ir[1]))})")


def c_scores(o):
    return clist(list(zip(o["ids"], o["scores"])), lambda p: f"({cz(p[0])}, {copt(None if p[1] is None else F(p[1]), cq)})")


def c_bias(b, nu, ni):
    return (f"{{| b_global := {cq(F(b['global']))}; b_item := {c_vec(b['item'] or ['0/1'] * ni)}; "
            f"b_user := {c_vec(b['user'] or ['0/1'] * nu)} |}}")


def user_damp(case):
    d = case["damping"]
    return F(d.get("user", "0/1")) if isinstance(d, dict) else F(d)


def regs(case):
    r = case["reg"]
    return (F(r[0]), F(r[1])) if isinstance(r, list) else (F(r), F(r))


def raw_rows(case, obs):
    unum = {u: k for k, u in enumerate(obs["users"])}
    inum = {i: k for k, i in enumerate(obs["items"])}
    rows = [[] for _ in obs["users"]]
    for u, i, r in case["ratings"]:
        rows[unum[u]].append((inum[i], F(r)))
    return [sorted(r) for r in rows]


class Pool:
    """Literals that occur several times in the term of one training (the embedding snapshots around the half-steps,
    the final embeddings and biases used by every query) are bound once with `let`: the case files are a third of the
    size and type-check accordingly faster; vm_compute evaluates the same closed term."""

    def __init__(self):
        self.names, self.defs = {}, []

    def share(self, lit, ty):
        if len(lit) < 40:
            return lit
        if lit not in self.names:
            self.names[lit] = f"s{len(self.names)}"
            self.defs.append(f"let {self.names[lit]} : {ty} := {lit} in")
        return self.names[lit]

    def mat(self, m):
        return self.share(c_mat(m), "mat")

    def optmat(self, m):
        return "None" if m is None else f"(Some {self.mat(m)})"

    def wrap(self, parts):
        return "\n".join(self.defs) + "\n(" + ")\n && (".join(parts) + ")"


def c_optmat(m):
    return "None" if m is None else f"(Some {c_mat(m)})"


def als_parts(case, obs, noop=False, prev=None):
    """Conjuncts for ONE training and its queries; `obs` carries the state that training left."""
    explicit = case["kind"] == "als-explicit"
    fb = "Explicit" if explicit else "Implicit"
    k = cnat(case["k"])
    lam_u, lam_i = regs(case)
    pool = Pool()
    ivocab = pool.share(clist(obs["items"], cz), "list Z")
    parts = []
    if noop:
        # train(retrain=False) on a trained object: no half-step, embeddings as the last training left them
        if obs["steps"]:
            return "false"
        parts.append(f"kept_ok {pool.optmat(prev['P'])} {pool.optmat(obs['P'])} {pool.mat(prev['Q'])} {pool.mat(obs['Q'])}")
    elif obs["steps"]:
        raw = clist(raw_rows(case, obs), lambda r: clist(r, lambda ir: f"({cnat(ir[0])}, {cq(ir[1])})"))
        ui, iu = obs["matrix"]["user"], obs["matrix"]["item"]
        steps = clist(obs["steps"], lambda s: f"{{| hs_side := {'SUser' if s['side'] == 'user' else 'SItem'}; hs_before := {pool.mat(s['before'])}; "
                                              f"hs_other := {pool.mat(s['other'])}; hs_after := {pool.mat(s['after'])} |}}")
        P0, Q0 = obs["steps"][0]["before"], obs["steps"][0]["other"]
        ui_c, iu_c = pool.share(c_rows(ui), "list srow"), pool.share(c_rows(iu), "list srow")
        parts.append(f"trained_ok_opt tol64 {fb} {k} {cq(lam_u)} {cq(lam_i)} {ui_c} {iu_c} {pool.mat(P0)} {pool.mat(Q0)} {steps} {pool.optmat(obs['P'])} {pool.mat(obs['Q'])}")
        parts.append(f"transposed_ok {ui_c} {iu_c}")
        if explicit:
            tolm = "tolf32" if case["rating_dtype"] == "f32" else "tol64"
            parts.append(f"matrix_ok_explicit {tolm} {pool.share(c_bias(obs['bias'], len(obs['users']), len(obs['items'])), 'biases')} {raw} {ui_c}")
        else:
            parts.append(f"matrix_ok_implicit tolf32 {cq(F(case['weight']))} {cbool(case['use_ratings'])} {raw} {ui_c}")
    Popt = pool.optmat(obs["P"])
    unum = {u: n for n, u in enumerate(obs["users"])}
    prefer = cbool(case["user_embeddings"] == "prefer")
    for q, o in zip(case["queries"], obs["queries"]):
        if o["error"]:
            if not (o["error"] == "ESolve" and lam_u == 0):
                parts.append("false")
            continue
        un = copt(unum.get(q["user"]), cnat)
        h = "None" if q["history"] is None else f"(Some {c_hist(q['history'])})"
        if len(o["folds"]) > 1 or len(o["embeds"]) > 1:
            parts.append("false")
            continue
        cands = clist(q["items"], cz)
        # the fold-in system is rebuilt inside query_ok_* from obs["Q"] (the item embeddings this training left), the
        # ridge and the history -- never from a value cached on the object
        if explicit:
            args = (f"{k} {cq(lam_u)} {ivocab} {pool.mat(obs['Q'])} {Popt} {pool.share(c_bias(obs['bias'], len(obs['users']), len(obs['items'])), 'biases')} "
                    f"{cq(user_damp(case))} {prefer} {un} {h} {cands}")
        else:
            args = (f"{k} {cq(lam_u)} {ivocab} {pool.mat(obs['Q'])} {Popt} {cq(F(case['weight']))} {cbool(case['use_ratings'])} "
                    f"{prefer} {un} {h} {cands}")
        tols = "tol64 tolf32" if explicit else "tol64 tolf32 tol32"
        name = "query_ok_explicit" if explicit else "query_ok_implicit"
        if o["embeds"] and not o["folds"]:
            # the private row solver was not observable: history in, embedding out (Model/C10_history.v)
            parts.append(f"{name}_pub {tols} {args} {c_vec(o['embeds'][0]['u'])} {c_scores(o)}")
            continue
        if o["folds"]:
            f = o["folds"][0]
            fold = f"(Some ({c_srow(list(zip(f['nums'], f['vals'])))}, {c_vec(o['embeds'][0]['u'])}))" if o["embeds"] else "None"
        else:
            fold = "None"
        parts.append(f"{name} {tols} {args} {fold} {c_scores(o)}")
    return pool.wrap(parts) if parts else None


def cfloat(h):
    return f"({h})%float"


def qhex(h):
    return Fraction(float.fromhex(h))


def funksvd_parts(case, obs, noop=False, prev=None):
    pool = Pool()
    fm = lambda m: pool.share(clist(m, lambda r: clist(r, cfloat)), "list (list float)")
    qm = lambda m: pool.share(clist(m, lambda r: clist(r, lambda h: cq(qhex(h)))), "mat")
    parts = []
    if noop:
        if obs["ctx"] is not None:
            return "false"
        parts.append(f"kept_ok (Some {qm(prev['P'])}) (Some {qm(obs['P'])}) {qm(prev['Q'])} {qm(obs['Q'])}")
    else:
        c = obs["ctx"]
        if c is None:
            return "false"
        # the samples as the property prescribes them: the stored ratings visited in the order drawn from a generator
        # equal to the one the training was given (obs["order"]); the initial estimate of a rating is the one the code
        # computed for that (user, item) pair
        st = obs["stored"]
        est = {(u, i): b for u, i, b in zip(c["users"], c["items"], c["bias"])}
        if len(est) != len(c["users"]) or sorted(est) != sorted(zip(st["users"], st["items"])):
            return "false"
        smps = clist([(u, i, r, est[(u, i)]) for u, i, r in zip(st["users"], st["items"], st["ratings"])],
                     lambda s: f"({cnat(s[0])}, {cnat(s[1])}, {cfloat(s[2])}, {cfloat(s[3])})")
        rng = "None" if case["range"] is None else f"(Some ({cfloat(float(F(case['range'][0])).hex())}, {cfloat(float(F(case['range'][1])).hex())}))"
        p = (f"(fparams {cnat(case['epochs'])} {cfloat(float(F(case['lrate'])).hex())} "
             f"{cfloat(float(F(case['reg'])).hex())} {rng} {cfloat((0.1).hex())})")
        parts.append(f"funksvd_seeded_agree {p} {cnat(case['k'])} {cnat(len(obs['users']))} {cnat(len(obs['items']))} {smps} "
                     f"{clist(obs['order'], cnat)} {fm(obs['P'])} {fm(obs['Q'])}")
        tw = obs.get("twin")
        if tw is None or tw.get("error"):
            parts.append("false")
        else:
            parts.append(f"same_features {fm(obs['P'])} {fm(obs['Q'])} {fm(tw['P'])} {fm(tw['Q'])}")
    unum = {u: n for n, u in enumerate(obs["users"])}
    ivocab = pool.share(clist(obs["items"], cz), "list Z")
    bias = pool.share(c_bias(obs["bias"], len(obs["users"]), len(obs["items"])), "biases")
    for q, o in zip(case["queries"], obs["queries"]):
        if o["error"]:
            parts.append("false")
            continue
        un = copt(unum.get(q["user"]), cnat)
        h = "None" if q["history"] is None else f"(Some {c_hist(q['history'])})"
        parts.append(f"query_ok_funksvd tolf32 {cnat(case['k'])} {ivocab} {qm(obs['Q'])} {qm(obs['P'])} "
                     f"{bias} {cq(user_damp(case))} {un} {h} {clist(q['items'], cz)} {c_scores(o)}")
    return pool.wrap(parts) if parts else None


def coq_term(case, obs):
    """The conjunction over the training history: every training like a single training, every query against the
    state of the last training that ran before it."""
    mk = funksvd_parts if case["kind"] == "funksvd" else als_parts
    parts = []
    for e in phases(case, obs):
        if e["obs"].get("error"):
            continue
        t = mk(e["case"], e["obs"], e["noop"], e["prev"])
        if t is not None:
            parts.append(t)
    if not parts:
        return None
    return "(" + ")\n && (".join(parts) + ")"


# ---------------------------------------------------------------------------------------------
# the property as a predicate on implementation output (independent of the Coq model)
# ---------------------------------------------------------------------------------------------


def fm(m):
    return [[F(x) for x in r] for r in m]


def dotf(a, b):
    return sum(x * y for x, y in zip(a, b))


def backward_error(A, x, y, data=Fraction(0)):
    """residual |Ax - y| and the scale it is measured against: |A||x| + |y| + the size of the data the right-hand side was
    formed from (`data_scale`: y = M^T v is computed with an error proportional to |M|^T |v|; when its terms cancel --
    two history items with the same embedding and opposite normalised ratings give y = 0 exactly -- |y| says nothing
    about the rounding noise in the code's y and x)."""
    k = len(y)
    r = max((abs(dotf(A[i], x) - y[i]) for i in range(k)), default=Fraction(0))
    na = max((sum(abs(a) for a in row) for row in A), default=Fraction(0))
    nx = max((abs(a) for a in x), default=Fraction(0))
    ny = max((abs(a) for a in y), default=Fraction(0))
    scale = na * nx + ny + data
    return r, scale


def data_scale(k, other, row, explicit):
    """| |M|^T |v| |_inf (explicit) / | |M|^T (|v| + 1) |_inf (implicit), M = other[cols, :]"""
    return max((sum(abs(other[c][a]) * (abs(v) + (0 if explicit else 1)) for c, v in row) for a in range(k)), default=Fraction(0))


def sys_explicit(k, lam, other, row):
    M = [other[c] for c, _ in row]
    n = len(row)
    A = [[sum(m[a] * m[b] for m in M) + (lam * n if a == b else 0) for b in range(k)] for a in range(k)]
    y = [sum(m[a] * v for m, (_, v) in zip(M, row)) for a in range(k)]
    return A, y


def sys_implicit(k, lam, other, row):
    M = [other[c] for c, _ in row]
    A = [[sum(o[a] * o[b] for o in other) + (lam if a == b else 0) + sum(m[a] * m[b] * v for m, (_, v) in zip(M, row))
          for b in range(k)] for a in range(k)]
    y = [sum(m[a] * (v + 1) for m, (_, v) in zip(M, row)) for a in range(k)]
    return A, y


def close(a, b, tol):
    return abs(a - b) <= tol * max(1, abs(b))


def new_user_bias(case, obs, hist):
    b = obs["bias"]
    inum = {i: n for n, i in enumerate(obs["items"])}
    bg = F(b["global"])
    tot = Fraction(0)
    for i, r in hist:
        tot += F(r) - bg - (F(b["item"][inum[i]]) if i in inum else 0)
    den = len(hist) + user_damp(case)
    return tot / den if den else Fraction(0)


def expected_path(case, obs, q):
    unum = {u: n for n, u in enumerate(obs["users"])}
    if q["history"] and case.get("user_embeddings") != "prefer":
        return "fold", unum.get(q["user"])
    n = unum.get(q["user"])
    if n is None or obs["P"] is None:
        return "none", n
    return "trained", n


def stored_user_bias(obs, q):
    b = obs.get("bias") or {}
    if q["user"] in obs["users"] and b.get("user"):
        return F(b["user"][obs["users"].index(q["user"])])
    return None


def zero_bias_note(obs, q, ub):
    """Key suffix and message for a query whose supplied history gives a user bias of exactly 0: the bias that applies is
    that 0, whatever bias training stored for the same user id."""
    if q["history"] is None or ub != 0:
        return "", ""
    st = stored_user_bias(obs, q)
    return ":zero-history-bias", (f" [user {q['user']}: the bias derived from the supplied history {[(i, float(F(r))) for i, r in q['history']]} is exactly 0 and is the one "
                                  f"that applies; bias stored in training: {None if st is None else float(st)}]")


def check_scores(v, tag, q, o, want, tol, note=("", "")):
    if o["ids"] != q["items"]:
        v.append((f"{tag}:alignment", f"result ids {o['ids']} differ from the candidates {q['items']}"))
        return
    for i, s, w in zip(q["items"], o["scores"], want):
        if (s is None) != (w is None):
            v.append((f"{tag}:missing-score", f"item {i}: score {s} but expected {'missing' if w is None else 'a value'}"))
            return
        if s is not None and not close(F(s), w, tol):
            v.append((f"{tag}:score-formula{note[0]}", f"item {i}: score {float(F(s))} differs from embedding dot product plus biases {float(w)}{note[1]}"))
            return


def oracle_als(case, obs, noop=False, prev=None):
    """ONE training and its queries; `obs` carries the state that training left (for a train(retrain=False) on a trained
    object: `prev` is the observation of the last training that ran, `case` its data with this call's queries)."""
    v = []
    explicit = case["kind"] == "als-explicit"
    tag = "explicit" if explicit else "implicit"
    lam_u, lam_i = regs(case)
    if obs["error"]:
        if obs["error"] == "ESolve" and (lam_u == 0 or lam_i == 0):
            return v      # no ridge: the system may be singular; the statement needs regularisation * count > 0
        return [(f"{tag}:training-error", f"training raised {obs['error']}: {obs.get('msg')}")]
    k = case["k"]
    if noop:
        if obs["steps"]:
            return [(f"{tag}:retrain-false-trained", f"train(retrain=False) on a trained object ran {len(obs['steps'])} half-steps")]
        if (obs["P"], obs["Q"], obs.get("bias")) != (prev["P"], prev["Q"], prev.get("bias")):
            return [(f"{tag}:retrain-false-changed-state", "train(retrain=False) on a trained object changed the embeddings or biases")]
    elif len(obs["steps"]) != 2 * case["epochs"]:
        v.append((f"{tag}:step-count", f"{len(obs['steps'])} half-steps for {case['epochs']} epochs"))
    if obs["steps"]:
        raw = raw_rows(case, obs)
        ui = [[(c, F(x)) for c, x in row] for row in obs["matrix"]["user"]]
        iu = [[(c, F(x)) for c, x in row] for row in obs["matrix"]["item"]]
        # the training matrix: bias-normalised ratings / confidence weights, and its transpose
        tolm = TOLB if (case["rating_dtype"] == "f32" or not explicit) else TOL64
        for u, (rr, row) in enumerate(zip(raw, ui)):
            if [c for c, _ in rr] != [c for c, _ in row]:
                v.append((f"{tag}:matrix-pattern", f"user row {u}: columns {[c for c, _ in row]} but ratings on {[c for c, _ in rr]}"))
                break
            for (i, r), (_, x) in zip(rr, row):
                if explicit:
                    b = obs["bias"]
                    want = r - F(b["global"]) - F(b["item"][i]) - F(b["user"][u])
                else:
                    want = r * F(case["weight"]) if case["use_ratings"] else F(case["weight"])
                if not close(x, want, tolm):
                    v.append((f"{tag}:matrix-values", f"entry ({u},{i}) is {float(x)}, expected {float(want)}"))
                    break
        e1 = sorted((u, c, x) for u, row in enumerate(ui) for c, x in row)
        e2 = sorted((c, i, x) for i, row in enumerate(iu) for c, x in row)
        if e1 != e2:
            v.append((f"{tag}:transpose", "the by-item training matrix is not the transpose of the by-user one"))
        # every half-step
        P, Qm = fm(obs["steps"][0]["before"]), fm(obs["steps"][0]["other"])
        for n, s in enumerate(obs["steps"]):
            user_side = n % 2 == 0
            if s["side"] != ("user" if user_side else "item"):
                v.append((f"{tag}:step-order", f"half-step {n} is for side {s['side']}"))
                break
            left, other = (P, Qm) if user_side else (Qm, P)
            if fm(s["before"]) != left or fm(s["other"]) != other:
                v.append((f"{tag}:chain", f"half-step {n} did not start from the values the previous half-step left"))
                break
            rows = ui if user_side else iu
            lam = lam_u if user_side else lam_i
            after = fm(s["after"])
            for r, (row, old, new) in enumerate(zip(rows, left, after)):
                if not row:
                    if new != old:
                        v.append((f"{tag}:empty-row-changed", f"{s['side']} row {r} has no data but changed in half-step {n} from {[float(a) for a in old]} to {[float(a) for a in new]}"))
                        break
                    continue
                A, y = (sys_explicit if explicit else sys_implicit)(k, lam, other, row)
                res, scale = backward_error(A, new, y, data_scale(k, other, row, explicit))
                if res > TOL64 * scale:
                    v.append((f"{tag}:row-not-optimal", f"{s['side']} row {r} after half-step {n}: residual {float(res):.3g} of its normal equations (scale {float(scale):.3g})"))
                    break
            if user_side:
                P = after
            else:
                Qm = after
        if obs["P"] is not None and fm(obs["P"]) != P:
            v.append((f"{tag}:final-user-features", "user_features_ differ from the last user half-step"))
        if fm(obs["Q"]) != Qm:
            v.append((f"{tag}:final-item-features", "item_features_ differ from the last item half-step"))
    # fold-in and scoring
    Qf = fm(obs["Q"])
    inum = {i: n for n, i in enumerate(obs["items"])}
    for qi, (q, o) in enumerate(zip(case["queries"], obs["queries"])):
        if o["error"]:
            if o["error"] == "ESolve" and lam_u == 0:
                continue      # fold-in without ridge: singular system
            v.append((f"{tag}:score-error:{o['error']}", f"scoring raised {o['error']} ({o.get('msg')}) for user {q['user']} history {q['history']}"))
            continue
        path, n = expected_path(case, obs, q)
        ub = Fraction(0)
        if path == "fold":
            if len(o["folds"]) > 1 or len(o["embeds"]) != 1:
                v.append((f"{tag}:foldin-missing", "a history was supplied but no embedding was folded in"))
                continue
            known = [(inum[i], F(r)) for i, r in q["history"] if i in inum]
            if explicit:
                ub = new_user_bias(case, obs, q["history"])
                b = obs["bias"]
                want = [r - (F(b["global"]) + F(b["item"][c]) + ub) for c, r in known]
            else:
                want = [(r * F(case["weight"]) if case["use_ratings"] else F(case["weight"])) for c, r in known]
            slack = Fraction(0)
            if o["folds"]:
                f = o["folds"][0]
                if f["nums"] != [c for c, _ in known]:
                    v.append((f"{tag}:foldin-items", f"fold-in used item numbers {f['nums']}, the history's known items are {[c for c, _ in known]}"))
                    continue
                if any(not close(F(x), w, TOLB) for x, w in zip(f["vals"], want)):
                    v.append((f"{tag}:foldin-values", f"fold-in values {[float(F(x)) for x in f['vals']]} differ from {[float(w) for w in want]}"))
                    continue
                row = list(zip(f["nums"], [F(x) for x in f["vals"]]))
            else:
                # the private row solver was not observable: history in, embedding out.  The code normalises the ratings in
                # single precision (each value within TOLB * max(1, |v|) of v), which moves the right-hand side M^T v of
                # the explicit system by at most the slack below; the implicit confidence values are exact.
                row = [(c, w) for (c, _), w in zip(known, want)]
                if explicit:
                    slack = TOLB * max((sum(abs(Qf[c][a]) * max(1, abs(w)) for c, w in row) for a in range(k)), default=Fraction(0))
            x = [F(a) for a in o["embeds"][0]["u"]]
            if explicit and not row:
                if any(a != 0 for a in x):
                    v.append((f"{tag}:foldin-empty", "no known item in the history but a non-zero embedding"))
            else:
                # the system of THIS history over the item embeddings the last training left (Qf), rebuilt here
                A, y = sys_explicit(k, lam_u, Qf, row) if explicit else sys_implicit(k, lam_u, Qf, row)
                res, scale = backward_error(A, x, y, data_scale(k, Qf, row, explicit))
                if len(x) != k or res > TOL64 * scale + slack:
                    v.append((f"{tag}:foldin-not-optimal", f"folded-in embedding has residual {float(res):.3g} in the system of its history over the current item embeddings (scale {float(scale):.3g})"))
            u = x
        elif path == "trained":
            if o["embeds"]:
                v.append((f"{tag}:unexpected-foldin", "an embedding was folded in although the trained one applies"))
            u = fm(obs["P"])[n]
            if explicit:
                ub = F(obs["bias"]["user"][n])
        else:
            u = None
        want = []
        for i in q["items"]:
            if u is None or i not in inum:
                want.append(None)
            else:
                s = dotf(Qf[inum[i]], u)
                if explicit:
                    s += F(obs["bias"]["global"]) + F(obs["bias"]["item"][inum[i]]) + ub
                want.append(s)
        check_scores(v, tag, q, o, want, TOLB if explicit else TOL32,
                     zero_bias_note(obs, q, ub) if (explicit and path == "fold") else ("", ""))
    return v


def py_funksvd(case, c):
    """Feature-wise SGD with the documented update rule, in binary64 (Python floats)."""
    users, items = c["users"], c["items"]
    ratings = [float.fromhex(h) for h in c["ratings"]]
    est = [float.fromhex(h) for h in c["bias"]]
    nf = case["k"]
    lr, reg = float(F(case["lrate"])), float(F(case["reg"]))
    rmin, rmax = (-float("inf"), float("inf")) if case["range"] is None else (float(F(case["range"][0])), float(F(case["range"][1])))
    return users, items, ratings, est, nf, lr, reg, rmin, rmax


def oracle_funksvd(case, obs, noop=False, prev=None):
    v = []
    if obs["error"]:
        return [("funksvd:training-error", f"training raised {obs['error']}: {obs.get('msg')}")]
    if noop:
        if obs["ctx"] is not None:
            return [("funksvd:retrain-false-trained", "train(retrain=False) on a trained object ran the trainer")]
        if (obs["P"], obs["Q"], obs["bias"]) != (prev["P"], prev["Q"], prev["bias"]):
            return [("funksvd:retrain-false-changed-state", "train(retrain=False) on a trained object changed the features or biases")]
        return v + funksvd_scoring(case, obs)
    if obs["ctx"] is None:
        return [("funksvd:not-trained", "train() returned without running the trainer")]
    c, e = obs["ctx"], obs["expected_order"]
    if (c["users"], c["items"], c["ratings"]) != (e["users"], e["items"], e["ratings"]):
        same = sorted(zip(c["users"], c["items"], c["ratings"])) == sorted(zip(e["users"], e["items"], e["ratings"]))
        v.append(("funksvd:sample-order" + route_tag(case),
                  f"{describe_route(case)}: the samples handed to the trainer are not the rating matrix in the seeded shuffle order "
                  f"(the order drawn from a generator equal to the one the seed stands for)"
                  + (f": (user, item) numbers visited {list(zip(c['users'], c['items']))[:6]}..., seeded order {list(zip(e['users'], e['items']))[:6]}..."
                     if same else ": not even the same ratings")))
    tw = obs.get("twin")
    if tw is not None:
        if tw.get("error"):
            v.append(("funksvd:same-seed-second-training-error" + route_tag(case),
                      f"{describe_route(case)}: a second training from an equal seed source on a new object raised {tw['error']}: {tw.get('msg')}"))
        elif (tw["P"], tw["Q"]) != (obs["P"], obs["Q"]):
            worst = max([abs(float.fromhex(a) - float.fromhex(b)) for ra, rb in zip(obs["P"] + obs["Q"], tw["P"] + tw["Q"]) for a, b in zip(ra, rb)], default=0.0)
            v.append(("funksvd:same-seed-different-features" + route_tag(case),
                      f"{describe_route(case)}: two trainings on the same data from equal seed sources left different features (max difference {worst:.3g})"))
    b = obs["bias"]
    for s, (u, i, h) in enumerate(zip(c["users"], c["items"], c["bias"])):
        want = F(b["global"]) + F(b["item"][i]) + F(b["user"][u])
        if not close(Fraction(float.fromhex(h)), want, TOL64):
            v.append(("funksvd:initial-estimate", f"sample {s}: initial estimate {float.fromhex(h)} is not the bias {float(want)}"))
            break
    users, items, ratings, est, nf, lr, reg, rmin, rmax = py_funksvd(case, c)
    nu, ni = len(obs["users"]), len(obs["items"])
    P = [[0.1] * nf for _ in range(nu)]
    Qm = [[0.1] * nf for _ in range(ni)]
    for f in range(nf):
        trail = 0.1 * 0.1 * (nf - f - 1)
        for _ in range(case["epochs"]):
            for s in range(len(users)):
                u, i = users[s], items[s]
                ufv, ifv = P[u][f], Qm[i][f]
                pred = est[s] + ufv * ifv + trail
                if pred < rmin:
                    pred = rmin
                elif pred > rmax:
                    pred = rmax
                err = ratings[s] - pred
                ufd = (err * ifv - reg * ufv) * lr
                ifd = (err * ufv - reg * ifv) * lr
                P[u][f] = ufv + ufd
                Qm[i][f] = ifv + ifd
        est = [min(max(est[s] + P[users[s]][f] * Qm[items[s]][f], rmin), rmax) for s in range(len(users))]
    gotP = [[float.fromhex(h) for h in r] for r in obs["P"]]
    gotQ = [[float.fromhex(h) for h in r] for r in obs["Q"]]
    if gotP != P or gotQ != Qm:
        worst = max([abs(a - b) for ra, rb in zip(gotP + gotQ, P + Qm) for a, b in zip(ra, rb)], default=0.0)
        v.append(("funksvd:trajectory", f"features differ from feature-wise SGD with the documented rule (max difference {worst:.3g})"))
    return v + funksvd_scoring(case, obs)


def funksvd_scoring(case, obs):
    v = []
    b = obs["bias"]
    gotP = [[float.fromhex(h) for h in r] for r in obs["P"]]
    gotQ = [[float.fromhex(h) for h in r] for r in obs["Q"]]
    unum = {u: n for n, u in enumerate(obs["users"])}
    inum = {i: n for n, i in enumerate(obs["items"])}
    Pq = [[Fraction(x) for x in r] for r in gotP]
    Qq = [[Fraction(x) for x in r] for r in gotQ]
    for q, o in zip(case["queries"], obs["queries"]):
        if o["error"]:
            v.append((f"funksvd:score-error:{o['error']}", f"scoring raised {o['error']} ({o.get('msg')}) for user {q['user']} history {q['history']}"))
            continue
        n = unum.get(q["user"])
        if n is not None:
            ub = new_user_bias(case, obs, q["history"]) if q["history"] is not None else F(b["user"][n])
        want = []
        for i in q["items"]:
            if n is None or i not in inum:
                want.append(None)
            else:
                want.append(dotf(Qq[inum[i]], Pq[n]) + F(b["global"]) + F(b["item"][inum[i]]) + ub)
        check_scores(v, "funksvd", q, o, want, TOLB, zero_bias_note(obs, q, ub) if n is not None else ("", ""))
    return v


def oracle(case, obs):
    """The property on every training of the history and on every query against the state of the LAST training that ran
    before it.  Keys of later trainings carry `:after-retrain` (the state was left by a re-training of the same object)
    and/or `:after-noop-train` (a train(retrain=False) on the trained object came in between)."""
    fn = oracle_funksvd if case["kind"] == "funksvd" else oracle_als
    v = []
    for e in phases(case, obs):
        for key, what in fn(e["case"], e["obs"], e["noop"], e["prev"]):
            v.append((key + e["suffix"], (f"[{e['label']}] " if e["n"] else "") + what))
    seen, out = set(), []
    for k, w in v:
        if k not in seen:
            seen.add(k)
            out.append((k, w))
    return out


def nontrivial(case, obs):
    if obs.get("error"):
        return False
    finite = any(s is not None for o in obs["queries"] if not o["error"] for s in o["scores"])
    if case["kind"] == "funksvd":
        c = obs["ctx"]
        shared = len(set(c["users"])) < len(c["users"]) or len(set(c["items"])) < len(c["items"])
        return finite and shared and len(c["users"]) >= 2
    if not obs["steps"]:
        return False
    rows = sum(1 for r in obs["matrix"]["user"] if r)
    return finite and rows >= 2


def counters(case, obs):
    yield "style=" + case["style"]
    yield "error=" + str(obs.get("error"))
    yield f"k={case['k']}"
    yield f"epochs={case['epochs']}"
    yield "ratings=" + case["rating_dtype"]
    ph = phases(case, obs)
    yield f"trainings-on-one-object={len(ph)}"
    shape = []
    for e in ph:
        pc, po = e["case"], e["obs"]
        if e["n"]:
            yield "later-training=" + str(phase_cases(case)[e["n"]].get("how"))
        yield "seed-route=" + route_of(phase_cases(case)[e["n"]])
        if case["kind"] == "funksvd" and not po.get("error") and po.get("ctx") is not None:
            yield "funksvd-seed-route=" + route_of(phase_cases(case)[e["n"]])
        if po.get("error"):
            shape.append("train-error")
            if e["n"]:
                yield "later-training-error=" + str(po["error"])
            continue
        folded = case["kind"] != "funksvd" and any(o.get("embeds") for o in po["queries"])
        shape.append(("noop-train" if e["noop"] else "train" if not e["n"] else "retrain") + ("+fold-in" if folded else ""))
        yield from phase_counters(pc, po)
    if len(ph) > 1:
        yield "history=" + " ".join(shape)


def phase_counters(case, obs):
    if case["kind"] != "funksvd":
        yield "reg=" + ("per-side" if isinstance(case["reg"], list) else "scalar")
        yield "user_embeddings=" + str(case["user_embeddings"])
        if obs["steps"]:
            ne = sum(1 for r in obs["matrix"]["user"] if not r) + sum(1 for r in obs["matrix"]["item"] if not r)
            yield "rows-without-data=" + str(min(ne, 3))
        for q, o in zip(case["queries"], obs["queries"]):
            yield "path=" + expected_path(case, obs, q)[0]
            if o["embeds"] and not o["folds"]:
                yield "foldin-seen-through-public-interface-only"
            if o["folds"]:
                yield "foldin-known-items=" + str(min(3, len(o["folds"][0]["nums"])))
                if q["history"] and len(o["folds"][0]["nums"]) < len(q["history"]):
                    yield "foldin-history-with-unknown-items"
    elif obs["ctx"] is not None:
        yield "range=" + ("none" if case["range"] is None else "set")
        yield "samples=" + str(min(40, len(obs["ctx"]["users"]) // 10 * 10))
    for q, o in zip(case["queries"], obs["queries"]):
        if q.get("aim"):
            yield "query-aimed-at=" + q["aim"]
        if q.get("hist_dtype"):
            yield "history-rating-dtype=" + q["hist_dtype"]
        if case["kind"] != "als-implicit" and q["history"] and not o["error"]:
            # the bias the definition derives from the supplied history, from the biases read back (exact rationals)
            applies = case["kind"] == "funksvd" or expected_path(case, obs, q)[0] == "fold"
            if applies and new_user_bias(case, obs, q["history"]) == 0:
                st = stored_user_bias(obs, q)
                yield "history-bias-exactly-zero:" + ("unknown-or-no-user" if st is None else "known-user-stored-bias-zero" if st == 0 else "known-user-stored-bias-nonzero")
                if o.get("embeds"):
                    yield "history-bias-exactly-zero:returned-by-new_user_embedding=" + str(o["embeds"][0]["offset"] == "0/1")
                    if all(F(x) == 0 for x in o["embeds"][0]["u"]):
                        yield "history-bias-exactly-zero:all-zero-embedding"
                    elif any(i in obs["items"] for i, _ in q["history"]):
                        yield "history-bias-exactly-zero:non-zero-embedding"
        if not o["error"]:
            if any(s is None for s in o["scores"]):
                yield "query-with-missing-score"
            if not q["items"]:
                yield "empty-candidate-list"


def sample(case, obs):
    small = {k: case[k] for k in ("kind", "k", "epochs", "reg", "seed")}
    small["seed_route"] = route_of(case)
    small["n_ratings"] = len(case["ratings"])
    small["later_trainings"] = [{"how": t.get("how"), "retrain": t.get("retrain", True), "n_ratings": len(t["ratings"]), "seed": t["seed"], "seed_route": route_of(t)}
                                for t in case.get("trainings") or []]
    o = {"error": obs.get("error")}
    if not obs.get("error"):
        o["Q_first_row"] = obs["Q"][0] if obs["Q"] else None
        o["first_query_scores"] = obs["queries"][0].get("scores") if obs["queries"] else None
        o["later"] = [{"error": l.get("error"), "Q_first_row": (l["Q"][0] if l.get("Q") else None)} for l in obs.get("later") or []]
    return {"case": small, "observation": o}


_SHRINKS_LEFT = [5]     # at most 5 failing inputs are minimised per run (every trial re-runs the trainings); the rest are reported as generated


def shrink(case, fails):
    if _SHRINKS_LEFT[0] <= 0:
        return case
    _SHRINKS_LEFT[0] -= 1
    c = dict(case)
    if case.get("trainings"):
        # later trainings first (a failure after a re-training needs its predecessors: whole entries are dropped only
        # while the same key still fails), then the queries and ratings of every training
        tr = common.shrink_list(case["trainings"], lambda xs: fails({**c, "trainings": xs}), 8)
        if tr:
            c["trainings"] = tr
        else:
            c.pop("trainings", None)
    c["queries"] = common.shrink_list(case["queries"], lambda xs: fails({**c, "queries": xs}), 12)
    c["ratings"] = common.shrink_list(case["ratings"], lambda xs: bool(xs) and fails({**c, "ratings": xs}), 40)
    for j in range(len(c.get("trainings") or [])):
        def with_t(field, xs):
            tr = [dict(t) for t in c["trainings"]]
            tr[j][field] = xs
            return {**c, "trainings": tr}
        t = c["trainings"][j]
        qs = common.shrink_list(t["queries"], lambda xs: fails(with_t("queries", xs)), 10)
        c = with_t("queries", qs)
        rs = common.shrink_list(t["ratings"], lambda xs: bool(xs) and fails(with_t("ratings", xs)), 24)
        c = with_t("ratings", rs)
    return c
