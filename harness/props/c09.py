"""C09 -- k-NN scorers compute the documented neighbourhood formula (DESIGN.md section 4, C09)."""

from __future__ import annotations

import itertools
import math
from fractions import Fraction

import common
from common import cbool, clist, cnat, copt, cq, fjson, fparse, frac_of_float

PID = "C09"
PROPS_FILE = "Props/C09.v"
GEN_FILES: list[str] = []
MODEL_FILES = ["Model/C09_knn.v"]
ALLOWED_AXIOMS: list[str] = []
CASE_HEADER = ("From Coq Require Import ZArith QArith.\nFrom LK Require Import Lib.QLib Model.C09_knn.\n"
               "Open Scope Q_scope.")
SHARD = 40
TRUSTED = [
    "Coq 8.16.1 kernel + vm_compute (no native_compute); Print Assumptions of every theorem in Props/C09.v: closed under the global context",
    "hand-written model of _nsr_mean_center/_nsr_unit, _sim_row/_sim_block/_sim_blocks, ItemKNNScorer.__call__, UserKNNScorer._get_user_data/__call__ and "
    "score_items_with_neighbors (Model/C09_knn.v), tied to the source by correspondence cases evaluated inside Coq: similarity values through their squares "
    "(2^-20), threshold decisions exactly outside a 4*2^-20 relative band, every score recomputed from the implementation's own stored similarities "
    "(exact rationals of the float32 values) with the neighbours used passed as a certificate to the verified checkers",
    "harness/props/c09.py: exact float->rational conversion, the certificate search among exactly tied neighbours, capture of torch.mv's argument/result "
    "inside UserKNNScorer.__call__ by wrapping torch.mv in the harness process",
    "torch / scipy.sparse kernels (mv, topk, argsort, CSR/CSC slicing) are exercised, not verified",
    "large cases (harness/c09_large.py): data synthesis from the recipe, the NumPy (float64) evaluation of the definition with its bands (2e-6 around "
    "the threshold and at the k-th similarity, alternatives enumerated), and the scan of the k-NN modules for numeric constants that sizes them; "
    "these cases are not tied to the Coq model",
]
ASSUMPTIONS = [
    "similarity threshold min_sim > 0 (PositiveFloat in the configuration), so every stored similarity is positive (hypothesis positive_sims of the item-side theorems)",
    "a query history lists an item at most once; ratings are finite",
    "the comparison nbr_sims >= min_sim of user-kNN is done in float32 (torch converts the Python scalar); the model uses float32(min_sim)",
    "cosine values are compared through their squares up to 2^-20: equality with the (irrational) cosine itself is not claimed exactly",
    "rating magnitudes are explored as powers of two between 2^-46 and 2^46 (float arithmetic then scales exactly, so the tolerances and the "
    "zero-by-cancellation decisions of the unscaled case carry over); magnitudes whose squares leave the float32 range are not explored",
    "a numeric constant >= 256 in lenskit/knn/*.py or lenskit/math/sparse.py is treated as a possible size threshold and the large cases are sized "
    "to exceed it twice; a size threshold computed otherwise (or placed in another module) is only met by the fixed 10000-user corpus cases",
]
RULE = ("LARGE cases (2 user-kNN, explicit + implicit, and 1 item-kNN per quick run; thousands of users / items, sized from the numeric constants "
        ">= 256 of the k-NN source: more than twice the largest, at least 3000 users / 1500 items; most users qualify as neighbours, niche items are "
        "rated by a handful of low-similarity users, k small; histories longer than any constant) judged by a NumPy evaluation of the definition "
        "alone, no Coq correspondence.  Small cases: structured generator: 2-8 users x 2-8 items (pre-declared; some without ratings), ratings in half steps, rating magnitude 2^-46 .. 2^46 (every rating of the case multiplied by a power of "
        "two; the observation is taken in units of it and must be that of the unscaled case), optional duplicated users/items "
        "(exactly tied similarities) and constant rows (zero norm after centring); explicit or implicit feedback; k in 1..4, min_nbrs in 1..3 "
        "(also > k), dyadic and non-dyadic thresholds (some equal to an attained cosine), save_nbrs none/1..3, two block sizes per case; item-kNN "
        "queries: a training user's row, custom histories with unknown items, empty history; user-kNN queries: known id, known id + history, "
        "unknown id + history, unknown id alone; 1 history in 6 is unusable (empty, only unknown items, one constant rating: zero query vector -- "
        "a scorer that returns before any neighbour search is then judged by the definition, nothing scored); targets include unknown items; call sequences: the same query object (history "
        "held as writable float32 / float64 NumPy arrays, Python lists or Arrow-backed) scored again with other candidate lists, every call checked "
        "and the history compared with what the caller supplied; in 2 of 5 cases both scorers first undergo a re-training (retrain=True, other "
        "vocabularies) that raises at a generated point (unreadable interaction data, first/second normalisation, DataWarning escalated on constant "
        "ratings, late conversion / similarity step) and are then scored against the data of the last successful training.  non-trivial = at least one target whose neighbourhood is larger "
        "than k and one that is unscored for too few neighbours, and at least 6 ratings; distinct = by hash of the case")

TOL = "tol32"
TOLD = "(1 # 262144)"        # 2^-18: float32 dot products of up to 8 terms


# ---------------------------------------------------------------------------------------------
# generator
# ---------------------------------------------------------------------------------------------

HIST_KINDS = ["f32", "f32", "f64", "list", "arrow"]
# rating MAGNITUDE: every rating of a case (training data, query histories) is multiplied by 2**scale_log2.  Cosine similarity does not
# depend on the magnitude of the rating vectors and explicit-feedback scores scale with it, so the observation is reported in units of the
# scale and has to be what the unscaled case gives.  Powers of two only: the float computations of the scaled case are then exactly the
# scaled computations of the unscaled one (no underflow / overflow between 2**-46 ~ 1.4e-14 and 2**46 ~ 7e13, also for squares in float32),
# so the tolerances and the exact-zero decisions (constant histories) of the unscaled case carry over unchanged.
SCALES = [(0, 12), (-46, 3), (-40, 1), (-33, 1), (-20, 1), (-7, 1), (10, 1), (24, 1), (33, 1), (46, 2)]
MIN_SIMS = [Fraction(1, 1024), Fraction(1, 8), Fraction(1, 4), Fraction(1, 2), Fraction(1e-6), Fraction(0.05), Fraction(0.3)]


def gen_case(rng, edge=False):
    style = "regular"
    sizes = [(2, 1), (3, 2), (4, 3), (5, 3), (6, 4), (7, 3), (8, 4)]
    nu, ni = rng.weighted(sizes), rng.weighted(sizes)
    if edge:
        style = rng.choice(["dup-users", "dup-items", "constant-rows", "dense", "sparse"])
    dens = {"dense": (9, 10), "sparse": (3, 10)}.get(style, rng.choice([(6, 10), (7, 10), (8, 10)]))
    # half of the datasets carry user and item effects so that centred vectors correlate positively
    latent = rng.chance(1, 2)
    bu = [rng.randint(-3, 3) for _ in range(nu)]
    ci = [rng.randint(-3, 3) for _ in range(ni)]
    cells = {}
    for u in range(nu):
        for i in range(ni):
            if rng.chance(*dens):
                if latent:
                    v = 6 + bu[u] + ci[i] + rng.randint(-1, 1)
                    cells[(u, i)] = Fraction(max(1, min(10, v)), 2)
                else:
                    cells[(u, i)] = Fraction(rng.randint(1, 10), 2)
    if style == "constant-rows":
        u0, i0 = rng.below(nu), rng.below(ni)
        c = Fraction(rng.randint(1, 10), 2)
        for i in range(ni):
            if (u0, i) in cells:
                cells[(u0, i)] = c
        for u in range(nu):
            if (u, i0) in cells:
                cells[(u, i0)] = c
    if style == "dup-users" and nu >= 3:
        a, b = rng.sample(list(range(nu)), 2)
        for i in range(ni):
            cells.pop((b, i), None)
            if (a, i) in cells:
                cells[(b, i)] = cells[(a, i)]
    if style == "dup-items" and ni >= 3:
        a, b = rng.sample(list(range(ni)), 2)
        for u in range(nu):
            cells.pop((u, b), None)
            if (u, a) in cells:
                cells[(u, b)] = cells[(u, a)]
    if rng.chance(1, 3):          # an item / a user without any rating
        i0 = rng.below(ni)
        cells = {k: v for k, v in cells.items() if k[1] != i0}
    if rng.chance(1, 4):
        u0 = rng.below(nu)
        cells = {k: v for k, v in cells.items() if k[0] != u0}
    if not cells:
        cells[(0, 0)] = Fraction(3)
    ratings = [[u, i, fjson(r)] for (u, i), r in rng.shuffle(sorted(cells.items()))]
    feedback = rng.weighted([("explicit", 3), ("implicit", 2)])
    k = rng.weighted([(1, 3), (2, 4), (3, 2), (4, 1)])
    min_nbrs = rng.weighted([(1, 6), (2, 3), (3, 1)])
    min_sim = rng.weighted([(m, w) for m, w in zip(MIN_SIMS, [4, 3, 2, 1, 4, 3, 2])])
    save = rng.weighted([(None, 3), (1, 1), (2, 2), (3, 1)])
    bs = rng.sample([1, 2, 3, 5, 250], 2)
    scale_log2 = rng.fork("scale").weighted(SCALES)

    def rand_hist(unknown=True):
        ids = rng.sample(list(range(ni)), rng.randint(1, min(ni, 5)))
        if unknown:
            ids += [f"x{j}" for j in rng.subset(range(2), 1, 3)]
        return [[x, fjson(Fraction(rng.randint(1, 10), 2))] for x in rng.shuffle(ids)]

    def unusable(hist):
        """now and then a history nothing can be computed from: empty, only items the model does not know, or (explicit
        feedback: zero vector after centring) one and the same rating everywhere"""
        if hist is None or not rng.chance(1, 6):
            return hist
        how = rng.choice(["empty", "only-unknown", "constant"])
        if how == "empty":
            return []
        if how == "only-unknown":
            return [[f"x{j}", fjson(Fraction(rng.randint(1, 10), 2))] for j in range(rng.randint(1, 2))]
        c = fjson(Fraction(rng.randint(1, 10), 2))
        return [[x, c] for x, _ in hist]

    def rand_items():
        its = rng.sample(list(range(ni)), rng.randint(1, ni)) + [f"x{j}" for j in rng.subset(range(2), 1, 3)]
        return rng.shuffle(its)

    iq = []
    for _ in range(rng.randint(2, 4)):
        kind = rng.weighted([("row", 5), ("custom", 4), ("empty", 1)])
        if kind == "row":
            u = rng.below(nu)
            hist = [[i, fjson(cells[(u, i)])] for i in range(ni) if (u, i) in cells]
        elif kind == "custom":
            hist = rand_hist()
        else:
            hist = []
        iq.append({"hist": unusable(hist), "items": rand_items(), "hist_kind": rng.choice(HIST_KINDS), "same_as": None})
    uq = []
    for _ in range(rng.randint(2, 4)):
        kind = rng.weighted([("id", 4), ("id+hist", 2), ("id+own", 2), ("unknown+hist", 2), ("unknown", 1)])
        user = rng.below(nu) if kind.startswith("id") else "unknown"
        hist = None
        if kind in ("id+hist", "unknown+hist"):
            hist = rand_hist()
        if kind == "id+own":
            hist = [[i, fjson(cells[(user, i)])] for i in range(ni) if (user, i) in cells]
        uq.append({"user": user, "hist": unusable(hist), "items": rand_items(), "hist_kind": rng.choice(HIST_KINDS), "same_as": None})
    # call sequences: the SAME query object scored again, with another candidate list
    for qs in (iq, uq):
        for j in range(len(qs)):
            for _ in range(rng.weighted([(0, 2), (1, 3), (2, 1)])):
                qs.append({**qs[j], "items": rand_items(), "same_as": j})
    # optionally a re-training that fails part-way before any scoring (the old model must survive intact)
    modes = ["data", "unit", "late"] + (["warn", "center"] if feedback == "explicit" else [])
    retrain = rng.choice(modes) if rng.chance(2, 5) and nu >= 3 and ni >= 3 else None
    # a threshold equal to an attained cosine now and then: handled by the band
    return {"nu": nu, "ni": ni, "ratings": ratings, "feedback": feedback, "k": k, "min_nbrs": min_nbrs,
            "min_sim": fjson(min_sim), "save_nbrs": save, "block_sizes": bs, "item_queries": iq, "user_queries": uq,
            "retrain": retrain, "style": style, "scale_log2": scale_log2}


def large_sizes():
    """sizes of the large cases, derived from the numeric constants of the k-NN source (harness/c09_large.py); a constant that cannot be
    exceeded is reported by `translate` -- the cases are then generated at the largest affordable size all the same"""
    import c09_large as L
    out = {}
    for which in ("user", "item"):
        try:
            out[which] = L.size_for(which)
        except L.SizeError:
            out[which] = (2 * L.CAP[which] + L.MARGIN[which], L.CAP[which])
    return out


def translate():
    """no fragment is regenerated; the source is scanned for numeric constants that may be size thresholds (fail closed)"""
    import c09_large as L
    from framework import TranslateError
    try:
        for which in ("user", "item"):
            L.size_for(which)
    except L.SizeError as e:
        raise TranslateError(str(e)) from None
    return {}


def gen_cases(rng, tier):
    import c09_large as L
    n = 320 if tier == "quick" else 2000
    sizes = large_sizes()
    lr = rng.fork("large")
    plan = ["user", "user", "item"] if tier == "quick" else ["user", "user", "item", "user", "user", "item"]
    large = []
    for j, which in enumerate(plan):
        c = L.gen_large(lr.fork(j), which, *sizes[which])
        if which == "user":          # both feedback modes in every run
            c["feedback"] = "explicit" if sum(1 for x in large if x["large"] == "user") % 2 == 0 else "implicit"
        large.append(c)
    return large + [gen_case(rng.fork(k), edge=(k % 3 == 2)) for k in range(n)]


# ---------------------------------------------------------------------------------------------
# implementation driver
# ---------------------------------------------------------------------------------------------

_ready = False


def _setup():
    global _ready, np, pd, torch, DatasetBuilder, ItemList, RecQuery, ItemKNNScorer, UserKNNScorer
    if _ready:
        return
    common.use_repo()
    import logging

    import numpy as np
    import pandas as pd
    import structlog
    import torch

    # lenskit's structlog loggers write warnings ("user has no ratings", "ratings are constant") to stderr
    structlog.configure(wrapper_class=structlog.make_filtering_bound_logger(logging.CRITICAL))
    from lenskit.data import DatasetBuilder, ItemList, RecQuery
    from lenskit.knn.item import ItemKNNScorer
    from lenskit.knn.user import UserKNNScorer

    _ready = True


def uid(u):
    return 999 if u == "unknown" else 100 + u


def iid(i):
    return 900 + int(i[1:]) if isinstance(i, str) else 200 + i


def _num(x):
    return fjson(frac_of_float(x))


def _nums(a):
    return [_num(v) for v in np.asarray(a, dtype=float).tolist()]


def scale_of(case):
    """the factor every rating of the case is multiplied by (a power of two: exact in every float type)"""
    return 2.0 ** int(case.get("scale_log2") or 0)


def build_dataset(case):
    sc = scale_of(case)
    df = pd.DataFrame({
        "user_id": [uid(r[0]) for r in case["ratings"]],
        "item_id": [iid(r[1]) for r in case["ratings"]],
        "rating": [float(fparse(r[2])) * sc for r in case["ratings"]],
    })
    dsb = DatasetBuilder()
    dsb.add_entities("item", [iid(i) for i in range(case["ni"])])
    dsb.add_entities("user", [uid(u) for u in range(case["nu"])])
    dsb.add_interactions("rating", df, entities=["user", "item"], missing="error", default=True)
    return dsb.build()


def _ilist(items, ratings=None):
    arr = np.array([iid(x) for x in items], dtype=np.int64)
    if ratings is None:
        return ItemList(item_ids=arr)
    return ItemList(item_ids=arr, rating=np.array([float(fparse(r)) for r in ratings], dtype=np.float32))


def make_hist(q, sc=1.0):
    """the query's history in the generated container; returns (ItemList, caller-side array or None, original values)"""
    ids = [iid(x) for x, _ in q["hist"]]
    vals = [float(fparse(r)) * sc for _, r in q["hist"]]
    kind = q.get("hist_kind", "f32")
    keep = None
    if kind in ("f32", "f64"):
        keep = np.array(vals, dtype=np.float32 if kind == "f32" else np.float64)
        il = ItemList(item_ids=np.array(ids, dtype=np.int64), rating=keep)
    elif kind == "list":
        il = ItemList(item_ids=np.array(ids, dtype=np.int64), rating=list(vals)) if ids else ItemList(item_ids=np.array([], dtype=np.int64), rating=np.array([], dtype=np.float32))
    else:
        import pyarrow as pa
        il = ItemList.from_arrow(pa.table({"item_id": pa.array(ids, pa.int64()), "rating": pa.array(vals, pa.float32())}))
    return il, keep, (ids, vals)


def hist_intact(il, keep, orig):
    ids, vals = orig
    try:
        if not ids:
            return len(il) == 0
        ok = [int(x) for x in il.ids()] == ids and np.array_equal(np.asarray(il.field("rating", "numpy"), dtype=np.float64), np.array(vals, dtype=np.float64))
        if keep is not None:
            ok = ok and np.array_equal(keep.astype(np.float64), np.array(vals, dtype=np.float64))
        return bool(ok)
    except Exception:  # noqa: BLE001
        return False


class Boom(RuntimeError):
    pass


class FailingData:
    """a dataset whose interaction data cannot be read (vocabularies and counts still can)"""

    def __init__(self, ds):
        self._ds = ds

    def __getattr__(self, name):
        if name in ("interaction_matrix", "interactions", "interaction_table"):
            raise Boom("injected: interaction data unavailable")
        return getattr(self._ds, name)


def second_dataset(case, constant):
    """data for the re-training: first user and first item gone (every number shifts), optionally constant ratings"""
    rows = [r for r in case["ratings"] if r[0] != 0 and r[1] != 0] or [[1, 1, "3/1"]]
    sc = scale_of(case)
    df = pd.DataFrame({"user_id": [uid(r[0]) for r in rows], "item_id": [iid(r[1]) for r in rows],
                       "rating": [(3.0 if constant else float(fparse(r[2]))) * sc for r in rows]})
    dsb = DatasetBuilder()
    dsb.add_entities("item", [iid(i) for i in range(1, case["ni"])])
    dsb.add_entities("user", [uid(u) for u in range(1, case["nu"])])
    dsb.add_interactions("rating", df, entities=["user", "item"], missing="error", default=True)
    return dsb.build()


def failing_retrain(scorer, which, case):
    """re-train with retrain=True so that training raises at the generated point; True iff it raised"""
    import warnings

    import lenskit.knn.item as KI
    import lenskit.knn.user as KU
    from lenskit.diagnostics import DataWarning
    from lenskit.training import TrainingOptions

    mode = case["retrain"]
    explicit = case["feedback"] == "explicit"
    mod = KI if which == "item" else KU
    data = second_dataset(case, constant=(mode == "warn"))
    saved = {}
    if mode == "data":
        data = FailingData(data)
    elif mode in ("center", "unit"):
        nth = 2 if (mode == "unit" and explicit) else 1
        orig, count = mod.normalize_sparse_rows, [0]

        def nsr(*a, **k):
            count[0] += 1
            if count[0] == nth:
                raise Boom(f"injected: normalisation call {nth}")
            return orig(*a, **k)

        saved["normalize_sparse_rows"] = orig
        mod.normalize_sparse_rows = nsr
    elif mode == "late":
        if which == "item":
            def boom(*a, **k):
                raise Boom("injected: similarity computation")
            scorer._compute_similarities = boom
        else:
            saved["torch_sparse_to_scipy"] = mod.torch_sparse_to_scipy

            def boom(*a, **k):
                raise Boom("injected: conversion of the rating matrix")
            mod.torch_sparse_to_scipy = boom
    raised = False
    try:
        with warnings.catch_warnings():
            if mode == "warn":
                warnings.simplefilter("error", DataWarning)
            try:
                scorer.train(data, TrainingOptions(retrain=True))
            except (Boom, DataWarning):
                raised = True
    finally:
        for k, v in saved.items():
            setattr(mod, k, v)
        if mode == "late" and which == "item":
            del scorer._compute_similarities
    return raised


def snap_item(s):
    m = s.sim_matrix_
    return (m.indptr.tobytes(), m.indices.tobytes(), m.data.tobytes(), None if s.item_means_ is None else s.item_means_.tobytes(),
            s.item_counts_.tobytes(), [int(x) for x in s.items_.ids()], [int(x) for x in s.users_.ids()])


def snap_user(us):
    r = us.user_ratings_
    return (us.user_vectors_.to_dense().numpy().tobytes(), r.indptr.tobytes(), r.indices.tobytes(), r.data.tobytes(),
            None if us.user_means_ is None else us.user_means_.numpy().tobytes(),
            [int(x) for x in us.items_.ids()], [int(x) for x in us.users_.ids()])


def _csr_rows(m, perm_rows, col_of):
    """rows of a scipy CSR matrix as [[col, value]...] in case numbering, columns ascending"""
    out = []
    for r in perm_rows:
        lo, hi = m.indptr[r], m.indptr[r + 1]
        row = sorted((col_of[int(c)], _num(v)) for c, v in zip(m.indices[lo:hi], m.data[lo:hi]))
        out.append([[c, v] for c, v in row])
    return out


def run_impl(case):
    _setup()
    import warnings
    warnings.filterwarnings("ignore")
    if case.get("large"):
        import c09_large as L
        return L.run_large(case)
    ds = build_dataset(case)
    ni, nu = case["ni"], case["nu"]
    min_sim = float(fparse(case["min_sim"]))
    cfg = dict(k=case["k"], min_nbrs=case["min_nbrs"], min_sim=min_sim, feedback=case["feedback"])
    sc = scale_of(case)
    # quantities in rating units (means, centred ratings, explicit-feedback scores) are reported in units of the scale (exact division)
    unit = sc if case["feedback"] == "explicit" else 1.0

    def _numu(x):
        f = frac_of_float(x)
        return None if f is None else fjson(f / Fraction(unit))

    def _numsu(a):
        return [_numu(v) for v in np.asarray(a, dtype=float).tolist()]

    obs = {"unit": fjson(Fraction(unit))}
    # ---- item-kNN
    mats = []
    for bs in case["block_sizes"]:
        s = ItemKNNScorer(save_nbrs=case["save_nbrs"], block_size=bs, **cfg)
        s.train(ds)
        mats.append(s)
    a, b = mats[0].sim_matrix_, mats[1].sim_matrix_
    obs["blocks_equal"] = bool(np.array_equal(a.indptr, b.indptr) and np.array_equal(a.indices, b.indices)
                               and a.data.tobytes() == b.data.tobytes())
    s = mats[0]
    inum = [int(s.items_.number(iid(i))) for i in range(ni)]
    case_of = {n: i for i, n in enumerate(inum)}
    obs["S"] = _csr_rows(s.sim_matrix_.tocsr(), inum, case_of)
    obs["sorted_indices"] = bool(all(list(np.diff(s.sim_matrix_.indices[s.sim_matrix_.indptr[r]:s.sim_matrix_.indptr[r + 1]]) > 0) == [True] * max(0, s.sim_matrix_.indptr[r + 1] - s.sim_matrix_.indptr[r] - 1) for r in range(ni)))
    obs["item_means"] = None if s.item_means_ is None else [_numu(s.item_means_[n]) for n in inum]
    obs["item_counts"] = [int(s.item_counts_[n]) for n in inum]
    obs["retrain_raised"] = {}
    obs["model_unchanged"] = {}
    if case.get("retrain"):
        before = snap_item(s)
        obs["retrain_raised"]["item"] = failing_retrain(s, "item", case)
        obs["model_unchanged"]["item"] = snap_item(s) == before
    iq, objs = [], {}
    for j, q in enumerate(case["item_queries"]):
        base = j if q.get("same_as") is None else q["same_as"]
        if base not in objs:
            il, keep, orig = make_hist(q, sc)
            objs[base] = (RecQuery(user_id=12345, user_items=il), il, keep, orig)
        try:
            res = s(objs[base][0], _ilist(q["items"]))
            iq.append({"scores": _numsu(res.scores()), "aligned": list(res.ids()) == [iid(x) for x in q["items"]]})
        except Exception as e:  # noqa: BLE001
            iq.append({"scores": [None] * len(q["items"]), "aligned": True, "error": f"{type(e).__name__}: {e}"[:120]})
    for j, o in enumerate(iq):
        base = j if case["item_queries"][j].get("same_as") is None else case["item_queries"][j]["same_as"]
        o["hist_intact"] = hist_intact(*objs[base][1:])
    obs["item_queries"] = iq
    # ---- user-kNN
    us = UserKNNScorer(**cfg)
    us.train(ds)
    unum = [int(us.users_.number(uid(u))) for u in range(nu)]
    inum2 = [int(us.items_.number(iid(i))) for i in range(ni)]
    V = us.user_vectors_.to_dense().numpy()
    obs["V"] = [[_num(V[un, im]) for im in inum2] for un in unum]
    R = us.user_ratings_.tocsr()
    R.sort_indices()
    rows = []
    for un in unum:
        lo, hi = R.indptr[un], R.indptr[un + 1]
        d = {int(c): _numu(v) for c, v in zip(R.indices[lo:hi], R.data[lo:hi])}
        rows.append([d.get(im) for im in inum2])
    obs["UR"] = rows
    obs["user_means"] = None if us.user_means_ is None else [_numu(us.user_means_[un].item()) for un in unum]
    case_user = {n: u for u, n in enumerate(unum)}
    if case.get("retrain"):
        before = snap_user(us)
        obs["retrain_raised"]["user"] = failing_retrain(us, "user", case)
        obs["model_unchanged"]["user"] = snap_user(us) == before
    uq, uobjs = [], {}
    orig_mv = torch.mv
    for j, q in enumerate(case["user_queries"]):
        base = j if q.get("same_as") is None else q["same_as"]
        if base not in uobjs:
            if q["hist"] is None:
                uobjs[base] = (RecQuery(user_id=uid(q["user"]), user_items=None), None, None, None)
            else:
                il, keep, orig = make_hist(q, sc)
                uobjs[base] = (RecQuery(user_id=uid(q["user"]), user_items=il), il, keep, orig)
        cap = []

        def mv(m, v, _cap=cap):
            r = orig_mv(m, v)
            _cap.append((v.detach().clone(), r.detach().clone()))
            return r

        torch.mv = mv
        err = None
        try:
            res = us(uobjs[base][0], _ilist(q["items"]))
        except Exception as e:  # noqa: BLE001
            err = f"{type(e).__name__}: {e}"[:120]
        finally:
            torch.mv = orig_mv
        if err is not None:
            uq.append({"scores": [None] * len(q["items"]), "aligned": True, "q": None, "sims": None, "error": err, "hist_intact": True})
            continue
        o = {"scores": _numsu(res.scores()), "aligned": list(res.ids()) == [iid(x) for x in q["items"]], "q": None, "sims": None}
        if cap:
            qv, sims = cap[0]
            qv, sims = qv.numpy(), sims.numpy()
            if len(qv) == len(inum2) and len(sims) == len(unum):
                o["q"] = [_num(qv[im]) for im in inum2]
                o["sims"] = [_num(sims[un]) for un in unum]
            else:
                o["error"] = "neighbour search over a model of another shape"
        uq.append(o)
    for j, o in enumerate(uq):
        base = j if case["user_queries"][j].get("same_as") is None else case["user_queries"][j]["same_as"]
        if "hist_intact" not in o:
            o["hist_intact"] = True if uobjs[base][1] is None else hist_intact(*uobjs[base][1:])
    obs["user_queries"] = uq
    obs["thr32"] = _num(np.float32(min_sim))
    return obs


# ---------------------------------------------------------------------------------------------
# shared helpers over the observation (pure Python)
# ---------------------------------------------------------------------------------------------


def _S(obs):
    return [{c: fparse(v) for c, v in row} for row in obs["S"]]


def find_selection(cands, sim, k, agg, want, tol=Fraction(1, 2**18)):
    """positions of a top selection (k most similar of cands; ties by position) whose aggregate matches `want`"""
    order = sorted(cands, key=lambda p: (-sim[p], p))
    if len(order) <= k:
        return order, True
    thr = sim[order[k - 1]]
    must = [p for p in order if sim[p] > thr]
    tie = [p for p in order if sim[p] == thr]
    need = k - len(must)
    for combo in itertools.islice(itertools.combinations(tie, need), 3000):
        ks = must + list(combo)
        if want is not None:
            v = agg(ks)
            if v is not None and abs(v - want) <= tol * max(1, abs(v)):
                return ks, True
    return must + tie[:need], False


def item_neighbourhood(case, obs, q, t):
    """positions (into the rated list), their sims and centred values for target item t"""
    S = _S(obs)
    explicit = case["feedback"] == "explicit"
    means = None if obs["item_means"] is None else [fparse(m) for m in obs["item_means"]]
    rated = [(x, (fparse(r) - means[x]) if explicit else Fraction(1)) for x, r in q["hist"] if not isinstance(x, str)]
    sim = {p: S[r].get(t) for p, (r, _) in enumerate(rated)}
    st = [p for p in range(len(rated)) if sim[p] is not None]
    val = {p: v for p, (_, v) in enumerate(rated)}
    off = means[t] if explicit else Fraction(0)
    return st, sim, val, off


def agg_fn(explicit, sim, val, off):
    def f(ks):
        tot = sum(sim[p] for p in ks)
        if explicit:
            if tot == 0:
                return None
            return sum(sim[p] * val[p] for p in ks) / tot + off
        return tot + off
    return f


def user_neighbourhood(case, obs, q, qo, i):
    explicit = case["feedback"] == "explicit"
    sims = [fparse(s) for s in qo["sims"]]
    if q["user"] != "unknown":
        sims[q["user"]] = Fraction(0)
    thr = fparse(obs["thr32"])
    qual = [u for u in range(case["nu"]) if sims[u] >= thr]
    rs = [u for u in qual if obs["UR"][u][i] is not None]
    sim = {u: sims[u] for u in range(case["nu"])}
    val = {u: (fparse(obs["UR"][u][i]) if obs["UR"][u][i] is not None else Fraction(0)) for u in range(case["nu"])}
    return qual, rs, sim, val


def user_mean(case, obs, q):
    if case["feedback"] != "explicit":
        return Fraction(0)
    if q["hist"] is not None:
        rs = [fparse(r) for _, r in q["hist"]]
        return sum(rs) / len(rs) if rs else Fraction(0)      # empty history: NaN mean, nothing is scored
    if q["user"] == "unknown":
        return Fraction(0)
    return fparse(obs["user_means"][q["user"]])


def exact_qvec(case, q):
    """the (un-normalised) query vector of the definition, exact: the supplied history centred by its own mean (explicit) or its
    indicator (implicit), restricted to known items; without a history the training row of the known user, centred by its mean;
    None for a query without any user data"""
    ni = case["ni"]
    explicit = case["feedback"] == "explicit"
    if q["hist"] is not None:
        known = {x: fparse(r) for x, r in q["hist"] if not isinstance(x, str)}
        rs = [fparse(r) for _, r in q["hist"]]
    elif q["user"] == "unknown":
        return None
    else:
        known = {i: fparse(r) for u, i, r in case["ratings"] if u == q["user"]}
        rs = list(known.values())
    if not explicit:
        return [Fraction(1) if i in known else Fraction(0) for i in range(ni)]
    mean = sum(rs) / len(rs) if rs else Fraction(0)
    return [(known[i] - mean) if i in known else Fraction(0) for i in range(ni)]


def nothing_to_search_with(case, q):
    """no user data at all, or a query vector that is zero (empty history, no known item, every rating equal to the mean): the cosine
    with every training user is 0 < min_sim, so by the definition no neighbour exists and nothing can be scored -- a scorer may
    legitimately return before computing any similarity"""
    vec = exact_qvec(case, q)
    return vec is None or not any(vec)


# ---------------------------------------------------------------------------------------------
# model side
# ---------------------------------------------------------------------------------------------


def c_q(v):
    return cq(fparse(v))


def c_oq(v):
    return copt(None if v is None else fparse(v), cq)


def c_ref(x):
    return "None" if isinstance(x, str) else f"(Some {cnat(x)})"


def c_orows(rows):
    return clist(rows, lambda r: clist(r, c_oq))


def coq_term(case, obs):
    if case.get("large"):
        return None          # judged by the brute-force evaluation of the definition alone (see harness/c09_large.py)
    nu, ni = case["nu"], case["ni"]
    explicit = case["feedback"] == "explicit"
    cells = {(u, i): r for u, i, r in case["ratings"]}
    if not obs["blocks_equal"] or not obs["sorted_indices"]:
        return "false"
    if case.get("retrain") and not (all(obs["retrain_raised"].values()) and all(obs["model_unchanged"].values())):
        return "false"
    if any(o.get("error") or not o["hist_intact"] for o in obs["item_queries"] + obs["user_queries"]):
        return "false"
    parts = []
    # (a) item similarity rows against the signed squared cosine of the data
    Ri = [[cells.get((u, i)) for u in range(nu)] for i in range(ni)]
    save = "None" if case["save_nbrs"] is None else f"(Some {cnat(case['save_nbrs'])})"
    rows = clist(obs["S"], lambda row: clist(row, lambda cv: f"({cnat(cv[0])}, {c_q(cv[1])})"))
    parts.append(f"forallb (fun ir => agree_sim_row {TOL} Vi {c_q(case['min_sim'])} {save} (fst ir) (snd ir)) "
                 f"(combine (seq 0 {cnat(ni)}) {rows})")
    if explicit:
        if obs["item_means"] is None:
            return "false"
        parts.append(f"agree_means {TOL} Ri {clist(obs['item_means'], c_q)}")
    elif obs["item_means"] is not None:
        return "false"
    # (b) item scores over the stored matrix
    means = "[]" if obs["item_means"] is None else clist(obs["item_means"], c_q)
    for q, qo in zip(case["item_queries"], obs["item_queries"]):
        if not qo["aligned"] or len(qo["scores"]) != len(q["items"]):
            return "false"
        hist = clist(q["hist"], lambda p: f"({c_ref(p[0])}, {c_q(p[1])})")
        for t, sc in zip(q["items"], qo["scores"]):
            ks = []
            if not isinstance(t, str) and q["hist"]:
                st, sim, val, off = item_neighbourhood(case, obs, q, t)
                if len(st) >= case["min_nbrs"]:
                    ks, _ = find_selection(st, sim, case["k"], agg_fn(explicit, sim, val, off),
                                           None if sc is None else fparse(sc))
            parts.append(f"item_score_ok_b (fun o q => close {TOL} o q) im {hist} {c_ref(t)} {clist(ks, cnat)} {c_oq(sc)}")
    # (c) user side: stored vectors against the data, then every query
    Ru = [[cells.get((u, i)) for i in range(ni)] for u in range(nu)]
    prepf = "centre" if explicit else "ones"
    parts.append(f"all2 (fun r v => agree_unit {TOL} ({prepf} r) v) Ru {clist(obs['V'], lambda r: clist(r, c_q))}")
    if explicit:
        if obs["user_means"] is None:
            return "false"
        parts.append(f"agree_means {TOL} Ru {clist(obs['user_means'], c_q)}")
        # user_ratings_: centred values at exactly the rated positions
        parts.append(f"all2 (fun r o => all2 (agree_opt {TOL}) (map (fun x => match x with Some y => Some (y - row_mean r) | None => None end) r) o) "
                     f"Ru {c_orows(obs['UR'])}")
    else:
        parts.append(f"all2 (fun r o => all2 (agree_opt {TOL}) (map (fun x => match x with Some _ => Some 1 | None => None end) r) o) "
                     f"Ru {c_orows(obs['UR'])}")
    for q, qo in zip(case["user_queries"], obs["user_queries"]):
        if not qo["aligned"] or len(qo["scores"]) != len(q["items"]):
            return "false"
        umean = user_mean(case, obs, q)
        no_data = q["hist"] is None and q["user"] == "unknown"
        if qo["sims"] is None:
            # the scorer returned before computing neighbour similarities: legitimate when there is nothing to search with (no user
            # data, or a zero query vector); judged by the definition -- the similarities of a zero vector are all 0, and the model
            # evaluated on them must agree that every candidate stays unscored
            if not nothing_to_search_with(case, q) or any(s is not None for s in qo["scores"]):
                return "false"
            if not no_data:
                self0 = "None" if q["user"] == "unknown" else f"(Some {cnat(q['user'])})"
                zeros = clist([Fraction(0)] * nu, cq)
                for t in q["items"]:
                    parts.append(f"user_score_ok_b (fun o q => close {TOL} o q) um {self0} {zeros} {cq(umean)} {c_ref(t)} [] None")
            continue
        if no_data:
            return "false"
        # the query vector
        qv = clist(qo["q"], c_q)
        if q["hist"] is None:
            parts.append(f"all2 Qeqb (nth {cnat(q['user'])} Vu []) {qv}")
        else:
            known = {x: fparse(r) for x, r in q["hist"] if not isinstance(x, str)}
            if explicit:
                vec = [(known[i] - umean) if i in known else Fraction(0) for i in range(ni)]
            else:
                vec = [Fraction(1) if i in known else Fraction(0) for i in range(ni)]
            parts.append(f"agree_unit {TOL} {clist(vec, cq)} {qv}")
        parts.append(f"agree_sims {TOLD} Vu {qv} {clist(qo['sims'], c_q)}")
        self_ = "None" if q["user"] == "unknown" else f"(Some {cnat(q['user'])})"
        sims = clist(qo["sims"], c_q)
        for t, sc in zip(q["items"], qo["scores"]):
            ks = []
            if not isinstance(t, str):
                qual, rs, sim, val = user_neighbourhood(case, obs, q, qo, t)
                if qual and len(rs) >= case["min_nbrs"]:
                    ks, _ = find_selection(rs, sim, case["k"], agg_fn(explicit, sim, val, umean),
                                           None if sc is None else fparse(sc))
            parts.append(f"user_score_ok_b (fun o q => close {TOL} o q) um {self_} {sims} {cq(umean)} {c_ref(t)} {clist(ks, cnat)} {c_oq(sc)}")
    body = " && ".join(f"({p})" for p in parts)
    S_lit = clist(obs["S"], lambda row: clist(row, lambda cv: f"({cnat(cv[0])}, {c_q(cv[1])})"))
    return (f"(let Ri := {c_orows(Ri)} in let Ru := {c_orows(Ru)} in let Vi := prep {cbool(explicit)} Ri in "
            f"let Vu := {clist(obs['V'], lambda r: clist(r, c_q))} in "
            f"let im := {{| ik_k := {cnat(case['k'])}; ik_min := {cnat(case['min_nbrs'])}; ik_explicit := {cbool(explicit)}; "
            f"ik_S := {S_lit}; ik_means := {means} |}} in "
            f"let um := {{| uk_k := {cnat(case['k'])}; uk_min := {cnat(case['min_nbrs'])}; uk_explicit := {cbool(explicit)}; "
            f"uk_min_sim := {c_q(obs['thr32'])}; uk_ratings := {c_orows(obs['UR'])} |}} in {body})")


# ---------------------------------------------------------------------------------------------
# the property as a predicate on implementation output (float / Fraction arithmetic, no Coq model)
# ---------------------------------------------------------------------------------------------

EPS = 2e-6


def _vec(case, axis, k):
    """rating vector of item k (axis=1, over users) or user k (axis=0, over items), centred if explicit"""
    n = case["nu"] if axis == 1 else case["ni"]
    cells = {(u, i): float(fparse(r)) for u, i, r in case["ratings"]}
    vals = [cells.get((j, k) if axis == 1 else (k, j)) for j in range(n)]
    present = [v for v in vals if v is not None]
    if case["feedback"] == "explicit":
        m = sum(present) / len(present) if present else 0.0
        return [0.0 if v is None else v - m for v in vals]
    return [0.0 if v is None else 1.0 for v in vals]


def _cos(a, b):
    na, nb = math.sqrt(sum(x * x for x in a)), math.sqrt(sum(x * x for x in b))
    if na == 0 or nb == 0:
        return 0.0
    return sum(x * y for x, y in zip(a, b)) / (na * nb)


def oracle(case, obs):
    if case.get("large"):
        return [(k, w) for k, w in obs["findings"]]
    out = []
    ni, nu = case["ni"], case["nu"]
    explicit = case["feedback"] == "explicit"
    min_sim = float(fparse(case["min_sim"]))
    if not obs["blocks_equal"]:
        out.append(("block-size", f"similarity matrices differ between block sizes {case['block_sizes']}"))
    S = _S(obs)
    vecs = [_vec(case, 1, i) for i in range(ni)]
    cos = [[_cos(vecs[i], vecs[j]) for j in range(ni)] for i in range(ni)]
    for i in range(ni):
        if i in S[i]:
            out.append(("self-similarity", f"item {i} is its own neighbour"))
        for j, s in S[i].items():
            s = float(s)
            if not (min_sim * (1 - EPS) <= s <= 1.0):
                out.append(("sim-range", f"S[{i},{j}] = {s} outside [{min_sim}, 1]"))
            if abs(s - cos[i][j]) > EPS:
                out.append(("sim-value", f"S[{i},{j}] = {s} but the cosine of the rating vectors is {cos[i][j]}"))
        sure = [j for j in range(ni) if j != i and cos[i][j] >= min_sim * (1 + 2 * EPS) + 0]
        maybe = [j for j in range(ni) if j != i and cos[i][j] >= min_sim * (1 - 2 * EPS) and cos[i][j] > 0]
        if any(j not in maybe for j in S[i]):
            out.append(("sim-threshold", f"row {i} stores a neighbour below the threshold"))
        if case["save_nbrs"] is None:
            if any(j not in S[i] for j in sure):
                out.append(("sim-missing", f"row {i} lacks a neighbour whose cosine reaches the threshold"))
            for j, s in S[i].items():
                if j < i and j in sure and (i not in S[j] or abs(float(S[j][i]) - float(s)) > EPS):
                    out.append(("sim-symmetry", f"S[{i},{j}] and S[{j},{i}] differ"))
        else:
            m = case["save_nbrs"]
            if len(sure) >= m and len(S[i]) != m:
                out.append(("truncate-count", f"row {i} keeps {len(S[i])} neighbours, save_nbrs={m}, {len(sure)} qualify"))
            if len(maybe) <= m and any(j not in S[i] for j in sure):
                out.append(("truncate-count", f"row {i} dropped a neighbour although at most save_nbrs qualify"))
            if S[i]:
                low = min(cos[i][j] for j in S[i])
                if any(cos[i][d] > low + EPS for d in sure if d not in S[i]):
                    out.append(("truncate-most-similar", f"row {i} dropped a neighbour more similar than one it kept"))
    if explicit and obs["item_means"] is not None:
        cells = {(u, i): float(fparse(r)) for u, i, r in case["ratings"]}
        for i in range(ni):
            col = [cells[(u, i)] for u in range(nu) if (u, i) in cells]
            want = sum(col) / len(col) if col else 0.0
            if abs(float(fparse(obs["item_means"][i])) - want) > EPS * 5:
                out.append(("item-mean", f"item {i} mean {obs['item_means'][i]} != {want}"))
    if case.get("retrain"):
        for which in ("item", "user"):
            if not obs["retrain_raised"].get(which, True):
                out.append((f"retrain-did-not-fail:{which}", f"the re-training meant to fail at '{case['retrain']}' completed"))
            elif not obs["model_unchanged"].get(which, True):
                out.append((f"failed-retrain-changed-model:{which}",
                            f"{which}-kNN: a re-training that raised at '{case['retrain']}' left a model that is not the one of the last successful training"))
    # item scores by the definition over the stored matrix
    for j, (q, qo) in enumerate(zip(case["item_queries"], obs["item_queries"])):
        nth = "repeat" if q.get("same_as") is not None else "first"
        if qo.get("error"):
            out.append(("item-score-error", f"scoring raised {qo['error']}"))
            continue
        if not qo["hist_intact"]:
            out.append((f"query-history-mutated:item[{q.get('hist_kind')}]", "the query's history (ids / ratings) is no longer what the caller supplied after scoring"))
        if not qo["aligned"]:
            out.append(("item-score-alignment", "returned item ids differ from the requested ones"))
            continue
        for t, sc in zip(q["items"], qo["scores"]):
            if isinstance(t, str) or not q["hist"]:
                if sc is not None:
                    out.append(("item-score-unknown", f"target {t} / empty history got a score {sc}"))
                continue
            st, sim, val, off = item_neighbourhood(case, obs, q, t)
            if len(st) < case["min_nbrs"]:
                if sc is not None:
                    out.append(("item-too-few", f"target {t} has {len(st)} neighbours < min_nbrs={case['min_nbrs']} but was scored {float(fparse(sc))}"))
                continue
            if sc is None:
                out.append(("item-unscored", f"target {t} has {len(st)} >= min_nbrs neighbours but no score"))
                continue
            _, ok = find_selection(st, sim, case["k"], agg_fn(explicit, sim, val, off), fparse(sc))
            if not ok:
                ks, _ = find_selection(st, sim, case["k"], agg_fn(explicit, sim, val, off), None)
                want = agg_fn(explicit, sim, val, off)(ks)
                path = "slow" if len(st) > case["k"] else "fast"
                out.append((f"item-score:{path}:{nth}-call", f"target {t}: score {float(fparse(sc))} is not the aggregate over the {case['k']} most similar of {len(st)} neighbours ({float(want) if want is not None else None})"))
    # user side
    uvecs = [_vec(case, 0, u) for u in range(nu)]
    for q, qo in zip(case["user_queries"], obs["user_queries"]):
        if qo.get("error"):
            out.append(("user-score-error", f"scoring raised / went wrong: {qo['error']}"))
            continue
        if not qo["hist_intact"]:
            out.append((f"query-history-mutated:user[{q.get('hist_kind')}]", "the query's history (ids / ratings) is no longer what the caller supplied after scoring"))
        if not qo["aligned"]:
            out.append(("user-score-alignment", "returned item ids differ from the requested ones"))
            continue
        no_data = q["hist"] is None and q["user"] == "unknown"
        if no_data:
            if any(s is not None for s in qo["scores"]):
                out.append(("user-score-unknown", "a query without user data got scores"))
            if qo["sims"] is None:
                continue
        umean = user_mean(case, obs, q)
        if no_data:
            qvec = [0.0] * ni
        elif q["hist"] is None:
            qvec = uvecs[q["user"]]
        else:
            known = {x: float(fparse(r)) for x, r in q["hist"] if not isinstance(x, str)}
            qvec = [((known[i] - float(umean)) if explicit else 1.0) if i in known else 0.0 for i in range(ni)]
        how = "stored" if q["hist"] is None else "history"
        if qo["sims"] is None:
            # the scorer returned without a neighbour search (legitimate e.g. for a history it cannot use): judged by the definition
            # from the data alone -- cosines of the rating vectors, band around the threshold
            cosv = [0.0 if u == q["user"] else _cos(uvecs[u], qvec) for u in range(nu)]
            rated_by = {}
            for u, i, _ in case["ratings"]:
                rated_by.setdefault(i, []).append(u)
            for t, sc in zip(q["items"], qo["scores"]):
                if isinstance(t, str):
                    if sc is not None:
                        out.append(("user-score-unknown", f"unknown target {t} got a score"))
                    continue
                sure = [u for u in rated_by.get(t, []) if cosv[u] >= min_sim * (1 + 2 * EPS)]
                maybe = [u for u in rated_by.get(t, []) if cosv[u] >= min_sim * (1 - 2 * EPS) and cosv[u] > 0]
                if sc is None:
                    if len(sure) >= case["min_nbrs"]:
                        out.append(("user-unscored", f"target {t} has {len(sure)} >= min_nbrs raters whose cosine with the query reaches the threshold, "
                                                     "but the scorer returned without looking for neighbours"))
                elif len(maybe) < case["min_nbrs"]:
                    out.append(("user-too-few", f"target {t} has {len(maybe)} qualifying raters < min_nbrs={case['min_nbrs']} but was scored"))
                else:
                    out.append(("user-no-neighbour-search", f"target {t} was scored but the neighbour similarities the scorer used could not be observed"))
            continue
        for u in range(nu):
            c = _cos(uvecs[u], qvec)
            if abs(float(fparse(qo["sims"][u])) - c) > 5 * EPS:
                out.append((f"user-sims-cosine:{how}", f"neighbour similarity of user {u} is {float(fparse(qo['sims'][u]))}, cosine of the rating vectors is {c}"))
                break
        for t, sc in zip(q["items"], qo["scores"]):
            if isinstance(t, str):
                if sc is not None:
                    out.append(("user-score-unknown", f"unknown target {t} got a score"))
                continue
            qual, rs, sim, val = user_neighbourhood(case, obs, q, qo, t)
            if not qual or len(rs) < case["min_nbrs"]:
                if sc is not None:
                    out.append(("user-too-few", f"target {t} has {len(rs)} qualifying raters < min_nbrs={case['min_nbrs']} but was scored"))
                continue
            if sc is None:
                out.append(("user-unscored", f"target {t} has {len(rs)} >= min_nbrs qualifying raters but no score"))
                continue
            _, ok = find_selection(rs, sim, case["k"], agg_fn(explicit, sim, val, umean), fparse(sc))
            if not ok:
                ks, _ = find_selection(rs, sim, case["k"], agg_fn(explicit, sim, val, umean), None)
                want = agg_fn(explicit, sim, val, umean)(ks)
                out.append(("user-score", f"target {t}: score {float(fparse(sc))} is not the aggregate over the {case['k']} most similar of {len(rs)} raters ({float(want) if want is not None else None})"))
    seen, res = set(), []
    for k, w in out:
        if k not in seen:
            seen.add(k)
            res.append((k, w))
    return res


def _shape(case, obs):
    big = small = False
    for q in case["item_queries"]:
        for t in q["items"]:
            if not isinstance(t, str) and q["hist"]:
                st, *_ = item_neighbourhood(case, obs, q, t)
                big |= len(st) > case["k"]
                small |= len(st) < case["min_nbrs"]
    return big, small


def nontrivial(case, obs):
    if case.get("large"):
        br = obs["stats"]["branch"]
        return bool(br.get("truncated") or br.get("slow")) and bool(br.get("unscored") or br.get("too-few"))
    big, small = _shape(case, obs)
    return big and small and len(case["ratings"]) >= 6


def counters(case, obs):
    if case.get("large"):
        which = case["large"]
        yield "style=" + case["style"]
        yield f"large-{which}:feedback=" + case["feedback"]
        yield f"large-{which}:rating-scale=2^{int(case.get('scale_log2') or 0)}"
        yield f"large-{which}:size={case['n_users'] if which == 'user' else case['n_items']}"
        for b in sorted(obs["stats"]["branch"]):
            yield f"large-{which}-branch={b}"
        if which == "user":
            yield f"large-user:qualifying-neighbours>={obs['stats']['max_qualifying'] // 1000 * 1000}"
        return
    yield "style=" + case["style"]
    yield "retrain-failure=" + str(case.get("retrain"))
    for q in case["item_queries"] + case["user_queries"]:
        if q["hist"] is not None:
            yield ("repeat-call[" if q.get("same_as") is not None else "first-call[") + q.get("hist_kind", "f32") + "]"
    for which, qs in (("item", case["item_queries"]), ("user", case["user_queries"])):
        for q in qs:
            if q["hist"] is not None and q.get("same_as") is None:
                if not q["hist"]:
                    yield which + "-history=empty"
                elif all(isinstance(x, str) for x, _ in q["hist"]):
                    yield which + "-history=only-unknown-items"
                elif case["feedback"] == "explicit" and len({r for _, r in q["hist"]}) == 1:
                    yield which + "-history=constant"
    yield "feedback=" + case["feedback"]
    yield f"rating-scale=2^{int(case.get('scale_log2') or 0)}"
    yield f"k={case['k']}"
    yield f"min_nbrs={case['min_nbrs']}" + (">k" if case["min_nbrs"] > case["k"] else "")
    yield "save_nbrs=" + str(case["save_nbrs"])
    yield f"ratings={min(len(case['ratings']), 40) // 10 * 10}+"
    S = _S(obs)
    yield "sim-entries=" + ("0" if not any(S) else "some")
    explicit = case["feedback"] == "explicit"
    for q, qo in zip(case["item_queries"], obs["item_queries"]):
        for t, sc in zip(q["items"], qo["scores"]):
            if isinstance(t, str):
                yield "item-target=unknown"
            elif not q["hist"]:
                yield "item-target=no-history"
            else:
                st, sim, val, off = item_neighbourhood(case, obs, q, t)
                if len(st) < case["min_nbrs"]:
                    yield "item-branch=too-few"
                elif len(st) <= case["k"]:
                    yield "item-branch=fast"
                else:
                    yield "item-branch=slow"
                    order = sorted(st, key=lambda p: -sim[p])
                    if sim[order[case["k"] - 1]] == sim[order[case["k"]]]:
                        yield "item-tie-at-cut"
    for q, qo in zip(case["user_queries"], obs["user_queries"]):
        yield "user-query=" + ("unknown" if q["user"] == "unknown" else "id") + ("+hist" if q["hist"] is not None else "")
        if qo["sims"] is None:
            yield "user-branch=" + ("no-data" if q["hist"] is None and q["user"] == "unknown" else "early-return[no usable history]")
            continue
        for t, sc in zip(q["items"], qo["scores"]):
            if isinstance(t, str):
                yield "user-target=unknown"
                continue
            qual, rs, sim, val = user_neighbourhood(case, obs, q, qo, t)
            if not qual:
                yield "user-branch=no-neighbours"
            elif len(rs) < case["min_nbrs"]:
                yield "user-branch=too-few"
            elif len(rs) <= case["k"]:
                yield "user-branch=all-raters"
            else:
                yield "user-branch=truncated"
                order = sorted(rs, key=lambda p: -sim[p])
                if sim[order[case["k"] - 1]] == sim[order[case["k"]]]:
                    yield "user-tie-at-cut"


def sample(case, obs):
    if case.get("large"):
        return {"case": case, "observation": {"findings": obs["findings"], "stats": obs["stats"]}}
    return {"case": {k: case[k] for k in ("nu", "ni", "feedback", "k", "min_nbrs", "min_sim", "save_nbrs", "ratings")},
            "observation": {"S": obs["S"], "item_scores": [q["scores"] for q in obs["item_queries"]],
                            "user_scores": [q["scores"] for q in obs["user_queries"]]}}


_shrinks = [0]
MAX_SHRINKS = 4          # per run: a broken build otherwise shrinks dozens of keys, each with many re-runs


def _drop_queries(qs, keep_idx):
    """sub-list of queries with `same_as` re-pointed (a repeat whose first call is dropped becomes a first call)"""
    pos = {old: new for new, old in enumerate(keep_idx)}
    out = []
    for old in keep_idx:
        q = dict(qs[old])
        if q.get("same_as") is not None:
            q["same_as"] = pos.get(q["same_as"])
        out.append(q)
    return out


def shrink(case, fails):
    if case.get("large"):
        return case          # a recipe: already as small as a description of a large data set gets
    _shrinks[0] += 1
    if _shrinks[0] > MAX_SHRINKS:
        return case
    c = dict(case)
    for key in ("item_queries", "user_queries"):
        idx = common.shrink_list(list(range(len(c[key]))), lambda xs: fails({**c, key: _drop_queries(case[key], xs)}), 12)
        c[key] = _drop_queries(case[key], idx)
    c["ratings"] = common.shrink_list(case["ratings"], lambda xs: bool(xs) and fails({**c, "ratings": xs}), 40)
    return c
