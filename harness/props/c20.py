"""C20 -- verified negative sampling (DESIGN.md section 4, C20)."""

from __future__ import annotations

from fractions import Fraction

import common
from common import Rng, cbool, clist, cnat, cz
from framework import TranslateError  # noqa: F401

PID = "C20"
PROPS_FILE = "Props/C20.v"
GEN_FILES = ["Gen/C20_shape.v"]
MODEL_FILES = ["Model/C20_sampling.v"]
ALLOWED_AXIOMS: list[str] = []
CASE_HEADER = "From Coq Require Import ZArith.\nFrom LK Require Import Gen.C20_shape Model.C20_sampling.\nOpen Scope Z_scope."
TRUSTED = [
    "Coq 8.16.1 kernel + vm_compute (no native_compute); Print Assumptions of every theorem in Props/C20.v: closed under the global context",
    "extractor harness/translate/c20.py (Python ast -> Gallina): budget test and decrement of _check_negatives_and_resample, presence of the "
    "DataWarning on exhaustion, shift width and word type of _rc_combined_nums, population and column map of each weighting in sample_negatives; "
    "fails closed on any other shape of those functions",
    "hand-written model of the array plumbing (Model/C20_sampling.v: boolean-mask select/scatter, row-major columns, draw order), tied by "
    "correspondence: the integers the implementation drew (recorded by a numpy.random.Generator subclass passed as rng=) are replayed through the "
    "model inside Coq; output arrays, warning counts and the number of draws consumed must agree exactly",
    "generator contract: rng.choice(N, size=k, replace=True) returns k arbitrary elements of 0..N-1 (theorems quantify over all draw streams); "
    "PCG64, pandas Index.get_indexer_for on uint64 keys and numpy mask indexing are exercised, not verified",
    "the 'plentiful negatives' clause is proved as the exact event (failure iff all attempts+1 draws of the row hit observed columns) and as a count "
    "over all draw streams (plentiful_failure_count: hits^(att+1) of N^(att+1) streams fail, at most a 2^-(att+1) fraction when half of the draws "
    "miss); that PCG64 behaves like an ideal source is NOT a theorem: the oracle flags a warning / observed cell on plentiful rows only when the "
    "ideal-source probability of the event (union bound over the cells) is <= 1e-9",
    "for rng= given as a seed, SeedSequence, list of ints, plain Generator, BitGenerator or None-with-global the draws cannot be recorded: those calls "
    "are judged by the Python oracle only (shape, range, verified-or-warned, plentiful clause, reproducibility); that ONE generator serves the initial "
    "draw and every retry level is a shape condition of the extractor (the model threads one stream)",
]
ASSUMPTIONS = [
    "row numbers are valid (0 <= r < number of rows < 2^31) and the matrix has fewer than 2^31 columns (int32 numbers); the PRODUCT n_rows * n_cols "
    "is not bounded (the model computes keys on Z; cases reach 1.5e10 cells)",
    "the relationship matrix is the one built by the dataset builder (sorted, no repeated pair); this is re-observed on every case",
]
RULE = ("structured generator: 7/8 small matrices (0-7 rows x 0-7 columns, density from empty to fully dense with planted dense and empty rows and "
        "unused columns, row arrays with repeats of 0-10 entries, n in {None,0,1,2,3,4}, retry budget -1..5) and 1/8 'plentiful' matrices (3-16 rows x "
        "12-40 columns, every row observes at most half of the columns bar one planted dense row, request arrays of 8-100 rows with repeats, n in "
        "{None,1,2,3}, budgets 6..44 chosen so that the ideal failure probability is mostly below 1e-9); every 20th case is a HUGE-BUT-SPARSE matrix "
        "(n_rows x n_cols beyond 2^31, 2^32 or 2^33, sides up to 300000 declared as entity lists, 5-70 interactions): 1-3 victim rows (mostly without "
        "any interaction) with 2-5 unobserved victim cells each, an observed cell of ANOTHER row planted at an alias of every victim cell under a "
        "folding family (row-major r*n_cols+c or column-major c*n_rows+r modulo 2^31 / 2^32 (+-1..3 wraps), (r<<16)+c and (c<<16)+r exact or modulo "
        "2^32), requests of 1-12 rows mostly from the victim rows, budgets 0-3 and 10, a scripted generator whose draws are aimed (3 in 4) at the "
        "victim columns (popularity: at the records carrying them) or honest generators; 1-4 sample_negatives calls on ONE matrix object "
        "(half of the later calls repeat the previous request), both weightings (and the alias 'popularity'), verify on/off; the FORM of rng= is generated "
        "per call: recording Generator over PCG64, scripted Generator biased towards observed columns, int seed, SeedSequence, list-of-ints seed, plain "
        "Generator, BitGenerator, None with a global generator set (plain or recording); recorded forms are replayed through the Coq model, the others are "
        "judged by the oracle (incl. the quantified plentiful clause) and run twice for reproducibility; non-trivial = some call has verification on, at "
        "least one requested row has both observed and unobserved columns, and either a resampling round happened (recorded forms: more draws than cells) "
        "or the quantified plentiful clause was judged on such a row (unrecorded forms); distinct = by hash of the case")
SHARD = 150


def translate():
    from translate import c20 as t
    from translate.pyq import TranslateError as TE
    try:
        return t.translate(common.SRC)
    except TE as e:
        raise TranslateError(str(e))


# ---------------------------------------------------------------------------------------------
# generator
# ---------------------------------------------------------------------------------------------

# the FORM of the rng= argument of a call.  Recorded forms are replayed through the Coq model; the others are judged by the
# oracle alone (shape, range, verified-or-warned, the quantified "plentiful" clause, reproducibility).
RECORDED = ("pcg", "scripted", "none-global-rec")
REPEATABLE = ("int", "seedseq", "intlist", "generator", "bitgen", "none-global")
HONEST = ("pcg", "none-global-rec") + REPEATABLE        # draws come from PCG64, not from a stream scripted by the harness
MODES_SMALL = [("pcg", 4), ("scripted", 6), ("int", 2), ("seedseq", 1), ("intlist", 1), ("generator", 1), ("bitgen", 1),
               ("none-global", 1), ("none-global-rec", 1)]
MODES_PLENTY = [("pcg", 3), ("scripted", 1), ("int", 3), ("seedseq", 2), ("intlist", 2), ("generator", 1), ("bitgen", 1),
                ("none-global", 1), ("none-global-rec", 1)]
# a warning / an observed cell on rows with plentiful unobserved columns is a violation when the probability of that event under
# an ideal source (theorem plentiful_failure_count: (hits/N)^(attempts+1) per cell, summed over the cells) is at most this
PLENTY_EPS = Fraction(1, 10 ** 9)


def gen_plentiful(rng):
    """larger matrices whose rows leave at least half of the columns free (a few planted dense rows), long request arrays,
    budgets from the default 10 upwards: the clause 'plentiful rows receive true negatives without any warning'"""
    nu = rng.randint(3, 16)
    ni = rng.choice([12, 16, 24, 32, 40])
    base = rng.weighted([((1, 16), 2), ((1, 8), 3), ((1, 4), 3), ((3, 8), 2), ((1, 2), 2)])
    skew = rng.chance(1, 2)
    pool = list(range(ni)) if not skew else rng.shuffle(list(range(ni)))[: max(2, (ni * 5) // 8)]
    dense_row = rng.below(nu) if rng.chance(1, 6) else None
    pairs = []
    for u in range(nu):
        if u == dense_row:
            k = ni - rng.below(3)
            cols = rng.sample(list(range(ni)), k)
        elif rng.chance(1, 10):
            cols = []
        else:
            k = max(0, min(len(pool), (base[0] * ni) // base[1] - rng.below(3)))
            cols = rng.sample(pool, k)
        pairs += [[u, c] for c in cols]
    pairs = rng.shuffle(pairs)
    budgets = {(1, 16): [(10, 3), (6, 1), (12, 1)], (1, 8): [(10, 1), (12, 2), (16, 2)], (1, 4): [(10, 1), (20, 3), (24, 1)],
               (3, 8): [(10, 1), (28, 3), (32, 1)], (1, 2): [(10, 1), (40, 3), (44, 1)]}[base]

    def gen_call(prev=None):
        if prev is not None and rng.chance(1, 2):
            call = dict(prev)
            call["seed"] = rng.below(2 ** 32)
            if rng.chance(1, 2):
                call["mode"] = rng.weighted(MODES_PLENTY)
            return call
        nr = rng.weighted([(8, 1), (20, 2), (40, 3), (70, 2), (100, 1)])
        cand = [u for u in range(nu) if u != dense_row] if dense_row is not None and nu > 1 and rng.chance(2, 3) else list(range(nu))
        rows = [rng.choice(cand) for _ in range(nr)]
        return {"rows": rows, "weighting": rng.weighted([("uniform", 5), ("popular", 2), ("popularity", 2)]),
                "n": rng.weighted([(None, 5), (1, 1), (2, 2), (3, 1)]), "att": rng.weighted(budgets), "verify": not rng.chance(1, 12),
                "mode": rng.weighted(MODES_PLENTY), "seed": rng.below(2 ** 32), "bias": rng.weighted([(0, 1), (2, 1), (3, 1)])}

    calls = [gen_call()]
    for _ in range(rng.weighted([(0, 3), (1, 3), (2, 1)])):
        calls.append(gen_call(calls[-1]))
    return {"n_users": nu, "n_items": ni, "pairs": pairs, "calls": calls, "style": "plentiful"}


# ---- huge-but-sparse matrices: the DIMENSIONS as a generated dimension -------------------------------------------------
# The membership test folds (row, column) into ONE number.  Any such folding has cells that share a number once the matrix
# is large enough for the arithmetic it uses; the families below are the classical ones.  A huge case plants observed cells
# at the aliases of chosen unobserved 'victim' cells (mostly of rows without any interaction) and aims a scripted generator at
# exactly those victim cells: a sound key (theorem key_injective, all numbers below 2^32) tells them apart.
ALIAS_FAMILIES = [(("rowmajor", 2 ** 32), 6), (("rowmajor", 2 ** 31), 2), (("colmajor", 2 ** 32), 2), (("colmajor", 2 ** 31), 1),
                  (("rowshift16", None), 1), (("rowshift16", 2 ** 32), 1), (("colshift16", None), 1), (("colshift16", 2 ** 32), 1)]
HUGE_SIDES = [20011, 33000, 50000, 65536, 66000, 70000, 90000, 100003, 131072, 150000, 200000]
HUGE_MAX_SIDE = 300000
MODES_HUGE = [("scripted", 8), ("pcg", 2), ("int", 1), ("generator", 1), ("none-global-rec", 1)]


def alias_cells(nu, ni, r, c, kind, mod):
    """cells (r2, c2) != (r, c) of an nu x ni matrix whose combined number major*S + minor equals that of (r, c), exactly
    (mod None) or modulo `mod`.  rowmajor: r*ni + c; colmajor: c*nu + r; rowshift16: (r << 16) + c; colshift16: (c << 16) + r."""
    rowwise = kind.startswith("row")
    S = {"rowmajor": ni, "colmajor": nu, "rowshift16": 1 << 16, "colshift16": 1 << 16}[kind]
    major, minor, nmaj, nmin = (r, c, nu, ni) if rowwise else (c, r, ni, nu)
    t = major * S + minor
    out = []
    for k in (0, 1, -1, 2, -2, 3, -3):
        if k and not mod:
            continue
        T = t + k * (mod or 0)
        if T < 0:
            continue
        lo, hi = max(0, -((nmin - 1 - T) // S)), min(nmaj - 1, T // S)
        for mj in sorted(set(range(lo, min(hi, lo + 2) + 1)) | set(range(max(lo, hi - 2), hi + 1))):
            mn = T - mj * S
            if 0 <= mn < nmin and (mj, mn) != (major, minor):
                cell = (mj, mn) if rowwise else (mn, mj)
                if cell not in out:
                    out.append(cell)
    return out


def gen_huge(rng):
    """n_rows x n_cols beyond 2^31, 2^32 or 2^33 with tens of interactions (entity lists are pre-declared, so the case costs
    ~50 ms); victim cells (unobserved) whose aliases under a folding family are observed cells of OTHER rows; requests for the
    victim rows with a scripted generator aimed at the victim columns (plus honest generators)."""
    for _ in range(40):
        band = rng.weighted([(2 ** 31, 2), (2 ** 32, 5), (2 ** 33, 3)])
        cells = band * (100 + rng.randint(2, 70)) // 100
        a = rng.choice(HUGE_SIDES) + (rng.below(40) if rng.chance(1, 2) else 0)
        b = cells // a + 1 + rng.below(500)
        if max(a, b) <= HUGE_MAX_SIDE:
            break
    else:
        a, b, band = 100000, 100000, 2 ** 33
    nu, ni = (b, a) if rng.chance(2, 3) else (a, b)
    pairs, victims, vrows = set(), [], []
    for _ in range(rng.weighted([(1, 2), (2, 3), (3, 1)])):
        r = rng.below(nu)
        vrows.append(r)
        if rng.chance(1, 4):            # a victim row with a few interactions of its own
            for _ in range(rng.randint(1, 3)):
                pairs.add((r, rng.below(ni)))
        for _ in range(rng.randint(2, 5)):
            c = rng.weighted([(0, 1), (ni - 1, 1), (rng.below(ni), 8)])
            fams = [rng.weighted(ALIAS_FAMILIES)] + rng.shuffle([f for f, _ in ALIAS_FAMILIES])
            for kind, mod in fams:
                al = [x for x in alias_cells(nu, ni, r, c, kind, mod) if x[0] not in vrows]
                if al:
                    pairs.add(rng.choice(al))
                    victims.append([r, c, kind + ("" if mod is None else f"/2^{mod.bit_length() - 1}")])
                    break
            else:
                victims.append([r, c, "none"])
            if rng.chance(1, 2):        # the victim column occurs in the data, so popularity weighting can draw it
                r2 = rng.below(nu)
                if r2 not in vrows:
                    pairs.add((r2, c))
    for _ in range(rng.randint(3, 30)):
        r2 = rng.below(nu)
        if r2 not in vrows:
            pairs.add((r2, rng.below(ni)))
    vcells = {(v[0], v[1]) for v in victims}
    pairs = {p for p in pairs if p not in vcells}
    dense_row = None
    if rng.chance(1, 3) and pairs:      # a row observing every column that occurs: dense for popularity weighting (a true failure)
        dense_row = rng.below(nu)
        if dense_row not in vrows:
            pairs |= {(dense_row, c) for _, c in pairs}
        else:
            dense_row = None
    table = sorted(pairs)
    other_rows = sorted({r for r, _ in pairs})

    def gen_call(prev=None):
        if prev is not None and rng.chance(1, 3):
            call = dict(prev)
            call["seed"] = rng.below(2 ** 32)
            return call
        nr = rng.weighted([(1, 2), (2, 2), (4, 3), (8, 3), (12, 1)])
        rows = [rng.weighted([(rng.choice(vrows), 12), (rng.choice(other_rows) if other_rows else 0, 2),
                              (dense_row if dense_row is not None else rng.choice(vrows), 1), (rng.below(nu), 1)]) for _ in range(nr)]
        weighting = rng.weighted([("uniform", 5), ("popular", 2), ("popularity", 2)])
        cols = [v[1] for v in victims if v[0] in rows] + [c for r, c in table if r in rows][:4]
        if weighting == "uniform":
            aim = cols
        else:                           # a draw is a record number of the sorted table; its column is the record's column
            aim = [i for i, (_, c) in enumerate(table) if c in cols]
        return {"rows": rows, "weighting": weighting, "n": rng.weighted([(None, 4), (1, 1), (2, 2)]),
                "att": rng.weighted([(0, 3), (1, 3), (2, 3), (3, 1), (10, 1)]), "verify": not rng.chance(1, 12),
                "mode": rng.weighted(MODES_HUGE), "seed": rng.below(2 ** 32), "bias": 0, "aim": rng.shuffle(aim)[:12]}

    calls = [gen_call()]
    for _ in range(rng.weighted([(0, 2), (1, 3), (2, 2)])):
        calls.append(gen_call(calls[-1]))
    return {"n_users": nu, "n_items": ni, "pairs": [list(p) for p in rng.shuffle(table)], "calls": calls,
            "style": f"huge>2^{band.bit_length() - 1}", "victims": victims}


def gen_case(rng, malformed=False):
    if not malformed and rng.chance(1, 8):
        return gen_plentiful(rng)
    nu = rng.weighted([(0, 1), (1, 3), (2, 4), (3, 6), (4, 6), (5, 4), (7, 2)])
    ni = rng.weighted([(0, 1), (1, 4), (2, 5), (3, 6), (4, 6), (5, 4), (7, 2)])
    style = rng.weighted([("sparse", 3), ("mixed", 5), ("dense", 3), ("full", 1), ("empty", 1)])
    pairs = []
    dens = {"sparse": (1, 5), "mixed": (1, 2), "dense": (5, 6), "full": (1, 1), "empty": (0, 1)}[style]
    dense_rows = set(rng.subset(range(nu), 1, 3)) if style in ("mixed", "dense") else set()
    empty_rows = set(rng.subset(range(nu), 1, 4)) if style != "full" else set()
    dead_cols = set(rng.subset(range(ni), 1, 5)) if style in ("sparse", "mixed") else set()
    for u in range(nu):
        for i in range(ni):
            if u in empty_rows:
                continue
            if u in dense_rows and i not in dead_cols and not rng.chance(1, 8):
                pairs.append([u, i])
            elif u not in dense_rows and i not in dead_cols and rng.chance(*dens):
                pairs.append([u, i])
    pairs = rng.shuffle(pairs)
    def gen_call(prev=None):
        if prev is not None and rng.chance(1, 2):
            # the same request again (a training loop asks for the same users batch after batch), perhaps with other knobs
            call = dict(prev)
            call["seed"] = rng.below(2 ** 32)
            if rng.chance(1, 3):
                call["mode"] = rng.weighted(MODES_SMALL)
            if rng.chance(1, 3):
                call["att"] = rng.weighted([(-1, 1), (0, 3), (1, 4), (2, 3)])
            if rng.chance(1, 4):
                call["n"] = rng.weighted([(None, 3), (1, 1), (2, 2)])
            if rng.chance(1, 5):
                call["weighting"] = rng.weighted([("uniform", 1), ("popular", 1)])
            return call
        nr = 0 if nu == 0 else rng.weighted([(0, 1), (1, 3), (2, 3), (3, 4), (5, 4), (8, 2), (10, 1)])
        rows = [rng.below(nu) for _ in range(nr)]
        if nr >= 2 and rng.chance(1, 3):
            rows[1] = rows[0]
        return {"rows": rows, "weighting": rng.weighted([("uniform", 5), ("popular", 3), ("popularity", 2)]),
                "n": rng.weighted([(None, 5), (0, 1), (1, 2), (2, 3), (3, 2), (4, 1)]),
                "att": rng.weighted([(-1, 1), (0, 3), (1, 4), (2, 4), (3, 3), (5, 2)]),
                "verify": not rng.chance(1, 8), "mode": rng.weighted(MODES_SMALL),
                "seed": rng.below(2 ** 32), "bias": rng.weighted([(0, 3), (1, 1), (2, 3), (3, 2)])}

    calls = [gen_call()]
    for _ in range(rng.weighted([(0, 3), (1, 3), (2, 2), (3, 1)])):
        calls.append(gen_call(calls[-1]))
    case = {"n_users": nu, "n_items": ni, "pairs": pairs, "calls": calls, "style": style}
    if malformed:
        rng.choice(calls)["weighting"] = rng.choice(["Uniform", "pop", ""])
        case["style"] = style + "/malformed"
    return case


def calls_of(case):
    "the sample_negatives calls made, in order, on the ONE matrix object of the case (older corpus cases: a single call)"
    if "calls" in case:
        return case["calls"]
    return [{k: case[k] for k in ("rows", "weighting", "n", "att", "verify", "mode", "seed", "bias")}]


def gen_cases(rng, tier):
    n = 1000 if tier == "quick" else 8000
    # every 20th case is a huge-but-sparse matrix (its own fork of the stream: the other cases are the ones generated before)
    return [gen_huge(rng.fork(f"huge{k}")) if k % 20 == 7 else gen_case(rng.fork(k), malformed=(k % 25 == 24)) for k in range(n)]


# ---------------------------------------------------------------------------------------------
# implementation driver
# ---------------------------------------------------------------------------------------------

_ready = False


def _setup():
    global _ready, np, pd, DatasetBuilder, DataWarning, Recording, Scripted, set_global_rng
    if _ready:
        return
    common.use_repo()
    import numpy as np
    import pandas as pd
    from lenskit.data import DatasetBuilder
    from lenskit.diagnostics import DataWarning
    from lenskit.random import set_global_rng

    class Recording(np.random.Generator):
        "the real PCG64 stream, with every choice() recorded"

        def __init__(self, seed):
            super().__init__(np.random.PCG64(seed))
            self.log = []

        def choice(self, a, size=None, replace=True, p=None, axis=0, shuffle=True):
            r = super().choice(a, size=size, replace=replace, p=p, axis=axis, shuffle=shuffle)
            self.log.append((int(a), np.asarray(r).ravel().tolist()))
            return r

    class Scripted(np.random.Generator):
        "a stream chosen by the harness (allowed by the generator contract): draws concentrated on low numbers"

        def __init__(self, seed, bias, aim=()):
            super().__init__(np.random.PCG64(0))
            self.src = Rng(seed)
            self.bias = bias
            self.aim = list(aim)         # draw values the stream concentrates on (cells the case wants probed)
            self.log = []

        def choice(self, a, size=None, replace=True, p=None, axis=0, shuffle=True):
            a = int(a)
            shape = () if size is None else ((size,) if isinstance(size, (int, np.integer)) else tuple(size))
            k = 1
            for s in shape:
                k *= int(s)
            if a <= 0 and k > 0:
                raise ValueError("a must be a positive integer unless no samples are taken")
            vals = []
            for _ in range(k):
                x = self.src.next() % a
                if self.bias and self.src.chance(2, 3):
                    x = x % min(a, self.bias)
                if self.aim and self.src.chance(3, 4):
                    x = self.aim[self.src.below(len(self.aim))] % a
                vals.append(x)
            self.log.append((a, list(vals)))
            return np.array(vals, dtype=np.int64).reshape(shape)

    _ready = True


def build_matrix(case):
    dsb = DatasetBuilder()
    if case["n_users"]:
        dsb.add_entities("user", np.arange(case["n_users"], dtype=np.int64))
    else:
        dsb.add_entity_class("user")
    if case["n_items"]:
        dsb.add_entities("item", np.arange(case["n_items"], dtype=np.int64))
    dsb.add_relationship_class("click", ["user", "item"], allow_repeats=False, interaction=True)
    if case["pairs"]:
        df = pd.DataFrame({"user_id": np.array([p[0] for p in case["pairs"]], dtype=np.int64),
                           "item_id": np.array([p[1] for p in case["pairs"]], dtype=np.int64)})
        dsb.add_interactions("click", df, missing="error", allow_repeats=False)
    return dsb.build().interactions().matrix()


_NOTHING = object()


def make_rng(call):
    """the rng= argument in the form the call asks for -> (argument, recorder or None).  Every form is one that
    lenskit.random.random_generator documents (RNGInput: seed, SeedSequence, sequence of ints, Generator, BitGenerator, None)."""
    mode, seed = call["mode"], call["seed"]
    if mode == "pcg":
        g = Recording(seed)
        return g, g
    if mode == "scripted":
        g = Scripted(seed, call["bias"], call.get("aim") or ())
        return g, g
    if mode == "int":
        return seed, None
    if mode == "seedseq":
        return np.random.SeedSequence(seed), None
    if mode == "intlist":
        return [seed & 0xFFFF, (seed >> 16) & 0xFFFF, 7], None
    if mode == "generator":
        return np.random.default_rng(seed), None
    if mode == "bitgen":
        return np.random.PCG64(seed), None
    if mode == "none-global":          # rng=None after lenskit.random.set_global_rng(seed)
        set_global_rng(seed)
        return None, None
    if mode == "none-global-rec":      # the global generator is a recording one (default_rng returns a Generator unaltered)
        g = Recording(seed)
        set_global_rng(g)
        return None, g
    raise ValueError(mode)


def one_call(m, call):
    import warnings

    import lenskit.random as lr

    obs = {}
    saved = getattr(lr, "_global_rng", _NOTHING) if call["mode"].startswith("none-global") else _NOTHING
    try:
        arg, g = make_rng(call)
        obs = _invoke(m, call, arg, g, warnings)
    finally:
        if saved is not _NOTHING:      # leave the process as we found it (no global generator)
            setattr(lr, "_global_rng", saved)
    return obs


def run_call(m, call):
    obs = one_call(m, call)
    if call["mode"] in REPEATABLE:
        # the same request with an equal, freshly made seed / generator: must give the same answer
        again = one_call(m, call)
        obs["again"] = {k: again.get(k) for k in ("error", "cols", "warnings")}
    return obs


def _invoke(m, call, arg, g, warnings):
    obs = {}
    rows = np.array(call["rows"], dtype=np.int32)
    log = (lambda: g.log) if g is not None else (lambda: [])
    with warnings.catch_warnings(record=True) as wl:
        warnings.simplefilter("always")
        try:
            out = m.sample_negatives(rows, weighting=call["weighting"], n=call["n"], verify=call["verify"],
                                     max_attempts=call["att"], rng=arg)
            obs["error"] = 0
        except ValueError as e:
            obs["error"], obs["msg"] = 1, str(e)[:80]
        except RecursionError:
            obs["error"], obs["msg"] = 3, "RecursionError"
        except Exception as e:  # anything else is outside the contract
            obs["error"], obs["msg"] = 2, f"{type(e).__name__}: {e}"[:120]
    obs["draws"] = [[a, v] for a, v in (log()[:40] if obs["error"] in (2, 3) else log())]
    obs["warnings"] = []
    obs["other_warnings"] = []
    for w in wl:
        msg = str(w.message)
        if issubclass(w.category, DataWarning) and msg.startswith("failed to find verified negatives for "):
            obs["warnings"].append(int(msg.split()[6]))
        else:
            obs["other_warnings"].append(f"{w.category.__name__}: {msg}"[:100])
    if obs["error"] == 0:
        obs["dtype"] = str(out.dtype)
        obs["shape"] = [int(s) for s in out.shape]
        if out.ndim == 1:
            obs["cols"] = [[int(x) for x in out.tolist()]]
        elif out.ndim == 2:
            obs["cols"] = [[int(x) for x in out[:, j].tolist()] for j in range(out.shape[1])]
        else:
            obs["cols"] = None
    return obs


def run_impl(case):
    _setup()
    m = build_matrix(case)           # ONE matrix object for the whole call sequence
    coo = m.coo_structure()
    return {"shape_m": [int(m.n_rows), int(m.n_cols)],
            "table": [[int(r), int(c)] for r, c in zip(coo.row_numbers.tolist(), coo.col_numbers.tolist())],
            "calls": [run_call(m, call) for call in calls_of(case)]}


# ---------------------------------------------------------------------------------------------
# model side
# ---------------------------------------------------------------------------------------------

W = {"uniform": "Uniform", "popular": "Popular", "popularity": "Popular"}


def call_term(case, call, obs):
    if call["weighting"] not in W:
        return None      # name rejected before anything is drawn: oracle only
    if call["mode"] not in RECORDED:
        return None      # seed-form / plain generator: the draws cannot be recorded; judged by the oracle alone
    if obs["error"] in (2, 3) or (obs["error"] == 0 and obs["cols"] is None):
        return "false"
    m = "m"
    ds = [v for _, vs in obs["draws"] for v in vs]
    n = "None" if call["n"] is None else f"(Some {cnat(call['n'])})"
    if obs["error"]:
        tail = "1%nat [] [] []"
    else:
        tail = f"0%nat {clist(obs['shape'], cz)} {clist(obs['cols'], lambda c: clist(c, cz))} {clist(obs['warnings'], cz)}"
    return (f"agree_sample {m} {W[call['weighting']]} {cbool(call['verify'])} {cz(call['att'])} {n} "
            f"{clist(call['rows'], cz)} {clist(ds, cz)} {tail}")


def coq_term(case, obs):
    "every call of the sequence agrees with the (stateless) model on the draws that call made"
    terms = [t for t in (call_term(case, c, o) for c, o in zip(calls_of(case), obs["calls"])) if t is not None]
    if not terms:
        return None
    pairs = sorted((p[0], p[1]) for p in case["pairs"])
    m = f"{{| m_ncols := {cz(case['n_items'])}; m_pairs := {clist(pairs, lambda p: f'({cz(p[0])}, {cz(p[1])})')} |}}"
    return f"(let m := {m} in\n  (" + ")\n  && (".join(terms) + "))"


# ---------------------------------------------------------------------------------------------
# the property as a predicate on implementation output (independent of the Coq model)
# ---------------------------------------------------------------------------------------------


def rng_text(c):
    mode, seed = c["mode"], c["seed"]
    return {"pcg": f"<recording Generator(PCG64({seed}))>", "scripted": f"<scripted Generator {seed} bias {c.get('bias')}" + (f" aimed at draws {c['aim']}" if c.get("aim") else "") + ">",
            "int": f"{seed}", "seedseq": f"np.random.SeedSequence({seed})",
            "intlist": f"{[seed & 0xFFFF, (seed >> 16) & 0xFFFF, 7]}", "generator": f"np.random.default_rng({seed})",
            "bitgen": f"np.random.PCG64({seed})", "none-global": f"None after lenskit.random.set_global_rng({seed})",
            "none-global-rec": f"None after lenskit.random.set_global_rng(<recording Generator(PCG64({seed}))>)"}[mode]


def describe(calls, k):
    def one(c):
        return (f"sample_negatives(rows={c['rows']}, weighting={c['weighting']!r}, n={c['n']}, verify={c['verify']}, "
                f"max_attempts={c['att']}, rng={rng_text(c)})")
    if k == 0:
        return "call #0 " + one(calls[0])
    return f"call #{k} " + one(calls[k]) + " on the same matrix object after " + "; ".join(f"#{j} " + one(calls[j]) for j in range(k))


def hit_probabilities(case, call, observed):
    """per requested row: (fraction of columns unobserved, probability that ONE draw of this weighting lands on an observed
    column of the row) -- from the input data only.  uniform: k_r / n_cols; popularity: sum of occurrences of the row's
    columns / number of records."""
    ni, nnz = case["n_items"], len(observed)
    by_row, popc = {}, {}
    for r, c in observed:
        by_row.setdefault(r, []).append(c)
        popc[c] = popc.get(c, 0) + 1
    out = {}
    for r in set(call["rows"]):
        cols = by_row.get(r, [])
        free = Fraction(ni - len(cols), max(ni, 1))
        p = Fraction(len(cols), max(ni, 1)) if call["weighting"] == "uniform" else Fraction(sum(popc[c] for c in cols), max(nnz, 1))
        out[r] = (free, p)
    return out


def plentiful_judgement(case, call, observed):
    """{row: bound on P(some cell of the row stays observed)} for the plentiful rows of the call, and the bound for the whole
    call if ALL its rows are plentiful (else None).  A row is plentiful when at least half of the columns are unobserved for
    it and a draw misses its observed columns with probability >= 1/2."""
    att = max(call["att"], 0)
    ncol = 1 if call["n"] is None else call["n"]
    hp = hit_probabilities(case, call, observed)
    rows, total, everyone = {}, Fraction(0), True
    for r, (free, p) in hp.items():
        if free >= Fraction(1, 2) and p <= Fraction(1, 2):
            rows[r] = call["rows"].count(r) * ncol * p ** (att + 1)
            total += rows[r]
        else:
            everyone = False
    return rows, (total if everyone else None)


def call_oracle(case, calls, k, obs, observed):
    call = calls[k]
    v = []
    where = describe(calls, k)
    later = "" if k == 0 else ":later-call"
    if call["weighting"] not in W:
        if obs["error"] != 1:
            v.append(("unknown-weighting-accepted", f"weighting {call['weighting']!r} did not raise ValueError ({where})"))
        return v
    cells = len(call["rows"]) * (1 if call["n"] is None else call["n"])
    pop = case["n_items"] if call["weighting"] == "uniform" else len(observed)
    if pop == 0 and cells > 0:
        if obs["error"] != 1:
            v.append(("empty-population", f"sampling from an empty population did not raise ValueError ({where})"))
        return v
    if obs["error"]:
        v.append((f"unexpected-error:{obs['error']}", f"sample_negatives raised {obs.get('msg')} ({where})"))
        return v
    want_shape = [len(call["rows"])] if call["n"] is None else [len(call["rows"]), call["n"]]
    if obs["shape"] != want_shape:
        v.append(("shape", f"result shape {obs['shape']} instead of {want_shape} ({where})"))
        return v
    present = {c for _, c in observed}
    bad_cells = []
    for col in obs["cols"]:
        for r, c in zip(call["rows"], col):
            if not 0 <= c < case["n_items"]:
                v.append(("range", f"sampled column {c} is not a column number (0..{case['n_items'] - 1}) ({where})"))
            if call["weighting"] != "uniform" and c not in present:
                v.append(("popular-unseen-column", f"popularity weighting returned column {c}, which does not occur in the data ({where})"))
            if (r, c) in observed:
                bad_cells.append((r, c))
    if call["verify"]:
        if bad_cells and not obs["warnings"]:
            v.append(("observed-without-warning" + later,
                      f"{len(bad_cells)} returned cell(s) {bad_cells[:4]} are observed interactions and this call raised no DataWarning: {where}"))
        if obs["warnings"] and not bad_cells:
            nobs = {r: sum(1 for rr, _ in observed if rr == r) for r in set(call["rows"])}
            v.append(("warning-without-failure" + later,
                      f"a DataWarning reported missing negatives for {obs['warnings']} users but every returned cell is a true negative "
                      f"(matrix {case['n_users']} x {case['n_items']}, {len(observed)} interactions; interactions of the requested rows: "
                      f"{dict(sorted(nobs.items()))}): {where}"))
    elif obs["warnings"]:
        v.append(("warning-unverified" + later, f"a verification warning was raised with verify=False: {where}"))
    if call["verify"] and call["mode"] in HONEST and cells > 0:
        # "rows for which unobserved columns are plentiful receive true negatives without any warning", quantified
        prow, ptotal = plentiful_judgement(case, call, observed)
        for r, c in bad_cells:
            if r in prow and prow[r] <= PLENTY_EPS:
                free = case["n_items"] - sum(1 for rr, _ in observed if rr == r)
                v.append(("plentiful-row-observed-cell" + later,
                          f"row {r} has {free} of {case['n_items']} columns unobserved, yet column {c}, an observed interaction of it, was "
                          f"returned (probability of that under an ideal source <= {float(prow[r]):.3g}): {where}"))
                break
        if obs["warnings"] and ptotal is not None and ptotal <= PLENTY_EPS:
            v.append(("plentiful-rows-warned" + later,
                      f"every requested row has at least half of the columns unobserved and the retry budget makes a failure "
                      f"practically impossible (probability <= {float(ptotal):.3g} under an ideal source), yet a DataWarning "
                      f"'failed to find verified negatives for {obs['warnings']} users' was raised: {where}"))
    if "again" in obs:
        a = obs["again"]
        if (a["error"], a.get("cols"), a["warnings"]) != (obs["error"], obs.get("cols"), obs["warnings"]):
            v.append(("seed-not-reproducible" + later,
                      f"the same request with an equal rng= argument gave another answer (second: error={a['error']} "
                      f"warnings={a['warnings']} columns={str(a.get('cols'))[:80]}; first: warnings={obs['warnings']} "
                      f"columns={str(obs.get('cols'))[:80]}): {where}"))
    return v


def oracle(case, obs):
    v = []
    observed = {(p[0], p[1]) for p in case["pairs"]}
    if sorted(map(tuple, obs["table"])) != sorted(observed) or obs["shape_m"] != [case["n_users"], case["n_items"]]:
        v.append(("matrix-construction", "the relationship matrix does not hold the interactions it was built from"))
        return v
    calls = calls_of(case)
    for k, o in enumerate(obs["calls"]):
        v += call_oracle(case, calls, k, o, observed)
    seen, out = set(), []
    for k, w in v:
        if k not in seen:
            seen.add(k)
            out.append((k, w))
    return out


def call_nontrivial(case, call, obs, observed):
    if obs.get("error") or not call["verify"] or call["weighting"] not in W:
        return False
    cells = len(call["rows"]) * (1 if call["n"] is None else call["n"])
    ndraws = sum(len(vs) for _, vs in obs["draws"])
    mixed = any(0 < sum(1 for rr, _ in observed if rr == r) < case["n_items"] for r in set(call["rows"]))
    if call["mode"] not in RECORDED:
        # draws are invisible: the call counts when the quantified plentiful clause was actually judged on a mixed row
        prow, _ = plentiful_judgement(case, call, observed)
        return mixed and cells > 0 and any(0 < q <= PLENTY_EPS for q in prow.values())
    return ndraws > cells and mixed


def nontrivial(case, obs):
    observed = {(p[0], p[1]) for p in case["pairs"]}
    return any(call_nontrivial(case, c, o, observed) for c, o in zip(calls_of(case), obs["calls"]))


def counters(case, obs):
    yield "style=" + case["style"]
    calls = calls_of(case)
    yield "calls=" + str(len(calls))
    observed = {(p[0], p[1]) for p in case["pairs"]}
    nwarned = 0
    for k, (call, o) in enumerate(zip(calls, obs["calls"])):
        yield "weighting=" + str(call["weighting"])
        yield "n=" + str(call["n"])
        yield "att=" + str(call["att"])
        yield "rng-form=" + call["mode"]
        yield "verify=" + str(call["verify"])
        yield f"error={o['error']}"
        yield "rows=" + str(min(len(call["rows"]), 8))
        if o["error"] == 0:
            yield "warnings=" + str(min(len(o["warnings"]), 3))
            yield "resample-rounds=" + str(min(max(len(o["draws"]) - 1, 0), 6))
            if case["n_items"] and any(sum(1 for rr, _ in observed if rr == r) == case["n_items"] for r in set(call["rows"])):
                yield "has-fully-dense-requested-row"
            if len(set(call["rows"])) < len(call["rows"]):
                yield "repeated-rows"
            if call["verify"] and call["mode"] in HONEST and call["weighting"] in W and call["rows"]:
                prow, ptotal = plentiful_judgement(case, call, observed)
                if any(0 < q <= PLENTY_EPS for q in prow.values()):
                    yield "plentiful-clause-judged(row)" + ("" if call["mode"] in RECORDED else "/seed-form")
                if ptotal is not None and 0 < ptotal <= PLENTY_EPS:
                    yield "plentiful-clause-judged(call)" + ("" if call["mode"] in RECORDED else "/seed-form")
            if "again" in o:
                yield "reproducibility-compared"
            if o["warnings"]:
                nwarned += 1
                if nwarned > 1:
                    yield "call-warning-after-an-earlier-warning-on-the-same-matrix"
    yield "calls-that-warned=" + str(min(nwarned, 3))
    if case.get("victims"):
        # huge-but-sparse case: unobserved cells whose alias under a folding family is an observed cell of another row
        vfam = {(v[0], v[1]): v[2] for v in case["victims"]}
        for f in sorted(set(vfam.values())):
            yield "huge:alias-family=" + f
        yield "huge:max-side=" + ("<=2^16" if max(case["n_users"], case["n_items"]) <= 65536 else "<=2^17" if max(case["n_users"], case["n_items"]) <= 131072 else ">2^17")
        for call, o in zip(calls, obs["calls"]):
            if o["error"] == 0 and o.get("cols"):
                got = {vfam[(r, c)] for col in o["cols"] for r, c in zip(call["rows"], col) if (r, c) in vfam}
                for f in sorted(got):
                    yield "huge:aliased-cell-returned=" + f + ("/verified" if call["verify"] else "")
                if call["rows"] and all(not any(rr == r for rr, _ in observed) for r in set(call["rows"])):
                    yield "huge:call-on-rows-without-interactions"


def sample(case, obs):
    return {"case": case, "observation": [{k: o.get(k) for k in ("error", "shape", "cols", "warnings", "draws")} for o in obs["calls"]]}


_shrunk = [0]


def shrink(case, fails):
    _shrunk[0] += 1
    if _shrunk[0] > 5:          # cost cap: at most five failing keys are minimised per run
        return case
    c = dict(case)
    if "calls" in case:
        c["calls"] = common.shrink_list(case["calls"], lambda xs: bool(xs) and fails({**c, "calls": xs}), 20)
        for k in range(len(c["calls"])):
            def with_rows(rows, k=k):
                calls = list(c["calls"])
                calls[k] = {**calls[k], "rows": rows}
                return {**c, "calls": calls}
            c = with_rows(common.shrink_list(c["calls"][k]["rows"], lambda xs: fails(with_rows(xs)), 60))
    else:
        c["rows"] = common.shrink_list(case["rows"], lambda xs: fails({**c, "rows": xs}), 30)
    c["pairs"] = common.shrink_list(c["pairs"], lambda xs: fails({**c, "pairs": xs}), 60)
    return c
