"""C20 -- verified negative sampling (DESIGN.md section 4, C20)."""

from __future__ import annotations

import common
from common import Rng, cbool, clist, cnat, cz
from framework import TranslateError  # noqa: F401

PID = "C20"
PROPS_FILE = "Props/C20.v"
GEN_FILES = ["Gen/C20_shape.v"]
MODEL_FILES = ["Model/C20_sampling.v"]
ALLOWED_AXIOMS: list[str] = []
CASE_HEADER = "From Coq Require Import ZArith.\nFrom LK Require Import Gen.C20_shape Model.C20_sampling.\nOpen Scope Z_scope."
TRUSTED = [
    "Coq 8.16.1 kernel + vm_compute (no native_compute); Print Assumptions of every theorem in Props/C20.v: closed under the global context",
    "extractor harness/translate/c20.py (Python ast -> Gallina): budget test and decrement of _check_negatives_and_resample, presence of the "
    "DataWarning on exhaustion, shift width and word type of _rc_combined_nums, population and column map of each weighting in sample_negatives; "
    "fails closed on any other shape of those functions",
    "hand-written model of the array plumbing (Model/C20_sampling.v: boolean-mask select/scatter, row-major columns, draw order), tied by "
    "correspondence: the integers the implementation drew (recorded by a numpy.random.Generator subclass passed as rng=) are replayed through the "
    "model inside Coq; output arrays, warning counts and the number of draws consumed must agree exactly",
    "generator contract: rng.choice(N, size=k, replace=True) returns k arbitrary elements of 0..N-1 (theorems quantify over all draw streams); "
    "PCG64, pandas Index.get_indexer_for on uint64 keys and numpy mask indexing are exercised, not verified",
    "the 'plentiful negatives' clause is proved as the exact event (failure iff all attempts+1 draws of the row hit observed columns); the "
    "probability of that event under the real generator is not a theorem",
]
ASSUMPTIONS = [
    "row numbers are valid (0 <= r < number of rows < 2^31) and the matrix has fewer than 2^31 columns (int32 numbers)",
    "the relationship matrix is the one built by the dataset builder (sorted, no repeated pair); this is re-observed on every case",
]
RULE = ("structured generator: 0-7 rows x 0-7 columns, density from empty to fully dense with planted dense and empty rows and unused columns, "
        "1-4 sample_negatives calls on ONE matrix object (half of the later calls repeat the previous request), row arrays with repeats (0-10 entries), both weightings (and the alias 'popularity'), n in {None,0,1,2,3,4}, verify on/off, retry budget "
        "-1..5, draws from PCG64 (recorded) or scripted streams biased towards observed columns; non-trivial = some call has verification on, at least one "
        "resampling round happened (more draws than cells) and at least one requested row has both observed and unobserved columns; distinct = "
        "by hash of the case")
SHARD = 150


def translate():
    from translate import c20 as t
    from translate.pyq import TranslateError as TE
    try:
        return t.translate(common.SRC)
    except TE as e:
        raise TranslateError(str(e))


# ---------------------------------------------------------------------------------------------
# generator
# ---------------------------------------------------------------------------------------------

def gen_case(rng, malformed=False):
    nu = rng.weighted([(0, 1), (1, 3), (2, 4), (3, 6), (4, 6), (5, 4), (7, 2)])
    ni = rng.weighted([(0, 1), (1, 4), (2, 5), (3, 6), (4, 6), (5, 4), (7, 2)])
    style = rng.weighted([("sparse", 3), ("mixed", 5), ("dense", 3), ("full", 1), ("empty", 1)])
    pairs = []
    dens = {"sparse": (1, 5), "mixed": (1, 2), "dense": (5, 6), "full": (1, 1), "empty": (0, 1)}[style]
    dense_rows = set(rng.subset(range(nu), 1, 3)) if style in ("mixed", "dense") else set()
    empty_rows = set(rng.subset(range(nu), 1, 4)) if style != "full" else set()
    dead_cols = set(rng.subset(range(ni), 1, 5)) if style in ("sparse", "mixed") else set()
    for u in range(nu):
        for i in range(ni):
            if u in empty_rows:
                continue
            if u in dense_rows and i not in dead_cols and not rng.chance(1, 8):
                pairs.append([u, i])
            elif u not in dense_rows and i not in dead_cols and rng.chance(*dens):
                pairs.append([u, i])
    pairs = rng.shuffle(pairs)
    def gen_call(prev=None):
        if prev is not None and rng.chance(1, 2):
            # the same request again (a training loop asks for the same users batch after batch), perhaps with other knobs
            call = dict(prev)
            call["seed"] = rng.below(2 ** 32)
            if rng.chance(1, 3):
                call["att"] = rng.weighted([(-1, 1), (0, 3), (1, 4), (2, 3)])
            if rng.chance(1, 4):
                call["n"] = rng.weighted([(None, 3), (1, 1), (2, 2)])
            if rng.chance(1, 5):
                call["weighting"] = rng.weighted([("uniform", 1), ("popular", 1)])
            return call
        nr = 0 if nu == 0 else rng.weighted([(0, 1), (1, 3), (2, 3), (3, 4), (5, 4), (8, 2), (10, 1)])
        rows = [rng.below(nu) for _ in range(nr)]
        if nr >= 2 and rng.chance(1, 3):
            rows[1] = rows[0]
        return {"rows": rows, "weighting": rng.weighted([("uniform", 5), ("popular", 3), ("popularity", 2)]),
                "n": rng.weighted([(None, 5), (0, 1), (1, 2), (2, 3), (3, 2), (4, 1)]),
                "att": rng.weighted([(-1, 1), (0, 3), (1, 4), (2, 4), (3, 3), (5, 2)]),
                "verify": not rng.chance(1, 8), "mode": rng.weighted([("pcg", 2), ("scripted", 3)]),
                "seed": rng.below(2 ** 32), "bias": rng.weighted([(0, 3), (1, 1), (2, 3), (3, 2)])}

    calls = [gen_call()]
    for _ in range(rng.weighted([(0, 3), (1, 3), (2, 2), (3, 1)])):
        calls.append(gen_call(calls[-1]))
    case = {"n_users": nu, "n_items": ni, "pairs": pairs, "calls": calls, "style": style}
    if malformed:
        rng.choice(calls)["weighting"] = rng.choice(["Uniform", "pop", ""])
        case["style"] = style + "/malformed"
    return case


def calls_of(case):
    "the sample_negatives calls made, in order, on the ONE matrix object of the case (older corpus cases: a single call)"
    if "calls" in case:
        return case["calls"]
    return [{k: case[k] for k in ("rows", "weighting", "n", "att", "verify", "mode", "seed", "bias")}]


def gen_cases(rng, tier):
    n = 1000 if tier == "quick" else 8000
    return [gen_case(rng.fork(k), malformed=(k % 25 == 24)) for k in range(n)]


# ---------------------------------------------------------------------------------------------
# implementation driver
# ---------------------------------------------------------------------------------------------

_ready = False


def _setup():
    global _ready, np, pd, DatasetBuilder, DataWarning, Recording, Scripted
    if _ready:
        return
    common.use_repo()
    import numpy as np
    import pandas as pd
    from lenskit.data import DatasetBuilder
    from lenskit.diagnostics import DataWarning

    class Recording(np.random.Generator):
        "the real PCG64 stream, with every choice() recorded"

        def __init__(self, seed):
            super().__init__(np.random.PCG64(seed))
            self.log = []

        def choice(self, a, size=None, replace=True, p=None, axis=0, shuffle=True):
            r = super().choice(a, size=size, replace=replace, p=p, axis=axis, shuffle=shuffle)
            self.log.append((int(a), np.asarray(r).ravel().tolist()))
            return r

    class Scripted(np.random.Generator):
        "a stream chosen by the harness (allowed by the generator contract): draws concentrated on low numbers"

        def __init__(self, seed, bias):
            super().__init__(np.random.PCG64(0))
            self.src = Rng(seed)
            self.bias = bias
            self.log = []

        def choice(self, a, size=None, replace=True, p=None, axis=0, shuffle=True):
            a = int(a)
            shape = () if size is None else ((size,) if isinstance(size, (int, np.integer)) else tuple(size))
            k = 1
            for s in shape:
                k *= int(s)
            if a <= 0 and k > 0:
                raise ValueError("a must be a positive integer unless no samples are taken")
            vals = []
            for _ in range(k):
                x = self.src.next() % a
                if self.bias and self.src.chance(2, 3):
                    x = x % min(a, self.bias)
                vals.append(x)
            self.log.append((a, list(vals)))
            return np.array(vals, dtype=np.int64).reshape(shape)

    _ready = True


def build_matrix(case):
    dsb = DatasetBuilder()
    if case["n_users"]:
        dsb.add_entities("user", np.arange(case["n_users"], dtype=np.int64))
    else:
        dsb.add_entity_class("user")
    if case["n_items"]:
        dsb.add_entities("item", np.arange(case["n_items"], dtype=np.int64))
    dsb.add_relationship_class("click", ["user", "item"], allow_repeats=False, interaction=True)
    if case["pairs"]:
        df = pd.DataFrame({"user_id": np.array([p[0] for p in case["pairs"]], dtype=np.int64),
                           "item_id": np.array([p[1] for p in case["pairs"]], dtype=np.int64)})
        dsb.add_interactions("click", df, missing="error", allow_repeats=False)
    return dsb.build().interactions().matrix()


def run_call(m, call):
    import warnings

    obs = {}
    g = Recording(call["seed"]) if call["mode"] == "pcg" else Scripted(call["seed"], call["bias"])
    rows = np.array(call["rows"], dtype=np.int32)
    with warnings.catch_warnings(record=True) as wl:
        warnings.simplefilter("always")
        try:
            out = m.sample_negatives(rows, weighting=call["weighting"], n=call["n"], verify=call["verify"],
                                     max_attempts=call["att"], rng=g)
            obs["error"] = 0
        except ValueError as e:
            obs["error"], obs["msg"] = 1, str(e)[:80]
        except RecursionError:
            obs["error"], obs["msg"] = 3, "RecursionError"
        except Exception as e:  # anything else is outside the contract
            obs["error"], obs["msg"] = 2, f"{type(e).__name__}: {e}"[:120]
    obs["draws"] = [[a, v] for a, v in (g.log[:40] if obs["error"] in (2, 3) else g.log)]
    obs["warnings"] = []
    obs["other_warnings"] = []
    for w in wl:
        msg = str(w.message)
        if issubclass(w.category, DataWarning) and msg.startswith("failed to find verified negatives for "):
            obs["warnings"].append(int(msg.split()[6]))
        else:
            obs["other_warnings"].append(f"{w.category.__name__}: {msg}"[:100])
    if obs["error"] == 0:
        obs["dtype"] = str(out.dtype)
        obs["shape"] = [int(s) for s in out.shape]
        if out.ndim == 1:
            obs["cols"] = [[int(x) for x in out.tolist()]]
        elif out.ndim == 2:
            obs["cols"] = [[int(x) for x in out[:, j].tolist()] for j in range(out.shape[1])]
        else:
            obs["cols"] = None
    return obs


def run_impl(case):
    _setup()
    m = build_matrix(case)           # ONE matrix object for the whole call sequence
    coo = m.coo_structure()
    return {"shape_m": [int(m.n_rows), int(m.n_cols)],
            "table": [[int(r), int(c)] for r, c in zip(coo.row_numbers.tolist(), coo.col_numbers.tolist())],
            "calls": [run_call(m, call) for call in calls_of(case)]}


# ---------------------------------------------------------------------------------------------
# model side
# ---------------------------------------------------------------------------------------------

W = {"uniform": "Uniform", "popular": "Popular", "popularity": "Popular"}


def call_term(case, call, obs):
    if call["weighting"] not in W:
        return None      # name rejected before anything is drawn: oracle only
    if obs["error"] in (2, 3) or (obs["error"] == 0 and obs["cols"] is None):
        return "false"
    pairs = sorted((p[0], p[1]) for p in case["pairs"])
    m = f"{{| m_ncols := {cz(case['n_items'])}; m_pairs := {clist(pairs, lambda p: f'({cz(p[0])}, {cz(p[1])})')} |}}"
    ds = [v for _, vs in obs["draws"] for v in vs]
    n = "None" if call["n"] is None else f"(Some {cnat(call['n'])})"
    if obs["error"]:
        tail = "1%nat [] [] []"
    else:
        tail = f"0%nat {clist(obs['shape'], cz)} {clist(obs['cols'], lambda c: clist(c, cz))} {clist(obs['warnings'], cz)}"
    return (f"agree_sample {m} {W[call['weighting']]} {cbool(call['verify'])} {cz(call['att'])} {n} "
            f"{clist(call['rows'], cz)} {clist(ds, cz)} {tail}")


def coq_term(case, obs):
    "every call of the sequence agrees with the (stateless) model on the draws that call made"
    terms = [t for t in (call_term(case, c, o) for c, o in zip(calls_of(case), obs["calls"])) if t is not None]
    if not terms:
        return None
    return "(" + ")\n  && (".join(terms) + ")"


# ---------------------------------------------------------------------------------------------
# the property as a predicate on implementation output (independent of the Coq model)
# ---------------------------------------------------------------------------------------------


def describe(calls, k):
    def one(c):
        return (f"sample_negatives(rows={c['rows']}, weighting={c['weighting']!r}, n={c['n']}, verify={c['verify']}, "
                f"max_attempts={c['att']}, rng=<{c['mode']} {c['seed']}>)")
    if k == 0:
        return "call #0 " + one(calls[0])
    return f"call #{k} " + one(calls[k]) + " on the same matrix object after " + "; ".join(f"#{j} " + one(calls[j]) for j in range(k))


def call_oracle(case, calls, k, obs, observed):
    call = calls[k]
    v = []
    where = describe(calls, k)
    later = "" if k == 0 else ":later-call"
    if call["weighting"] not in W:
        if obs["error"] != 1:
            v.append(("unknown-weighting-accepted", f"weighting {call['weighting']!r} did not raise ValueError ({where})"))
        return v
    cells = len(call["rows"]) * (1 if call["n"] is None else call["n"])
    pop = case["n_items"] if call["weighting"] == "uniform" else len(observed)
    if pop == 0 and cells > 0:
        if obs["error"] != 1:
            v.append(("empty-population", f"sampling from an empty population did not raise ValueError ({where})"))
        return v
    if obs["error"]:
        v.append((f"unexpected-error:{obs['error']}", f"sample_negatives raised {obs.get('msg')} ({where})"))
        return v
    want_shape = [len(call["rows"])] if call["n"] is None else [len(call["rows"]), call["n"]]
    if obs["shape"] != want_shape:
        v.append(("shape", f"result shape {obs['shape']} instead of {want_shape} ({where})"))
        return v
    present = {c for _, c in observed}
    bad_cells = []
    for col in obs["cols"]:
        for r, c in zip(call["rows"], col):
            if not 0 <= c < case["n_items"]:
                v.append(("range", f"sampled column {c} is not a column number (0..{case['n_items'] - 1}) ({where})"))
            if call["weighting"] != "uniform" and c not in present:
                v.append(("popular-unseen-column", f"popularity weighting returned column {c}, which does not occur in the data ({where})"))
            if (r, c) in observed:
                bad_cells.append((r, c))
    if call["verify"]:
        if bad_cells and not obs["warnings"]:
            v.append(("observed-without-warning" + later,
                      f"{len(bad_cells)} returned cell(s) {bad_cells[:4]} are observed interactions and this call raised no DataWarning: {where}"))
        if obs["warnings"] and not bad_cells:
            v.append(("warning-without-failure" + later,
                      f"a DataWarning reported missing negatives but every returned cell is a true negative: {where}"))
    elif obs["warnings"]:
        v.append(("warning-unverified" + later, f"a verification warning was raised with verify=False: {where}"))
    return v


def oracle(case, obs):
    v = []
    observed = {(p[0], p[1]) for p in case["pairs"]}
    if sorted(map(tuple, obs["table"])) != sorted(observed) or obs["shape_m"] != [case["n_users"], case["n_items"]]:
        v.append(("matrix-construction", "the relationship matrix does not hold the interactions it was built from"))
        return v
    calls = calls_of(case)
    for k, o in enumerate(obs["calls"]):
        v += call_oracle(case, calls, k, o, observed)
    seen, out = set(), []
    for k, w in v:
        if k not in seen:
            seen.add(k)
            out.append((k, w))
    return out


def call_nontrivial(case, call, obs, observed):
    if obs.get("error") or not call["verify"] or call["weighting"] not in W:
        return False
    cells = len(call["rows"]) * (1 if call["n"] is None else call["n"])
    ndraws = sum(len(vs) for _, vs in obs["draws"])
    mixed = any(0 < sum(1 for i in range(case["n_items"]) if (r, i) in observed) < case["n_items"] for r in call["rows"])
    return ndraws > cells and mixed


def nontrivial(case, obs):
    observed = {(p[0], p[1]) for p in case["pairs"]}
    return any(call_nontrivial(case, c, o, observed) for c, o in zip(calls_of(case), obs["calls"]))


def counters(case, obs):
    yield "style=" + case["style"]
    calls = calls_of(case)
    yield "calls=" + str(len(calls))
    observed = {(p[0], p[1]) for p in case["pairs"]}
    nwarned = 0
    for k, (call, o) in enumerate(zip(calls, obs["calls"])):
        yield "weighting=" + str(call["weighting"])
        yield "n=" + str(call["n"])
        yield "att=" + str(call["att"])
        yield "mode=" + call["mode"]
        yield "verify=" + str(call["verify"])
        yield f"error={o['error']}"
        yield "rows=" + str(min(len(call["rows"]), 8))
        if o["error"] == 0:
            yield "warnings=" + str(min(len(o["warnings"]), 3))
            yield "resample-rounds=" + str(min(max(len(o["draws"]) - 1, 0), 6))
            if any(all((r, i) in observed for i in range(case["n_items"])) for r in call["rows"]) and case["n_items"]:
                yield "has-fully-dense-requested-row"
            if len(set(call["rows"])) < len(call["rows"]):
                yield "repeated-rows"
            if o["warnings"]:
                nwarned += 1
                if nwarned > 1:
                    yield "call-warning-after-an-earlier-warning-on-the-same-matrix"
    yield "calls-that-warned=" + str(min(nwarned, 3))


def sample(case, obs):
    return {"case": case, "observation": [{k: o.get(k) for k in ("error", "shape", "cols", "warnings", "draws")} for o in obs["calls"]]}


def shrink(case, fails):
    c = dict(case)
    if "calls" in case:
        c["calls"] = common.shrink_list(case["calls"], lambda xs: bool(xs) and fails({**c, "calls": xs}), 20)
        for k in range(len(c["calls"])):
            def with_rows(rows, k=k):
                calls = list(c["calls"])
                calls[k] = {**calls[k], "rows": rows}
                return {**c, "calls": calls}
            c = with_rows(common.shrink_list(c["calls"][k]["rows"], lambda xs: fails(with_rows(xs)), 20))
    else:
        c["rows"] = common.shrink_list(case["rows"], lambda xs: fails({**c, "rows": xs}), 30)
    c["pairs"] = common.shrink_list(c["pairs"], lambda xs: fails({**c, "pairs": xs}), 40)
    return c
