"""C20 -- verified negative sampling (DESIGN.md section 4, C20)."""

from __future__ import annotations

import common
from common import Rng, cbool, clist, cnat, cz
from framework import TranslateError  # noqa: F401

PID = "C20"
PROPS_FILE = "Props/C20.v"
GEN_FILES = ["Gen/C20_shape.v"]
MODEL_FILES = ["Model/C20_sampling.v"]
ALLOWED_AXIOMS: list[str] = []
CASE_HEADER = "From Coq Require Import ZArith.\nFrom LK Require Import Gen.C20_shape Model.C20_sampling.\nOpen Scope Z_scope."
TRUSTED = [
    "Coq 8.16.1 kernel + vm_compute (no native_compute); Print Assumptions of every theorem in Props/C20.v: closed under the global context",
    "extractor harness/translate/c20.py (Python ast -> Gallina): budget test and decrement of _check_negatives_and_resample, presence of the "
    "DataWarning on exhaustion, shift width and word type of _rc_combined_nums, population and column map of each weighting in sample_negatives; "
    "fails closed on any other shape of those functions",
    "hand-written model of the array plumbing (Model/C20_sampling.v: boolean-mask select/scatter, row-major columns, draw order), tied by "
    "correspondence: the integers the implementation drew (recorded by a numpy.random.Generator subclass passed as rng=) are replayed through the "
    "model inside Coq; output arrays, warning counts and the number of draws consumed must agree exactly",
    "generator contract: rng.choice(N, size=k, replace=True) returns k arbitrary elements of 0..N-1 (theorems quantify over all draw streams); "
    "PCG64, pandas Index.get_indexer_for on uint64 keys and numpy mask indexing are exercised, not verified",
    "the 'plentiful negatives' clause is proved as the exact event (failure iff all attempts+1 draws of the row hit observed columns); the "
    "probability of that event under the real generator is not a theorem",
]
ASSUMPTIONS = [
    "row numbers are valid (0 <= r < number of rows < 2^31) and the matrix has fewer than 2^31 columns (int32 numbers)",
    "the relationship matrix is the one built by the dataset builder (sorted, no repeated pair); this is re-observed on every case",
]
RULE = ("structured generator: 0-7 rows x 0-7 columns, density from empty to fully dense with planted dense and empty rows and unused columns, "
        "row arrays with repeats (0-10 entries), both weightings (and the alias 'popularity'), n in {None,0,1,2,3,4}, verify on/off, retry budget "
        "-1..5, draws from PCG64 (recorded) or scripted streams biased towards observed columns; non-trivial = verification on, at least one "
        "resampling round happened (more draws than cells) and at least one requested row has both observed and unobserved columns; distinct = "
        "by hash of the case")
SHARD = 150


def translate():
    from translate import c20 as t
    from translate.pyq import TranslateError as TE
    try:
        return t.translate(common.SRC)
    except TE as e:
        raise TranslateError(str(e))


# ---------------------------------------------------------------------------------------------
# generator
# ---------------------------------------------------------------------------------------------

def gen_case(rng, malformed=False):
    nu = rng.weighted([(0, 1), (1, 3), (2, 4), (3, 6), (4, 6), (5, 4), (7, 2)])
    ni = rng.weighted([(0, 1), (1, 4), (2, 5), (3, 6), (4, 6), (5, 4), (7, 2)])
    style = rng.weighted([("sparse", 3), ("mixed", 5), ("dense", 3), ("full", 1), ("empty", 1)])
    pairs = []
    dens = {"sparse": (1, 5), "mixed": (1, 2), "dense": (5, 6), "full": (1, 1), "empty": (0, 1)}[style]
    dense_rows = set(rng.subset(range(nu), 1, 3)) if style in ("mixed", "dense") else set()
    empty_rows = set(rng.subset(range(nu), 1, 4)) if style != "full" else set()
    dead_cols = set(rng.subset(range(ni), 1, 5)) if style in ("sparse", "mixed") else set()
    for u in range(nu):
        for i in range(ni):
            if u in empty_rows:
                continue
            if u in dense_rows and i not in dead_cols and not rng.chance(1, 8):
                pairs.append([u, i])
            elif u not in dense_rows and i not in dead_cols and rng.chance(*dens):
                pairs.append([u, i])
    pairs = rng.shuffle(pairs)
    nr = 0 if nu == 0 else rng.weighted([(0, 1), (1, 3), (2, 3), (3, 4), (5, 4), (8, 2), (10, 1)])
    rows = [rng.below(nu) for _ in range(nr)]
    if nr >= 2 and rng.chance(1, 3):
        rows[1] = rows[0]
    weighting = rng.weighted([("uniform", 5), ("popular", 3), ("popularity", 2)])
    n = rng.weighted([(None, 5), (0, 1), (1, 2), (2, 3), (3, 2), (4, 1)])
    att = rng.weighted([(-1, 1), (0, 3), (1, 4), (2, 4), (3, 3), (5, 2)])
    verify = not rng.chance(1, 8)
    mode = rng.weighted([("pcg", 2), ("scripted", 3)])
    case = {"n_users": nu, "n_items": ni, "pairs": pairs, "rows": rows, "weighting": weighting, "n": n, "att": att,
            "verify": verify, "mode": mode, "seed": rng.below(2 ** 32), "bias": rng.weighted([(0, 3), (1, 1), (2, 3), (3, 2)]),
            "style": style}
    if malformed:
        case["weighting"] = rng.choice(["Uniform", "pop", ""])
        case["style"] = style + "/malformed"
    return case


def gen_cases(rng, tier):
    n = 1500 if tier == "quick" else 12000
    return [gen_case(rng.fork(k), malformed=(k % 25 == 24)) for k in range(n)]


# ---------------------------------------------------------------------------------------------
# implementation driver
# ---------------------------------------------------------------------------------------------

_ready = False


def _setup():
    global _ready, np, pd, DatasetBuilder, DataWarning, Recording, Scripted
    if _ready:
        return
    common.use_repo()
    import numpy as np
    import pandas as pd
    from lenskit.data import DatasetBuilder
    from lenskit.diagnostics import DataWarning

    class Recording(np.random.Generator):
        "the real PCG64 stream, with every choice() recorded"

        def __init__(self, seed):
            super().__init__(np.random.PCG64(seed))
            self.log = []

        def choice(self, a, size=None, replace=True, p=None, axis=0, shuffle=True):
            r = super().choice(a, size=size, replace=replace, p=p, axis=axis, shuffle=shuffle)
            self.log.append((int(a), np.asarray(r).ravel().tolist()))
            return r

    class Scripted(np.random.Generator):
        "a stream chosen by the harness (allowed by the generator contract): draws concentrated on low numbers"

        def __init__(self, seed, bias):
            super().__init__(np.random.PCG64(0))
            self.src = Rng(seed)
            self.bias = bias
            self.log = []

        def choice(self, a, size=None, replace=True, p=None, axis=0, shuffle=True):
            a = int(a)
            shape = () if size is None else ((size,) if isinstance(size, (int, np.integer)) else tuple(size))
            k = 1
            for s in shape:
                k *= int(s)
            if a <= 0 and k > 0:
                raise ValueError("a must be a positive integer unless no samples are taken")
            vals = []
            for _ in range(k):
                x = self.src.next() % a
                if self.bias and self.src.chance(2, 3):
                    x = x % min(a, self.bias)
                vals.append(x)
            self.log.append((a, list(vals)))
            return np.array(vals, dtype=np.int64).reshape(shape)

    _ready = True


def build_matrix(case):
    dsb = DatasetBuilder()
    if case["n_users"]:
        dsb.add_entities("user", np.arange(case["n_users"], dtype=np.int64))
    else:
        dsb.add_entity_class("user")
    if case["n_items"]:
        dsb.add_entities("item", np.arange(case["n_items"], dtype=np.int64))
    dsb.add_relationship_class("click", ["user", "item"], allow_repeats=False, interaction=True)
    if case["pairs"]:
        df = pd.DataFrame({"user_id": np.array([p[0] for p in case["pairs"]], dtype=np.int64),
                           "item_id": np.array([p[1] for p in case["pairs"]], dtype=np.int64)})
        dsb.add_interactions("click", df, missing="error", allow_repeats=False)
    return dsb.build().interactions().matrix()


def run_impl(case):
    _setup()
    import warnings

    m = build_matrix(case)
    coo = m.coo_structure()
    obs = {"shape_m": [int(m.n_rows), int(m.n_cols)],
           "table": [[int(r), int(c)] for r, c in zip(coo.row_numbers.tolist(), coo.col_numbers.tolist())]}
    g = Recording(case["seed"]) if case["mode"] == "pcg" else Scripted(case["seed"], case["bias"])
    rows = np.array(case["rows"], dtype=np.int32)
    with warnings.catch_warnings(record=True) as wl:
        warnings.simplefilter("always")
        try:
            out = m.sample_negatives(rows, weighting=case["weighting"], n=case["n"], verify=case["verify"],
                                     max_attempts=case["att"], rng=g)
            obs["error"] = 0
        except ValueError as e:
            obs["error"], obs["msg"] = 1, str(e)[:80]
        except RecursionError:
            obs["error"], obs["msg"] = 3, "RecursionError"
        except Exception as e:  # anything else is outside the contract
            obs["error"], obs["msg"] = 2, f"{type(e).__name__}: {e}"[:120]
    obs["draws"] = [[a, v] for a, v in (g.log[:40] if obs["error"] in (2, 3) else g.log)]
    obs["warnings"] = []
    obs["other_warnings"] = []
    for w in wl:
        msg = str(w.message)
        if issubclass(w.category, DataWarning) and msg.startswith("failed to find verified negatives for "):
            obs["warnings"].append(int(msg.split()[6]))
        else:
            obs["other_warnings"].append(f"{w.category.__name__}: {msg}"[:100])
    if obs["error"] == 0:
        obs["dtype"] = str(out.dtype)
        obs["shape"] = [int(s) for s in out.shape]
        if out.ndim == 1:
            obs["cols"] = [[int(x) for x in out.tolist()]]
        elif out.ndim == 2:
            obs["cols"] = [[int(x) for x in out[:, j].tolist()] for j in range(out.shape[1])]
        else:
            obs["cols"] = None
    return obs


# ---------------------------------------------------------------------------------------------
# model side
# ---------------------------------------------------------------------------------------------

W = {"uniform": "Uniform", "popular": "Popular", "popularity": "Popular"}


def coq_term(case, obs):
    if case["weighting"] not in W:
        return None      # name rejected before anything is drawn: oracle only
    if obs["error"] in (2, 3) or (obs["error"] == 0 and obs["cols"] is None):
        return "false"
    pairs = sorted((p[0], p[1]) for p in case["pairs"])
    m = f"{{| m_ncols := {cz(case['n_items'])}; m_pairs := {clist(pairs, lambda p: f'({cz(p[0])}, {cz(p[1])})')} |}}"
    ds = [v for _, vs in obs["draws"] for v in vs]
    n = "None" if case["n"] is None else f"(Some {cnat(case['n'])})"
    if obs["error"]:
        tail = "1%nat [] [] []"
    else:
        tail = f"0%nat {clist(obs['shape'], cz)} {clist(obs['cols'], lambda c: clist(c, cz))} {clist(obs['warnings'], cz)}"
    return (f"agree_sample {m} {W[case['weighting']]} {cbool(case['verify'])} {cz(case['att'])} {n} "
            f"{clist(case['rows'], cz)} {clist(ds, cz)} {tail}")


# ---------------------------------------------------------------------------------------------
# the property as a predicate on implementation output (independent of the Coq model)
# ---------------------------------------------------------------------------------------------


def oracle(case, obs):
    v = []
    observed = {(p[0], p[1]) for p in case["pairs"]}
    if sorted(map(tuple, obs["table"])) != sorted(observed) or obs["shape_m"] != [case["n_users"], case["n_items"]]:
        v.append(("matrix-construction", "the relationship matrix does not hold the interactions it was built from"))
        return v
    if case["weighting"] not in W:
        if obs["error"] != 1:
            v.append(("unknown-weighting-accepted", f"weighting {case['weighting']!r} did not raise ValueError"))
        return v
    cells = len(case["rows"]) * (1 if case["n"] is None else case["n"])
    pop = case["n_items"] if case["weighting"] == "uniform" else len(observed)
    if pop == 0 and cells > 0:
        if obs["error"] != 1:
            v.append(("empty-population", "sampling from an empty population did not raise ValueError"))
        return v
    if obs["error"]:
        v.append((f"unexpected-error:{obs['error']}", f"sample_negatives raised {obs.get('msg')}"))
        return v
    want_shape = [len(case["rows"])] if case["n"] is None else [len(case["rows"]), case["n"]]
    if obs["shape"] != want_shape:
        v.append(("shape", f"result shape {obs['shape']} instead of {want_shape}"))
        return v
    present = {c for _, c in observed}
    bad_cells = 0
    for col in obs["cols"]:
        for r, c in zip(case["rows"], col):
            if not 0 <= c < case["n_items"]:
                v.append(("range", f"sampled column {c} is not a column number (0..{case['n_items'] - 1})"))
            if case["weighting"] != "uniform" and c not in present:
                v.append(("popular-unseen-column", f"popularity weighting returned column {c}, which does not occur in the data"))
            if (r, c) in observed:
                bad_cells += 1
    if case["verify"]:
        if bad_cells and not obs["warnings"]:
            v.append(("observed-without-warning", f"{bad_cells} returned cell(s) are observed interactions and no DataWarning was raised"))
        if obs["warnings"] and not bad_cells:
            v.append(("warning-without-failure", "a DataWarning reported missing negatives but every returned cell is a true negative"))
        # rows with an unobserved eligible column somewhere in their own draws must not fail: replay the draws per position
    else:
        if obs["warnings"]:
            v.append(("warning-unverified", "a verification warning was raised with verify=False"))
    seen, out = set(), []
    for k, w in v:
        if k not in seen:
            seen.add(k)
            out.append((k, w))
    return out


def nontrivial(case, obs):
    if obs.get("error") or not case["verify"] or case["weighting"] not in W:
        return False
    observed = {(p[0], p[1]) for p in case["pairs"]}
    cells = len(case["rows"]) * (1 if case["n"] is None else case["n"])
    ndraws = sum(len(vs) for _, vs in obs["draws"])
    mixed = any(0 < sum(1 for i in range(case["n_items"]) if (r, i) in observed) < case["n_items"] for r in case["rows"])
    return ndraws > cells and mixed


def counters(case, obs):
    yield "style=" + case["style"]
    yield "weighting=" + str(case["weighting"])
    yield "n=" + str(case["n"])
    yield "att=" + str(case["att"])
    yield "mode=" + case["mode"]
    yield "verify=" + str(case["verify"])
    yield f"error={obs['error']}"
    yield "rows=" + str(min(len(case["rows"]), 8))
    if obs["error"] == 0:
        yield "warnings=" + str(min(len(obs["warnings"]), 3))
        yield "resample-rounds=" + str(min(max(len(obs["draws"]) - 1, 0), 6))
        observed = {(p[0], p[1]) for p in case["pairs"]}
        if any(all((r, i) in observed for i in range(case["n_items"])) for r in case["rows"]) and case["n_items"]:
            yield "has-fully-dense-requested-row"
        if len(set(case["rows"])) < len(case["rows"]):
            yield "repeated-rows"


def sample(case, obs):
    return {"case": case, "observation": {k: obs.get(k) for k in ("error", "shape", "cols", "warnings", "draws")}}


def shrink(case, fails):
    c = dict(case)
    c["rows"] = common.shrink_list(case["rows"], lambda xs: fails({**c, "rows": xs}), 30)
    c["pairs"] = common.shrink_list(case["pairs"], lambda xs: fails({**c, "pairs": xs}), 40)
    return c
