"""C17 -- entity attributes attach exactly the supplied values to the supplied entities
(DESIGN.md section 4, C17; notes/design/C17.md).

A case is a history of builder calls for one entity class -- batches of entities interleaved with
scalar / list / dense-vector / sparse-vector attributes given for permuted subsets of the known
identifiers through parallel arrays, series or data frames -- followed by queries (attribute, optional
selection of identifiers in any order).  Every query is answered by the built Dataset in every
output form; the Coq model answers the same queries and the comparison happens inside Coq.

How the data of a call is handed over is a generated dimension of its own: the container and dtype
(Python list / tuple, NumPy native or object dtype, Arrow, pandas NumPy-backed, nullable extension dtypes
Int64 / Float64 / boolean / string, ArrowDtype, Categorical), the missing marker that container uses
(None, pd.NA, Arrow null; a float NaN is a value), integers beyond 2^53, and the memory layout (NumPy
views: strided, reversed, Fortran-ordered / transposed matrices; Arrow arrays sliced or chunked; list
arrays with raw offsets into a longer child array; CSR rows with unsorted indices, COO with duplicate
coordinates).  Physical layouts are passed to the Coq model as (buffer, offset, strides) and decoded
there (Model/C17_layout.v).
"""

from __future__ import annotations

import c17_supply as S
import common
from common import clist, cnat, copt, cz

PID = "C17"
PROPS_FILE = "Props/C17.v"
GEN_FILES: list[str] = []
MODEL_FILES = ["Model/C17_attributes.v", "Model/C17_layout.v"]
ALLOWED_AXIOMS: list[str] = []
CASE_HEADER = "From Coq Require Import ZArith List.\nFrom LK Require Import Model.C17_attributes Model.C17_layout.\nImport ListNotations."
SHARD = 40
TRUSTED = [
    "Coq 8.16.1 kernel + vm_compute (no native_compute); Print Assumptions of every theorem in Props/C17.v: closed under the global context",
    "hand-written model Model/C17_attributes.v of DatasetBuilder.add_entities / add_scalar_attribute / add_list_attribute / add_vector_attribute "
    "(dense fixed-size and list storage, sparse), _expand_and_align_list_array and the readers of lenskit.data.attributes, and Model/C17_layout.v "
    "(NumPy strided views, ndarray.ravel + FixedSizeListArray.from_arrays, sliced Arrow arrays, list-array windows and flatten); tied to the code by "
    "history correspondence evaluated inside Coq (exact integers; numeric values are quarter steps; supplied arrays described by base buffer, offset and strides)",
    "Arrow kernels used on whole arrays (pa.array type inference and null handling for every container, take, filter, drop_null, cast, concat_tables null padding, "
    "value_lengths, flatten, ListArray.from_arrays, dictionary_encode / decode), np.argsort as 'sort by key', pandas/NumPy/SciPy/torch conversions: exercised "
    "(every output form compared entry-wise and exactly), not verified",
    "canonicalisation by the harness: identifiers and string values -> Z by an order isomorphism, numbers -> 4 * value (exact, integers never through float64), "
    "null -> the missing marker, a float NaN scalar value -> one reserved code (a value, distinct from missing, wherever the output form can tell them apart); "
    "the entries of a sparse row listed by column",
]
ASSUMPTIONS = [
    "the identifiers given with an attribute are distinct (a subset of the entity identifiers) and there is one value per identifier",
    "dense vectors of one attribute all have the declared dimension (>= 1)",
    "a null (None / pd.NA / Arrow null / null list / null vector) supplied for an entity is the same as supplying none; a float NaN supplied as a scalar value "
    "is a value (kept by drop_null, shown as NaN); NaN components of a dense vector are components",
    "numpy() / torch() of an integer attribute read for a selection with a missing entity is float64 (NumPy has no integer NA): there a value is compared with "
    "its nearest double; every other form (arrow, pandas, and numpy for fully defined selections) must give the integer exactly",
]
RULE = ("histories of 2-4 entity batches interleaved with 1-5 attributes (all four layouts; arrays / series / data frame / frame indexed by id; "
        "int or string ids, the identifier array of every batch / attribute / selection of its own container (list, tuple, NumPy, Arrow, Series, Index, nullable extension array), "
        "width (int8/16/32/64, Python ints: later batches wider or narrower) and memory layout (strided / reversed NumPy views, sliced / chunked Arrow arrays); "
        "values int (also beyond 2^53) / float (also NaN as a value) / string / bool through Python lists, NumPy native and object dtype, Arrow (32- and 64-bit, large_string), "
        "pandas nullable Int/Float/boolean/string dtypes, ArrowDtype, Categorical, with the container's own missing marker, dictionary=True; NumPy matrices C- and F-contiguous, "
        "transposed, strided, reversed, float32/float64/int64, DataFrame.values; fixed-size-list arrays sliced / chunked; list arrays sliced or with raw offsets into a longer child; "
        "CSR (unsorted indices, int64 indices, row slices) / COO (duplicate coordinates) / CSC; nulls, empty lists, zero vectors, all-zero sparse rows) over permuted subsets of the known "
        "ids, then 3-8 queries (all entities, permuted subsets with undefined entities, empty selection); separate malformed stream (unknown ids, "
        "re-added names and entities, unknown selections); declared dimension names and vector sizes re-read after every accepted builder call; stored value type compared with the supplied one; "
        "non-trivial = at least two layouts, an attribute given for a proper subset in non-table "
        "order, an entity batch added after an attribute, and a query selecting both defined and undefined entities; distinct = by hash of the case")

NID = 14
NANCODE = 4_000_001            # canonical code of a float NaN supplied / read as a VALUE (codes of numbers are multiples of 4)
BIGINTS = [2**53 + 1, -(2**53) - 1, 2**53 + 3, 2**62 + 3, 2**63 - 1, -(2**63)]     # not representable as float64 / at the int64 limits

# ---------------------------------------------------------------------------------------------
# generator
# ---------------------------------------------------------------------------------------------


def g_scalar_val(rng, vtype, big=False, nan=False):
    if vtype == "str":
        return rng.randint(0, 30)
    if vtype == "bool":
        return 4 * rng.below(2)
    if vtype == "int":
        if big and rng.chance(1, 5):
            return 4 * rng.choice(BIGINTS)
        return 4 * rng.randint(-5, 40)
    if nan and rng.chance(1, 8):
        return NANCODE
    return rng.randint(-10, 60)


IDDTYPES = ["i1", "i2", "i4", "i8", "py"]


def g_iddtype(rng, idtype):
    """the width of the identifier array of one call: later batches may be wider or narrower than earlier ones"""
    return rng.choice(IDDTYPES) if idtype == "int" else "str"


def g_idsupply(rng, idtype, n, kinds):
    """container, width and memory layout of one identifier array"""
    kind = rng.choice(kinds)
    dt = g_iddtype(rng, idtype)
    junk = lambda: rng.randint(0, NID + 2)
    lay = None
    if kind == "numpy" and dt != "py":
        lay = S.g_lay1(rng, n, junk)
    elif kind == "arrow":
        lay = S.g_alay(rng, n, junk)
    return kind, dt, lay, rng.below(2)


def g_values_supply(rng, o, layout, n):
    """how the values of a scalar / list attribute are handed over: call form, backing container + dtype, memory layout, missing marker"""
    form = rng.choice(["arrays", "arrays", "series", "frame", "frame_idx"])
    o["form"] = form
    vt = o["vtype"]
    if layout == "scalar":
        if form == "arrays":
            back = rng.weighted([("list", 3), ("np", 4), ("npobj", 2), ("arrow", 4), ("pdna", 3), ("cat", 1 if vt in ("str", "int") else 0)])
        else:
            back = rng.weighted([("np", 4), ("npobj", 3), ("pdna", 4), ("pdarrow", 2), ("cat", 1 if vt in ("str", "int") else 0)])
    else:
        if form == "arrays":
            back = rng.weighted([("list", 3), ("arrow", 5), ("npobj", 3)])
        else:
            back = rng.weighted([("npobj", 4), ("pdarrow", 2)])
    o["back"] = back
    o["vwide"] = rng.chance(2, 3)         # 8-byte numbers (else 4-byte) / utf8 (else large_utf8, NumPy 'U', string[pyarrow])
    if layout == "list":
        o["inner"] = rng.choice(["py", "np"]) if vt in ("int", "float") else "py"


def g_attr(rng, name, known, idtype, malformed):
    layout = rng.weighted([("scalar", 5), ("list", 3), ("vector", 4), ("sparse", 3)])
    cover = rng.weighted([("subset", 5), ("all", 2 if layout != "vector" else 4), ("one", 1), ("none", 1)])
    if cover == "all":
        ids = list(known)
    elif cover == "one":
        ids = [rng.choice(known)]
    elif cover == "none":
        ids = []
    else:
        ids = rng.subset(known, 3, 5)
    # any order; entity-table order (the identity permutation: the code has shortcuts for it) and ascending order stay frequent
    ids = rng.weighted([(rng.shuffle(ids), 8), (ids, 3), (sorted(ids), 1)])
    if malformed == "unknown":
        ids = ids + [rng.choice([k for k in range(NID + 3) if k not in known])]
    o = {"op": layout, "name": name, "ids": ids}
    n = len(ids)
    idkinds = ["list", "numpy", "numpy", "arrow", "series", "index", "ext", "tuple"]
    if layout == "scalar":
        vt = rng.weighted([("int", 4), ("float", 4), ("str", 3), ("bool", 2)])
        o["vtype"] = vt
        g_values_supply(rng, o, layout, n)
        back = o["back"]
        nullable = back != "np"
        big = vt == "int" and o["vwide"]
        nan = vt == "float" and back in ("list", "np", "npobj", "arrow")
        o["vals"] = [None if nullable and rng.chance(1, 6) else g_scalar_val(rng, vt, big, nan) for _ in range(n)]
        junk = lambda: g_scalar_val(rng, vt, big, False)
        o["vlay"] = S.g_lay1(rng, n, junk) if back in ("np", "npobj") else S.g_alay(rng, n, junk) if back == "arrow" else None
        o["dictionary"] = rng.chance(1, 3) if vt == "str" else rng.chance(1, 8)
        if o["form"] != "arrays":
            idkinds = ["numpy", "numpy", "ext"]
    elif layout == "list":
        vt = rng.choice(["int", "str", "float"])
        o["vtype"] = vt
        g_values_supply(rng, o, layout, n)
        mk = lambda: [g_scalar_val(rng, vt) for _ in range(rng.weighted([(0, 2), (1, 3), (2, 3), (4, 1)]))]
        o["lists"] = [None if rng.chance(1, 8) else mk() for _ in range(n)]
        o["vlay"] = None
        if o["back"] == "npobj":
            o["vlay"] = S.g_lay1(rng, n, lambda: None if rng.chance(1, 6) else mk())
        if o["back"] == "arrow":
            o["vlay"] = S.g_alay(rng, n, lambda: None if rng.chance(1, 6) else mk(), allow_split=False)
            # ListArray.from_arrays over a child array that has further elements before / after the lists
            o["vlay"]["raw"] = [g_scalar_val(rng, vt) for _ in range(rng.randint(1, 2))] if rng.chance(1, 3) else None
        o["dictionary"] = rng.chance(1, 4)
        if o["form"] != "arrays":
            idkinds = ["numpy", "numpy", "ext"]
    elif layout == "vector":
        d = rng.randint(1, 4)
        o["size"] = d
        o["form"] = rng.weighted([("numpy", 6), ("frame", 1), ("arrow", 4)])
        o["dtype"] = rng.weighted([("f8", 5), ("f4", 3), ("i8", 1 if o["form"] != "arrow" else 0)])

        def vec():
            if rng.chance(1, 8):
                return [0] * d
            return [None if o["dtype"] != "i8" and rng.chance(1, 25) else (4 if o["dtype"] == "i8" else 1) * rng.randint(-10, 60) for _ in range(d)]
        o["vecs"] = [vec() for _ in range(n)]
        o["vlay"] = None
        if o["form"] == "arrow":
            if n and rng.chance(1, 2):
                o["vecs"][rng.below(n)] = None
            o["vlay"] = S.g_alay(rng, n, lambda: None if rng.chance(1, 5) else vec())
        elif o["form"] == "numpy" and n:
            o["vlay"] = S.g_lay2(rng, n, d, lambda: (4 if o["dtype"] == "i8" else 1) * rng.randint(-10, 60))
        o["dims"] = [rng.randint(0, 50) for _ in range(d)] if rng.chance(1, 2) else None
        if o["dims"] is not None:
            o["dimtype"] = rng.choice(["str", "int"])
    else:
        m = rng.randint(1, 6)
        o["ncol"] = m

        def srow():
            if rng.chance(1, 6):
                return []
            cols = sorted(rng.subset(list(range(m)), 1, 2))
            return [[c, rng.choice([x for x in range(-10, 40) if x != 0])] for c in cols]
        o["rows"] = [srow() for _ in range(n)]
        o["fmt"] = rng.choice(["csr", "coo", "csc"])
        # physical variants: CSR rows with unsorted column indices, COO with an entry split in two, a row slice of a taller matrix
        o["variant"] = rng.weighted([("plain", 4), ("unsorted" if o["fmt"] == "csr" else "dups" if o["fmt"] == "coo" else "plain", 3), ("sliced", 2)])
        o["lead"] = [srow() for _ in range(rng.randint(0, 2))] if o["variant"] == "sliced" else []
        o["trail"] = [srow() for _ in range(rng.randint(0, 1))] if o["variant"] == "sliced" else []
        o["idx8"] = rng.chance(1, 3)
        o["dtype"] = rng.choice(["f8", "f8", "f4"])
        o["dims"] = [rng.randint(0, 50) for _ in range(m)] if rng.chance(1, 2) else None
        if o["dims"] is not None:
            o["dimtype"] = rng.choice(["str", "int"])
    o["idkind"], o["iddtype"], o["idlay"], o["idvar"] = g_idsupply(rng, idtype, n, idkinds)
    return o


def gen_case(rng, malformed=False):
    idtype = rng.choice(["int", "str"])
    cs = {"idtype": idtype, "cls": rng.choice(["item", "item", "user", "tag"]), "ops": [], "queries": [],
          "style": "malformed" if malformed else "valid"}
    pool = rng.shuffle(list(range(NID)))
    known: list = []
    nbatch = rng.randint(2, 4)
    nattr = rng.randint(1, 5)
    plan = ["e"] + rng.shuffle(["e"] * (nbatch - 1) + ["a"] * nattr)
    names = []
    ekinds = ["list", "numpy", "numpy", "arrow", "series", "index", "ext"]
    for what in plan:
        bad = None
        if malformed and rng.chance(1, 4):
            bad = rng.choice(["unknown", "dupname", "dupent"])
        if what == "e":
            k = rng.randint(1, 5) if known else rng.randint(2, 6)
            new = [pool.pop() for _ in range(min(k, len(pool)))]
            if not new:
                continue
            if bad == "dupent" and known:
                cs["ops"].append({"op": "entities", "ids": new + [rng.choice(known)], "kind": "list", "dtype": g_iddtype(rng, idtype), "lay": None, "var": 0})
                pool.extend(new)
                continue
            kind, dt, lay, var = g_idsupply(rng, idtype, len(new), ekinds)
            if kind in ("arrow", "ext"):
                var = 0                     # (large_string identifiers are refused by add_entities: "invalid ID type")
            cs["ops"].append({"op": "entities", "ids": new, "kind": kind, "dtype": dt, "lay": lay, "var": var})
            known = known + sorted(new)
        else:
            name = len(names)
            if bad == "dupname" and names:
                o = g_attr(rng, rng.choice(names), known, idtype, None)
                cs["ops"].append(o)
                continue
            o = g_attr(rng, name, known, idtype, bad if bad == "unknown" else None)
            cs["ops"].append(o)
            if bad != "unknown":
                names.append(name)
    for _ in range(rng.randint(3, 8)):
        name = rng.choice(names) if names and not (malformed and rng.chance(1, 10)) else len(names) + 1
        t = rng.weighted([("all", 3), ("subset", 5), ("empty", 1), ("one", 1)])
        if t == "all":
            sel = None
        elif t == "empty":
            sel = []
        elif t == "one":
            sel = [rng.choice(known)]
        else:
            sel = rng.shuffle(rng.subset(known, 1, 2))
            if rng.chance(1, 6) and sel:
                sel = sel + [sel[0]]
        if malformed and sel is not None and rng.chance(1, 8):
            sel = sel + [NID + 5]
        kind, dt, lay, var = g_idsupply(rng, idtype, len(sel or []), ["numpy", "numpy", "list", "series"])
        cs["queries"].append({"name": name, "sel": sel, "kind": kind if sel else "list", "dtype": dt, "lay": lay if sel else None, "var": var})
    return cs


def gen_cases(rng, tier):
    n = 800 if tier == "quick" else 12000
    return [gen_case(rng.fork(k), malformed=(k % 6 == 5)) for k in range(n)]


# ---------------------------------------------------------------------------------------------
# implementation driver
# ---------------------------------------------------------------------------------------------

_ready = False


def _setup():
    global _ready, np, pd, pa, sps, torch, DatasetBuilder, DataError
    if _ready:
        return
    common.use_repo()
    import numpy as np
    import pandas as pd
    import pyarrow as pa
    import scipy.sparse as sps
    import torch
    from lenskit.data import DatasetBuilder
    from lenskit.diagnostics import DataError
    _ready = True


def _id(idtype, k):
    return 5 * k - 30 if idtype == "int" else "e%02d" % k          # -30 .. 55: fits every integer width


def _unid(x):
    if isinstance(x, (bytes, str)):
        return int(x[1:])
    return (int(x) + 30) // 5


def _val(vtype, v):
    if v is None:
        return None
    if vtype == "str":
        return "v%03d" % v
    if vtype == "bool":
        return bool(v)
    if vtype == "int":
        return v // 4
    if v == NANCODE:
        return float("nan")
    return v / 4


def _unval(vtype, x, nan=None):
    """canonical Z of a value read back, exactly (None for null; a NaN gives `nan`: None inside lists / vectors and in the
    NumPy forms, NANCODE where the form can tell a NaN value from a missing one)"""
    if x is None or x is getattr(pd, "NA", None):
        return None
    if isinstance(x, (bytes, str)):
        return int(x[1:])
    if isinstance(x, (bool, np.bool_)):
        return 4 if x else 0
    if isinstance(x, (int, np.integer)):
        return 4 * int(x)                                   # exact: no trip through float64
    x = float(x)
    if x != x:
        return nan
    q = x * 4
    assert q == int(q), x
    return int(q)


NPT = {"i1": "int8", "i2": "int16", "i4": "int32", "i8": "int64", "py": "int64"}


def _np1(logical, lay, conv, dtype):
    """a NumPy 1-D array holding `logical` with the memory layout `lay` (a view into a longer / reversed base array)"""
    if lay is None:
        return _objarr([conv(x) for x in logical]) if dtype is object else np.array([conv(x) for x in logical], dtype=dtype)
    buf = [conv(x) for x in S.lay1_buf(lay, logical)]
    base = _objarr(buf) if dtype is object else np.array(buf, dtype=dtype)
    out = base[lay["off"]::lay["st"]][: len(logical)] if len(logical) else base[:0]
    assert len(out) == len(logical)
    return out


def _objarr(xs):
    a = np.empty(len(xs), dtype=object)
    for i, x in enumerate(xs):
        a[i] = x
    return a


def _arrow1(logical, lay, conv, typ):
    """an Arrow array holding `logical`: plain, a slice of a longer array, or chunked"""
    if lay is None:
        return pa.array([conv(x) for x in logical], type=typ)
    full = pa.array([conv(x) for x in S.alay_full(lay, logical)], type=typ)
    arr = full.slice(lay["lead"], len(logical))
    if lay["split"] is not None:
        return pa.chunked_array([arr.slice(0, lay["split"]), arr.slice(lay["split"])])
    return arr


def _ids_arr(ids, idtype, kind, dtype=None, lay=None, var=0):
    conv = lambda k: _id(idtype, k)
    vals = [conv(k) for k in ids]
    if kind == "tuple":
        return tuple(vals)
    if idtype != "int":
        if kind == "numpy":
            return _np1(ids, lay, conv, object) if not (var and vals) else _np1(ids, lay, conv, "U3")
        if kind == "arrow":
            return _arrow1(ids, lay, conv, pa.large_utf8() if var else pa.utf8())
        if kind == "series":
            return pd.Series(vals, dtype="string" if var else object)
        if kind == "index":
            return pd.Index(vals, dtype="string" if var else object)
        if kind == "ext":
            return pd.array(vals, dtype="string[pyarrow]" if var else "string")
        return vals
    dtype = dtype or "i8"
    if dtype == "py" or kind == "list":
        return [int(v) for v in vals]                      # plain Python integers (inferred as int64)
    npt = np.dtype(NPT[dtype])
    if kind == "numpy":
        return _np1(ids, lay, conv, npt)
    if kind == "arrow":
        return _arrow1(ids, lay, conv, pa.from_numpy_dtype(npt))
    if kind == "series":
        return pd.Series(vals, dtype=npt)
    if kind == "index":
        return pd.Index(np.array(vals, dtype=npt))
    if kind == "ext":
        return pd.array(vals, dtype=NPT[dtype].replace("int", "Int"))       # pandas nullable integer
    return vals


def _dimnames(o):
    if o["dims"] is None:
        return None
    return ["d%02d" % k for k in o["dims"]] if o["dimtype"] == "str" else [int(k) for k in o["dims"]]


def _undim(x):
    return int(x[1:]) if isinstance(x, str) else int(x)


def _patype(vt, wide):
    return {"int": pa.int64() if wide else pa.int32(), "float": pa.float64() if wide else pa.float32(),
            "str": pa.utf8() if wide else pa.large_utf8(), "bool": pa.bool_()}[vt]


def _nptype(vt, wide):
    return {"int": np.int64 if wide else np.int32, "float": np.float64 if wide else np.float32, "bool": np.bool_}[vt]


def _typed_fallback(o):
    """Python / pandas type inference needs something to infer from: a call whose values are all missing (or all empty lists)
    through an untyped container is handed over as a typed Arrow array instead"""
    if o["op"] == "scalar":
        nothing = all(v is None for v in o["vals"])
    else:
        nothing = not any(o["lists"])
    return nothing and o["back"] in ("list", "npobj", "cat")


def _scalar_values(o):
    """the values container of a scalar attribute (`back`, dtype, layout, missing marker)"""
    vt, back, wide = o["vtype"], o["back"], o["vwide"]
    conv = lambda v: _val(vt, v)
    pyvals = [conv(v) for v in o["vals"]]
    if back == "list":
        return pyvals
    if back == "np":                                          # native dtype: no missing marker (a float NaN is a value)
        dt = ("U4" if not wide and pyvals else object) if vt == "str" else _nptype(vt, wide)
        return _np1(o["vals"], o["vlay"], conv, dt)
    if back == "npobj":                                       # object dtype, None marks a missing value
        return _np1(o["vals"], o["vlay"], conv, object)
    if back == "arrow":
        return _arrow1(o["vals"], o["vlay"], conv, _patype(vt, wide))
    if back == "pdna":                                        # pandas nullable extension dtype, pd.NA marks a missing value
        dt = {"int": "Int64" if wide else "Int32", "float": "Float64" if wide else "Float32",
              "str": "string" if wide else "string[pyarrow]", "bool": "boolean"}[vt]
        return pd.array([pd.NA if v is None else v for v in pyvals], dtype=dt)
    if back == "pdarrow":
        return pd.array(pyvals, dtype=pd.ArrowDtype(_patype(vt, wide)))
    if back == "cat":
        return pd.Categorical(pyvals)
    raise ValueError(back)


def _list_values(o):
    vt, back = o["vtype"], o["back"]
    et = _patype(vt, True)

    def conv(l):
        if l is None:
            return None
        xs = [_val(vt, v) for v in l]
        if o.get("inner") == "np" and back in ("npobj", "list"):
            return np.array(xs, dtype=_nptype(vt, True))
        return xs
    if back == "list":
        return [conv(l) for l in o["lists"]]
    if back == "npobj":
        return _np1(o["lists"], o["vlay"], conv, object)
    if back == "pdarrow":
        return pd.array([conv(l) for l in o["lists"]], dtype=pd.ArrowDtype(pa.list_(et)))
    lay = o["vlay"]
    if lay is None or not lay.get("raw"):
        return _arrow1(o["lists"], lay, conv, pa.list_(et))
    # raw offsets into a child array that starts with foreign elements (what a slice of a nested array looks like)
    offs, vals, nulls = S.raw_listarray(S.alay_full(lay, o["lists"]))
    g = len(lay["raw"])
    child = pa.array([_val(vt, v) for v in lay["raw"] + vals + lay["raw"]], type=et)
    full = pa.ListArray.from_arrays(pa.array([x + g for x in offs], type=pa.int32()), child, mask=pa.array(nulls, type=pa.bool_()))
    return full.slice(lay["lead"], len(o["lists"]))


def _matrix(o):
    """the 2-D NumPy matrix of a dense vector attribute with the generated memory layout"""
    d, n = o["size"], len(o["vecs"])
    dt = {"f8": np.float64, "f4": np.float32, "i8": np.int64}[o["dtype"]]
    conv = (lambda c: c // 4) if o["dtype"] == "i8" else (lambda c: np.nan if c is None else c / 4)
    lay = o["vlay"]
    if lay is None:
        mat = np.array([[conv(c) for c in v] for v in o["vecs"]], dtype=dt).reshape(n, d)
        if o["form"] == "frame" and n:
            mat = pd.DataFrame(mat).values                  # pandas keeps a homogeneous frame column-major
        return mat
    base = np.array([conv(c) for c in S.lay2_buf(lay, o["vecs"])], dtype=dt).reshape(lay["R"], lay["C"])
    v = base.T if lay["tr"] else base
    v = v[lay["r0"]::lay["rs"]][:n][:, lay["c0"]::lay["cs"]][:, :d]
    off, s0, s1 = S.lay2_strides(lay)
    assert v.shape == (n, d) and (n < 2 or v.strides[0] == s0 * v.itemsize) and (d < 2 or v.strides[1] == s1 * v.itemsize), (v.shape, v.strides, lay)
    return v


def _sparse(o):
    m, n = o["ncol"], len(o["rows"])
    allrows = o["lead"] + o["rows"] + o["trail"]
    dt = np.float64 if o["dtype"] == "f8" else np.float32
    if o["variant"] == "unsorted":
        indptr, indices, data = [0], [], []
        for row in allrows:
            for c, v in reversed(row):
                indices.append(c)
                data.append(v / 4)
            indptr.append(len(indices))
        mat = sps.csr_array((np.array(data, dtype=dt), np.array(indices, dtype=np.int32), np.array(indptr, dtype=np.int32)), shape=(len(allrows), m))
    elif o["variant"] == "dups":
        rr, cc, dd = [], [], []
        for r, row in enumerate(allrows):
            for c, v in row:
                for part in ([1, v - 1] if (r + c) % 2 == 0 else [v]):          # duplicate coordinates are summed by tocsr()
                    rr.append(r), cc.append(c), dd.append(part / 4)
        mat = sps.coo_array((np.array(dd, dtype=dt), (np.array(rr, dtype=np.int32), np.array(cc, dtype=np.int32))), shape=(len(allrows), m))
    else:
        dense = np.zeros((len(allrows), m), dtype=dt)
        for r, row in enumerate(allrows):
            for c, v in row:
                dense[r, c] = v / 4
        mat = {"csr": sps.csr_array, "coo": sps.coo_array, "csc": sps.csc_array}[o["fmt"]](dense)
    if o["variant"] == "sliced":
        mat = mat.tocsr()[len(o["lead"]): len(o["lead"]) + n]
        if o["fmt"] == "csc":
            mat = mat.tocsc()
        elif o["fmt"] == "coo":
            mat = mat.tocoo()
    if o["idx8"] and mat.format in ("csr", "csc"):
        mat.indices = mat.indices.astype(np.int64)
        mat.indptr = mat.indptr.astype(np.int64)
    assert mat.shape == (n, m)
    return mat


def _apply(b, cls, o, idtype):
    op = o["op"]
    if op == "entities":
        b.add_entities(cls, _ids_arr(o["ids"], idtype, o["kind"], o.get("dtype"), o.get("lay"), o.get("var", 0)))
        return
    name = "a%d" % o["name"]
    ids = _ids_arr(o["ids"], idtype, o["idkind"], o.get("iddtype"), o.get("idlay"), o.get("idvar", 0))
    if op in ("scalar", "list"):
        vt = o["vtype"]
        form = o["form"]
        kw = {"dictionary": True} if o.get("dictionary") else {}
        add = b.add_scalar_attribute if op == "scalar" else b.add_list_attribute
        if not o["ids"] or _typed_fallback(o):
            if op == "scalar":
                vals = pa.array([_val(vt, v) for v in o["vals"]], type=_patype(vt, True))
            else:
                vals = pa.array([None if l is None else [_val(vt, v) for v in l] for l in o["lists"]], type=pa.list_(_patype(vt, True)))
            add(cls, name, ids, vals, **kw)
            return
        vals = _scalar_values(o) if op == "scalar" else _list_values(o)
        if form == "arrays":
            add(cls, name, ids, vals, **kw)
        elif form == "series":
            add(cls, name, pd.Series(vals, index=pd.Index(ids)), **kw)
        elif form == "frame":
            add(cls, name, pd.DataFrame({cls + "_id": ids, name: vals}), **kw)
        else:
            add(cls, name, pd.DataFrame({name: vals}, index=pd.Index(ids)), **kw)
    elif op == "vector":
        d = o["size"]
        if o["form"] in ("numpy", "frame"):
            vals = _matrix(o)
        else:
            vt = pa.float64() if o["dtype"] == "f8" else pa.float32()
            vals = _arrow1(o["vecs"], o["vlay"], lambda v: None if v is None else [None if c is None else c / 4 for c in v], pa.list_(vt, d))
        b.add_vector_attribute(cls, name, ids, vals, dim_names=_dimnames(o))
    elif op == "sparse":
        b.add_vector_attribute(cls, name, ids, _sparse(o), dim_names=_dimnames(o))
    else:
        raise ValueError(op)


def _canon_list(vt, x):
    return None if x is None else [_unval(vt, v) for v in x]


def _pd_items(ser, conv):
    return [[_unid(i), conv(v)] for i, v in zip(ser.index.tolist(), ser.tolist())]


def _kind(t):
    """the kind of an Arrow type: what was supplied as integers must not come back as doubles (or strings as something else)"""
    if pa.types.is_dictionary(t):
        return _kind(t.value_type)
    if pa.types.is_list(t) or pa.types.is_large_list(t):
        return "list<" + _kind(t.value_type) + ">"
    if pa.types.is_fixed_size_list(t):
        return "vec<" + _kind(t.value_type) + ">"
    if pa.types.is_boolean(t):
        return "bool"
    if pa.types.is_integer(t):
        return "int"
    if pa.types.is_floating(t):
        return "float"
    if pa.types.is_string(t) or pa.types.is_large_string(t):
        return "str"
    return str(t)


def _np_image(code, int_as_float):
    """what the NumPy / torch form shows for a value: NaN and missing are the same there, and an integer column with a missing
    entry is shown as float64 (NumPy has no integer NA), i.e. the integer rounded to the nearest double"""
    if code is None or code == NANCODE:
        return None
    if int_as_float:
        return 4 * int(float(code // 4))
    return code


def _view(at, layout, vt, fmt_bad):
    """Everything the attribute set shows, in canonical form; format disagreements go to fmt_bad."""
    def same(tag, got, want):
        if got != want:
            fmt_bad.append(f"{tag}: {got} != {want}")
    ids = [_unid(i) for i in at.ids().tolist()]
    same("len", len(at), len(ids))
    dn = at.drop_null()
    dropped = [_unid(i) for i in dn.ids().tolist()]
    flags = [at.is_scalar, at.is_list, at.is_vector, at.is_sparse]
    same("layout flags", flags, [layout == "scalar", layout == "list", layout == "vector", layout == "sparse"])
    kind = _kind(at.arrow().type)
    if layout == "scalar":
        arrow = [_unval(vt, v, NANCODE) for v in at.arrow().to_pylist()]
        npa = at.numpy()
        iaf = kind == "int" and npa.dtype.kind == "f"
        same("numpy", [_unval(vt, v) for v in npa.tolist()], [_np_image(c, iaf) for c in arrow])
        if vt != "str" and npa.dtype != object:
            same("torch", [_unval(vt, v) for v in at.torch().tolist()], [_np_image(c, iaf) for c in arrow])
        same("drop_null.arrow", [_unval(vt, v, NANCODE) for v in dn.arrow().to_pylist()], [v for v in arrow if v is not None])
        return {"layout": "scalar", "kind": kind, "ids": ids, "arrow": arrow,
                "pd_null": _pd_items(at.pandas(), lambda v: _unval(vt, v, NANCODE)),
                "pd_omit": _pd_items(at.pandas(missing="omit"), lambda v: _unval(vt, v, NANCODE)), "dropped": dropped}
    if layout == "list":
        arrow = [_canon_list(vt, v) for v in at.arrow().to_pylist()]
        same("numpy", [None if v is None else _canon_list(vt, list(v)) for v in at.numpy().tolist()], arrow)
        same("drop_null.arrow", [_canon_list(vt, v) for v in dn.arrow().to_pylist()], [v for v in arrow if v is not None])
        return {"layout": "list", "kind": kind, "ids": ids, "arrow": arrow,
                "pd_null": _pd_items(at.pandas(), lambda v: None if v is None else _canon_list(vt, list(v))),
                "pd_omit": _pd_items(at.pandas(missing="omit"), lambda v: None if v is None else _canon_list(vt, list(v))), "dropped": dropped}
    dims = at.dim_names
    dims = None if dims is None else [_undim(x) for x in dims]
    if layout == "vector":
        size = at.vector_size
        arrow = [None if v is None else [_unval("float", c) for c in v] for v in at.arrow().to_pylist()]
        matrix = [[_unval("float", c) for c in row] for row in at.numpy().tolist()]
        same("numpy shape", list(at.numpy().shape), [len(ids), size])
        same("torch", [[_unval("float", c) for c in row] for row in at.torch().tolist()], matrix)
        same("scipy", [[_unval("float", c) for c in row] for row in np.asarray(at.scipy()).tolist()], matrix)
        same("drop_null.numpy", [[_unval("float", c) for c in row] for row in dn.numpy().tolist()], [v for v in arrow if v is not None])
        out = {"layout": "vector", "kind": kind, "ids": ids, "size": size, "dims": dims, "arrow": arrow, "matrix": matrix, "dropped": dropped}
        for key, kw in (("pd_null", {}), ("pd_omit", {"missing": "omit"})):
            df = at.pandas(**kw)
            out[key] = [[_unid(i), [_unval("float", c) for c in row]] for i, row in zip(df.index.tolist(), df.to_numpy().tolist())]
            cols = None if at.dim_names is None else [_undim(x) for x in df.columns.tolist()]
            same("pandas columns", cols, dims)
        return out
    # sparse
    csr = at.scipy()
    # (the entries of a sparse row are listed by column: their order in storage is representation, not value)
    arrow = [None if v is None else sorted([int(e["index"]), _unval("float", e["value"])] for e in v) for v in at.arrow().to_pylist()]
    rows = [sorted([int(c), _unval("float", x)] for c, x in zip(csr.indices[csr.indptr[r]:csr.indptr[r + 1]].tolist(),
                                                                 csr.data[csr.indptr[r]:csr.indptr[r + 1]].tolist()))
            for r in range(csr.shape[0])]
    same("scipy shape[0]", csr.shape[0], len(ids))
    dense = csr.toarray()
    same("torch", at.torch().to_dense().numpy().tolist(), dense.tolist())
    same("drop_null.scipy", dn.scipy().toarray().tolist(), [dense[r].tolist() for r in range(len(ids)) if arrow[r] is not None])
    return {"layout": "sparse", "kind": kind, "ids": ids, "ncol": int(csr.shape[1]), "dims": dims, "arrow": arrow, "rows": rows, "dropped": dropped}


def _describe(case, upto):
    """the history of builder calls up to and including step `upto`, in one line"""
    parts = []
    for o in case["ops"][: upto + 1]:
        if o["op"] == "entities":
            dt = "py" if o["kind"] == "list" and o.get("dtype") != "str" else o.get("dtype", "")      # a Python list is inferred as int64
            parts.append(f"entities[{dt}/{o['kind']}]x{len(o['ids'])}")
        else:
            parts.append(f"{o['op']} a{o['name']}" + (" +dims" if o.get("dims") else ""))
    return " -> ".join(parts)


def _check_declared(b, cls, declared, oi, case):
    """After builder call `oi`: every dense / sparse vector attribute still shows its declared dimension names and size,
    in every read form that carries them."""
    bad = []
    es = b.build().entities(cls)
    for name, o in declared.items():
        what = f"after step {oi} ({_describe(case, oi)}): a{name}"
        try:
            at = es.attribute("a%d" % name)
        except KeyError:
            bad.append(["attribute-lost-after:" + case["ops"][oi]["op"], f"{what} can no longer be read"])
            continue
        dims = at.dim_names
        dims = None if dims is None else [_undim(x) for x in dims]
        key = f"dims-size-after:{case['ops'][oi]['op']}:{o['op']}"
        if dims != o["dims"]:
            bad.append([key, f"{what} declared dim_names {o['dims']}, now {dims}"])
        try:
            if o["op"] == "vector":
                if at.vector_size != o["size"] or at.numpy().shape[1] != o["size"]:
                    bad.append([key, f"{what} declared size {o['size']}, now {at.vector_size} / {at.numpy().shape}"])
                cols = at.pandas().columns.tolist()
                want = list(range(o["size"])) if o["dims"] is None else _dimnames(o)
                if cols != want:
                    bad.append([key, f"{what} pandas() columns {cols}, declared {want}"])
            else:
                if at.scipy().shape[1] != o["ncol"] or at.torch().shape[1] != o["ncol"]:
                    bad.append([key, f"{what} declared {o['ncol']} columns, now {at.scipy().shape}"])
        except Exception as e:
            bad.append(["reader-raised-after:" + case["ops"][oi]["op"], f"{what}: {type(e).__name__}: {str(e)[:120]}"])
    return bad


def run_impl(case):
    _setup()
    idtype, cls = case["idtype"], case["cls"]
    b = DatasetBuilder()
    outcomes = []
    info = {}
    meta_bad = []
    type_bad = []
    want_kind = {}
    declared = {}
    for oi, o in enumerate(case["ops"]):
        try:
            _apply(b, cls, o, idtype)
            outcomes.append(None)
            if o["op"] != "entities":
                info[o["name"]] = (o["op"], o.get("vtype"))
                want_kind[o["name"]] = {"scalar": o.get("vtype"), "list": f"list<{o.get('vtype')}>",
                                        "vector": "vec<int>" if o.get("dtype") == "i8" else "vec<float>"}.get(o["op"])
                if o["op"] in ("vector", "sparse"):
                    declared[o["name"]] = o
        except DataError:
            outcomes.append("EData")
            continue
        except NotImplementedError:
            outcomes.append("ENotImpl")
            continue
        if declared:
            meta_bad += _check_declared(b, cls, declared, oi, case)
    ds = b.build()
    es = ds.entities(cls)
    rows = [_unid(i) for i in es.ids().tolist()]
    fmt_bad = []
    answers = []
    for q in case["queries"]:
        e2 = es
        if q["sel"] is not None:
            try:
                e2 = es.select(ids=_ids_arr(q["sel"], idtype, q.get("kind", "numpy") if q["sel"] else "list", q.get("dtype"), q.get("lay"), q.get("var", 0)))
            except KeyError:
                answers.append({"err": "EKey"})
                continue
        try:
            at = e2.attribute("a%d" % q["name"])
        except KeyError:
            answers.append({"layout": "none"})
            continue
        layout, vt = info[q["name"]]
        bad: list = []
        try:
            answers.append(_view(at, layout, vt, bad))
            wk = want_kind.get(q["name"])
            if wk is not None and answers[-1]["kind"] != wk:
                type_bad.append([f"value-type:{layout}", f"query {len(answers) - 1}: a{q['name']} was supplied as {wk}, stored as {answers[-1]['kind']}"])
        except Exception as e:           # a reader of an existing attribute must not raise
            answers.append({"layout": "raised", "what": f"{type(e).__name__}: {str(e)[:150]}"})
        fmt_bad += [f"query {len(answers) - 1}: {m}" for m in bad]
    return {"outcomes": outcomes, "rows": rows, "answers": answers, "fmt_bad": fmt_bad, "meta_bad": meta_bad, "type_bad": type_bad}


# ---------------------------------------------------------------------------------------------
# model side
# ---------------------------------------------------------------------------------------------


def c_elem(v):
    return "None" if v is None else f"(Some {cz(v)})"


def c_elems(l):
    return clist(l, c_elem)


def c_olist(l):
    return copt(l, c_elems)


def c_pairs(row):
    return clist(row, lambda p: f"({cnat(p[0])}, {cz(p[1])})")


def c_dims(d):
    return copt(d, lambda x: clist(x, cz))


def c_ids(ids, kind, dtype, lay):
    """identifiers as handed over: a literal list, or the physical description decoded by the model"""
    if lay is None or not ids:
        return clist(ids, cz)
    if kind == "numpy":
        return f"(nd1 0%Z {clist(S.lay1_buf(lay, ids), cz)} {cz(lay['off'])} {cz(lay['st'])} {cnat(len(ids))})"
    return f"(arrow_slice {clist(S.alay_full(lay, ids), cz)} {cnat(lay['lead'])} {cnat(len(ids))})"


def c_op(o):
    op = o["op"]
    if op == "entities":
        return f"OEntities {c_ids(o['ids'], o['kind'], o.get('dtype'), o.get('lay'))}"
    n, ids = cnat(o["name"]), c_ids(o["ids"], o["idkind"], o.get("iddtype"), o.get("idlay"))
    lay, k = o.get("vlay"), len(o["ids"])
    if op == "scalar":
        if lay is None or not k:
            vals = c_elems(o["vals"])
        elif o["back"] in ("np", "npobj"):
            vals = f"(nd1 None {c_elems(S.lay1_buf(lay, o['vals']))} {cz(lay['off'])} {cz(lay['st'])} {cnat(k)})"
        else:
            vals = f"(arrow_slice {c_elems(S.alay_full(lay, o['vals']))} {cnat(lay['lead'])} {cnat(k)})"
        return f"OScalar {n} {ids} {vals}"
    if op == "list":
        if lay is None or not k:
            lists = clist(o["lists"], c_olist)
        elif o["back"] == "npobj":
            lists = f"(nd1 None {clist(S.lay1_buf(lay, o['lists']), c_olist)} {cz(lay['off'])} {cz(lay['st'])} {cnat(k)})"
        else:
            offs, vals, nulls = S.raw_listarray(S.alay_full(lay, o["lists"]))
            raw = lay.get("raw") or []
            la = f"(mk_la {clist([x + len(raw) for x in offs], cnat)} {c_elems(raw + vals + raw)} {clist(nulls, lambda b: 'true' if b else 'false')})"
            lists = f"(la_window {la} {cnat(lay['lead'])} {cnat(k)})"
        return f"OList {n} {ids} {lists}"
    if op == "vector":
        if lay is None or not k:
            vecs = clist(o["vecs"], c_olist)
        elif o["form"] == "numpy":
            off, s0, s1 = S.lay2_strides(lay)
            vecs = f"(dense_from_numpy {c_elems(S.lay2_buf(lay, o['vecs']))} {cz(off)} {cz(s0)} {cz(s1)} {cnat(k)} {cnat(o['size'])})"
        else:
            vecs = f"(arrow_slice {clist(S.alay_full(lay, o['vecs']), c_olist)} {cnat(lay['lead'])} {cnat(k)})"
        return f"OVector {n} {ids} {cnat(o['size'])} {vecs} {c_dims(o['dims'])}"
    return f"OSparse {n} {ids} {cnat(o['ncol'])} {clist(o['rows'], c_pairs)} {c_dims(o['dims'])}"


def c_items(items, f):
    return clist(items, lambda p: f"({cz(p[0])}, {f(p[1])})")


def c_view(a):
    if "err" in a:
        return f"(Err {a['err']})"
    lay = a["layout"]
    if lay == "none":
        return "(Ok VNoAttr)"
    dr = clist(a["dropped"], cz)
    if lay == "scalar":
        return f"(Ok (VScalar {c_elems(a['arrow'])} {c_items(a['pd_null'], c_elem)} {c_items(a['pd_omit'], c_elem)} {dr}))"
    if lay == "list":
        return f"(Ok (VList {clist(a['arrow'], c_olist)} {c_items(a['pd_null'], c_olist)} {c_items(a['pd_omit'], c_olist)} {dr}))"
    if lay == "vector":
        return (f"(Ok (VVector {cnat(a['size'])} {c_dims(a['dims'])} {clist(a['arrow'], c_olist)} {clist(a['matrix'], c_elems)} "
                f"{c_items(a['pd_null'], c_elems)} {c_items(a['pd_omit'], c_elems)} {dr}))")
    return (f"(Ok (VSparse {cnat(a['ncol'])} {c_dims(a['dims'])} {clist(a['arrow'], lambda r: copt(r, c_pairs))} "
            f"{clist(a['rows'], c_pairs)} {dr}))")


def coq_term(case, obs):
    if obs["fmt_bad"] or obs["meta_bad"] or obs["type_bad"] or any(a.get("layout") == "raised" for a in obs["answers"]):
        return "false"
    ops = clist(case["ops"], c_op)
    out = clist(obs["outcomes"], lambda e: copt(e, str))
    qs = clist(list(zip(case["queries"], obs["answers"])),
               lambda qa: f"({cnat(qa[0]['name'])}, {copt(qa[0]['sel'], lambda s: c_ids(s, qa[0].get('kind'), qa[0].get('dtype'), qa[0].get('lay')))}, {c_view(qa[1])})")
    return f"agree {ops} {out} {clist(obs['rows'], cz)} {qs}"


# ---------------------------------------------------------------------------------------------
# the property as a predicate on implementation output (independent of the Coq model)
# ---------------------------------------------------------------------------------------------


def _supplied(case, obs):
    """{attribute: (layout, {entity id: value})} from the calls that were accepted; null values are 'not supplied'."""
    out = {}
    for o, res in zip(case["ops"], obs["outcomes"]):
        if res is not None or o["op"] == "entities":
            continue
        if o["op"] == "scalar":
            d = {i: v for i, v in zip(o["ids"], o["vals"]) if v is not None}
        elif o["op"] == "list":
            d = {i: v for i, v in zip(o["ids"], o["lists"]) if v is not None}
        elif o["op"] == "vector":
            d = {i: v for i, v in zip(o["ids"], o["vecs"]) if v is not None}
        else:
            d = {i: [list(p) for p in r] for i, r in zip(o["ids"], o["rows"])}
        out[o["name"]] = (o, d)
    return out


def _show(x):
    """canonical codes for messages (quarter steps; NaN spelled out)"""
    if isinstance(x, (list, tuple)):
        return "[" + ", ".join(_show(y) for y in x) + "]"
    if isinstance(x, dict):
        return "{" + ", ".join(f"{k}: {_show(v)}" for k, v in x.items()) + "}"
    return "NaN" if x == NANCODE else str(x)


def _supply_name(o):
    """how the values of an attribute call were handed over, for messages and counters"""
    op = o["op"]
    if op in ("scalar", "list"):
        lay = o.get("vlay")
        how = S.lay1_name(lay) if o["back"] in ("np", "npobj") else S.alay_name(lay) + ("-raw-offsets" if lay and lay.get("raw") else "") if o["back"] == "arrow" else ""
        return f"{o['form']}/{o['back']}{'' if o.get('vwide', True) else '-narrow'}{'/' + how if how else ''}{'/dictionary' if o.get('dictionary') else ''}"
    if op == "vector":
        if o["form"] == "arrow":
            return "arrow/" + S.alay_name(o.get("vlay"))
        return f"{o['form']}/{o['dtype']}/" + S.lay2_name(o.get("vlay"), len(o["vecs"]), o["size"])
    return f"{o['fmt']}/{o.get('variant', 'plain')}"


def oracle(case, obs):
    v = []
    for m in obs["fmt_bad"]:
        v.append(("output-forms-disagree", m))
    for k, m in obs["meta_bad"] + obs["type_bad"]:
        v.append((k, m))
    known = set()
    added = set()
    for o, res in zip(case["ops"], obs["outcomes"]):
        # calls that must be refused / accepted
        if o["op"] == "entities":
            dup = len(set(o["ids"])) < len(o["ids"]) or any(i in known for i in o["ids"])
            if dup != (res == "EData"):
                v.append(("entities-outcome", f"add_entities {o['ids']} with known {sorted(known)} returned {res}"))
            if res is None:
                known |= set(o["ids"])
        else:
            unknown = any(i not in known for i in o["ids"])
            if unknown and res not in ("EData", "ENotImpl"):
                v.append(("unknown-entity-accepted", f"attribute a{o['name']} given for unknown entities was accepted"))
            if not unknown and res == "EData":
                v.append((f"spurious-error:{o['op']}", f"attribute a{o['name']} for known entities raised DataError"))
            if not unknown and res == "ENotImpl" and o["name"] not in added:
                v.append((f"spurious-error:{o['op']}", f"attribute a{o['name']} ({_supply_name(o)}) for known entities, name not used before, raised NotImplementedError"))
            if o["name"] in added and res is None:
                v.append(("re-added-name-accepted", f"attribute a{o['name']} was added twice"))
            if res is None:
                added.add(o["name"])
    if sorted(obs["rows"]) != sorted(known):
        v.append(("entity-set", f"entities {obs['rows']} but {sorted(known)} were added"))
    sup = _supplied(case, obs)
    for qi, (q, a) in enumerate(zip(case["queries"], obs["answers"])):
        sel = q["sel"] if q["sel"] is not None else obs["rows"]
        if "err" in a:
            if all(i in known for i in sel):
                v.append(("spurious-error:select", f"query {qi}: selecting known entities raised {a['err']}"))
            continue
        if q["name"] not in sup:
            if a["layout"] != "none":
                v.append(("phantom-attribute", f"query {qi}: attribute a{q['name']} was never added but can be read"))
            continue
        o, d = sup[q["name"]]
        lay = o["op"]
        if a["layout"] == "none":
            v.append((f"attribute-not-readable:{lay}", f"query {qi}: attribute a{q['name']} was added ({lay}) but reading it raises KeyError"))
            continue
        if a["layout"] == "raised":
            v.append((f"reader-raised:{lay}", f"query {qi}: reading a{q['name']} ({lay}) for {sel} raised {a['what']}"))
            continue
        if any(i not in known for i in sel):
            v.append(("unknown-selection-accepted", f"query {qi}: selection {sel} has unknown entities but was answered"))
            continue
        if a["ids"] != sel:
            v.append((f"ids:{lay}", f"query {qi}: attribute set lists entities {a['ids']}, selection was {sel}"))
            continue
        want = [d.get(i) for i in sel]
        if a["arrow"] != want:
            v.append((f"read-back:{lay}:arrow", f"query {qi}: a{q['name']} ({_supply_name(o)}) for {sel}: arrow() gives {_show(a['arrow'])}, supplied {_show(want)}"))
        wd = [i for i in sel if i in d]
        if a["dropped"] != wd:
            v.append((f"read-back:{lay}:drop_null", f"query {qi}: drop_null keeps {a['dropped']}, defined are {wd}"))
        if lay in ("scalar", "list"):
            for key in ("pd_null", "pd_omit"):
                got = a[key]
                # entry-wise: every selected entity either appears with its value, or is absent / null iff it has none
                seen = {}
                okp = True
                for i, val in got:
                    seen.setdefault(i, []).append(val)
                for i in set(sel):
                    vals = seen.get(i, [])
                    if i in d:
                        okp &= len(vals) == sel.count(i) and all(x == d[i] for x in vals)
                    else:
                        okp &= all(x is None for x in vals)
                okp &= all(i in sel for i in seen)
                if not okp:
                    v.append((f"read-back:{lay}:pandas", f"query {qi}: a{q['name']} ({_supply_name(o)}): pandas({key}) gives {_show(got)}, supplied {_show(dict((i, d.get(i)) for i in sel))}"))
        elif lay == "vector":
            size = o["size"]
            if a["size"] != size or a["dims"] != o["dims"]:
                v.append(("dims-size:vector", f"query {qi} after {_describe(case, len(case['ops']) - 1)}: vector_size/dim_names {a['size']}/{a['dims']}, declared {size}/{o['dims']}"))
            wm = [d[i] if i in d else [None] * size for i in sel]
            if a["matrix"] != wm:
                v.append(("read-back:vector:numpy", f"query {qi}: a{q['name']} ({_supply_name(o)}): numpy() gives {a['matrix']}, supplied {wm}"))
            if a["pd_null"] != [[i, r] for i, r in zip(sel, wm)]:
                v.append(("read-back:vector:pandas", f"query {qi}: pandas() gives {a['pd_null']}, supplied {list(zip(sel, wm))}"))
            wo = [[i, d[i]] for i in sel if i in d]
            if a["pd_omit"] != wo:
                v.append(("read-back:vector:pandas-omit", f"query {qi}: pandas(missing='omit') gives {a['pd_omit']}, supplied {wo}"))
        else:
            if a["ncol"] != o["ncol"] or a["dims"] != o["dims"]:
                v.append(("dims-size:sparse", f"query {qi} after {_describe(case, len(case['ops']) - 1)}: columns/dim_names {a['ncol']}/{a['dims']}, declared {o['ncol']}/{o['dims']}"))
            wr = [d.get(i, []) for i in sel]
            if a["rows"] != wr:
                v.append(("read-back:sparse:scipy", f"query {qi}: scipy() rows {a['rows']}, supplied {wr}"))
    seen, out = set(), []
    for k, w in v:
        if k not in seen:
            seen.add(k)
            out.append((k, w))
    return out


def nontrivial(case, obs):
    ok_ops = [o for o, r in zip(case["ops"], obs["outcomes"]) if r is None]
    layouts = {o["op"] for o in ok_ops if o["op"] != "entities"}
    rows = obs["rows"]
    pos = {i: k for k, i in enumerate(rows)}
    unsorted = any(o["op"] != "entities" and 0 < len(o["ids"]) < len(rows)
                   and [pos[i] for i in o["ids"]] != sorted(pos[i] for i in o["ids"]) for o in ok_ops)
    seen_attr, late = False, False
    for o in ok_ops:
        if o["op"] == "entities":
            late |= seen_attr
        else:
            seen_attr = True
    mixed = any(isinstance(a.get("arrow"), list) and any(x is None for x in a["arrow"]) and any(x is not None for x in a["arrow"])
                for q, a in zip(case["queries"], obs["answers"]) if q["sel"] is not None)
    return len(layouts) >= 2 and unsorted and late and mixed


def counters(case, obs):
    yield "style=" + case["style"]
    yield "idtype=" + case["idtype"]
    yield "class=" + case["cls"]
    seen_attr, widest, dims_seen = False, 0, False
    for o, r in zip(case["ops"], obs["outcomes"]):
        yield f"op={o['op']}:{r or 'ok'}"
        if o["op"] == "entities":
            yield "batch-id-dtype=" + o.get("dtype", "?")
            if r is None and case["idtype"] == "int":
                w = {"i1": 1, "i2": 2, "i4": 4, "i8": 8, "py": 8}[o["dtype"]] if o["kind"] != "list" else 8
                if widest and w > widest:
                    yield "later-batch-wider" + ("-after-vector-with-dims" if dims_seen else "")
                elif widest and w < widest:
                    yield "later-batch-narrower"
                widest = max(widest, w)
            if seen_attr and r is None:
                yield "entities-after-attribute"
            continue
        if r is None and o.get("dims"):
            dims_seen = True
        seen_attr = True
        if r is None:
            yield "form=" + o["op"] + "/" + o.get("form", o.get("fmt", ""))
            n = len(o["ids"])
            yield "coverage=" + ("none" if n == 0 else "all" if n == len(obs["rows"]) else "subset")
            if n >= 2:
                pos = [obs["rows"].index(i) for i in o["ids"]]
                yield "ids-order=" + ("entity-table order" if pos == sorted(pos) else "permuted")
            if o["op"] in ("scalar", "list"):
                fb = _typed_fallback(o) or not o["ids"]
                yield f"supply={o['op']}:{o['form'] if not fb else 'arrays'}/{o['back'] if not fb else 'arrow(typed, nothing to infer from)'}"
                if not fb and o.get("vlay") is not None:
                    lay = o["vlay"]
                    yield "values-layout=" + ("numpy:" + S.lay1_name(lay) if o["back"] in ("np", "npobj") else "arrow:" + S.alay_name(lay) + ("-raw-offsets" if lay.get("raw") else ""))
                if o.get("dictionary"):
                    yield f"dictionary=True:{o['op']}"
            elif o["op"] == "vector":
                yield f"supply=vector:{o['form']}/{o['dtype']}" + ("/" + S.alay_name(o.get("vlay")) if o["form"] == "arrow" else "")
            else:
                yield "supply=sparse:" + _supply_name(o) + ("/int64-indices" if o.get("idx8") and o["fmt"] != "coo" else "")
            yield "ids-supply=" + o["idkind"] + ":" + (S.lay1_name(o.get("idlay")) if o["idkind"] == "numpy" else S.alay_name(o.get("idlay")) if o["idkind"] == "arrow" else "-")
            if o["op"] == "scalar":
                yield "scalar-value-type=" + o["vtype"]
                if any(x is None for x in o["vals"]) and not (_typed_fallback(o) or not o["ids"]):
                    yield "missing-marker=" + {"pdna": "pd.NA", "arrow": "arrow-null", "pdarrow": "arrow-null", "cat": "categorical-code"}.get(o["back"], "None")
                if any(x == NANCODE for x in o["vals"]):
                    yield "scalar-nan-as-value"
                if any(x is not None and x != NANCODE and abs(x) > 4 * 2**53 for x in o["vals"]):
                    yield "scalar-int-beyond-2^53"
            if o["op"] == "vector" and o["form"] == "numpy" and len(o["vecs"]) >= 2 and o["size"] >= 2:
                yield "matrix-layout(>=2x2)=" + S.lay2_name(o.get("vlay"), len(o["vecs"]), o["size"])
            if o["op"] == "scalar" and any(x is None for x in o["vals"]):
                yield "scalar-null-value"
            if o["op"] == "list" and any(x == [] for x in o["lists"]):
                yield "empty-list-value"
            if o["op"] == "list" and any(x is None for x in o["lists"]):
                yield "null-list-value"
            if o["op"] == "vector" and any(x is None for x in o["vecs"]):
                yield "null-vector-value"
            if o["op"] == "vector" and any(x is not None and all(c == 0 for c in x) for x in o["vecs"]):
                yield "zero-vector-value"
            if o["op"] == "sparse" and any(x == [] for x in o["rows"]):
                yield "all-zero-sparse-row"
    for q, a in zip(case["queries"], obs["answers"]):
        yield "query=" + ("all" if q["sel"] is None else "empty" if not q["sel"] else "subset") + ":" + (a.get("err") or a.get("layout"))


def sample(case, obs):
    return {"case": {"idtype": case["idtype"], "ops": case["ops"][:3], "queries": case["queries"][:2]},
            "observation": {"outcomes": obs["outcomes"], "rows": obs["rows"], "answers": obs["answers"][:2]}}


_SHRUNK = [0]


def shrink(case, fails):
    _SHRUNK[0] += 1
    if _SHRUNK[0] > 5:              # cost cap: at most five failing keys are minimised per run, the rest are reported as generated
        return case
    c = dict(case)
    c["queries"] = common.shrink_list(case["queries"], lambda xs: bool(xs) and fails({**c, "queries": xs}), 30)
    first = case["ops"][:1]
    rest = common.shrink_list(case["ops"][1:], lambda xs: fails({**c, "ops": first + xs}), 40)
    c["ops"] = first + rest
    return c
