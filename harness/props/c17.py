"""C17 -- entity attributes attach exactly the supplied values to the supplied entities
(DESIGN.md section 4, C17; notes/design/C17.md).

A case is a history of builder calls for one entity class -- batches of entities interleaved with
scalar / list / dense-vector / sparse-vector attributes given for permuted subsets of the known
identifiers through parallel arrays, series or data frames -- followed by queries (attribute, optional
selection of identifiers in any order).  Every query is answered by the built Dataset in every
output form; the Coq model answers the same queries and the comparison happens inside Coq.
"""

from __future__ import annotations

import common
from common import clist, cnat, copt, cz

PID = "C17"
PROPS_FILE = "Props/C17.v"
GEN_FILES: list[str] = []
MODEL_FILES = ["Model/C17_attributes.v"]
ALLOWED_AXIOMS: list[str] = []
CASE_HEADER = "From Coq Require Import ZArith List.\nFrom LK Require Import Model.C17_attributes.\nImport ListNotations."
SHARD = 40
TRUSTED = [
    "Coq 8.16.1 kernel + vm_compute (no native_compute); Print Assumptions of every theorem in Props/C17.v: closed under the global context",
    "hand-written model Model/C17_attributes.v of DatasetBuilder.add_entities / add_scalar_attribute / add_list_attribute / add_vector_attribute "
    "(dense fixed-size and list storage, sparse), _expand_and_align_list_array and the readers of lenskit.data.attributes; tied to the code by "
    "history correspondence evaluated inside Coq (exact integers; numeric values are quarter steps)",
    "Arrow kernels used on whole arrays (pa.array, take, filter, drop_null, cast, concat_tables null padding, value_lengths, ListArray.from_arrays), "
    "np.argsort as 'sort by key', pandas/NumPy/SciPy/torch conversions: exercised (every output form compared entry-wise), not verified",
    "canonicalisation by the harness: identifiers and string values -> Z by an order isomorphism, NaN and null -> one missing marker",
]
ASSUMPTIONS = [
    "the identifiers given with an attribute are distinct (a subset of the entity identifiers) and there is one value per identifier",
    "dense vectors of one attribute all have the declared dimension (>= 1)",
    "a null / NaN value supplied for an entity is the same as supplying none",
]
RULE = ("histories of 2-4 entity batches interleaved with 1-5 attributes (all four layouts; arrays / series / data frame / frame indexed by id; "
        "int or string ids, the identifier array of every batch / attribute / selection of its own width (int8/16/32/64, Python ints: later batches wider or narrower); int / float / string values; nulls, empty lists, zero vectors, all-zero sparse rows) over permuted subsets of the known "
        "ids, then 3-8 queries (all entities, permuted subsets with undefined entities, empty selection); separate malformed stream (unknown ids, "
        "re-added names and entities, unknown selections); declared dimension names and vector sizes re-read after every accepted builder call; non-trivial = at least two layouts, an attribute given for a proper subset in non-table "
        "order, an entity batch added after an attribute, and a query selecting both defined and undefined entities; distinct = by hash of the case")

NID = 14

# ---------------------------------------------------------------------------------------------
# generator
# ---------------------------------------------------------------------------------------------


def g_scalar_val(rng, vtype):
    if vtype == "str":
        return rng.randint(0, 30)
    if vtype == "int":
        return 4 * rng.randint(-5, 40)
    return rng.randint(-10, 60)


IDDTYPES = ["i1", "i2", "i4", "i8", "py"]


def g_iddtype(rng, idtype):
    """the width of the identifier array of one call: later batches may be wider or narrower than earlier ones"""
    return rng.choice(IDDTYPES) if idtype == "int" else "str"


def g_attr(rng, name, known, idtype, malformed):
    layout = rng.weighted([("scalar", 4), ("list", 3), ("vector", 4), ("sparse", 3)])
    cover = rng.weighted([("subset", 5), ("all", 2 if layout != "vector" else 4), ("one", 1), ("none", 1)])
    if cover == "all":
        ids = list(known)
    elif cover == "one":
        ids = [rng.choice(known)]
    elif cover == "none":
        ids = []
    else:
        ids = rng.subset(known, 3, 5)
    ids = rng.shuffle(ids) if rng.chance(5, 6) else sorted(ids)
    if malformed == "unknown":
        ids = ids + [rng.choice([k for k in range(NID + 3) if k not in known])]
    o = {"op": layout, "name": name, "ids": ids, "idkind": rng.choice(["list", "numpy"]), "iddtype": g_iddtype(rng, idtype)}
    n = len(ids)
    if layout == "scalar":
        vt = rng.choice(["int", "float", "str"])
        o["vtype"] = vt
        o["vals"] = [None if rng.chance(1, 7) else g_scalar_val(rng, vt) for _ in range(n)]
        o["form"] = rng.choice(["arrays", "arrays", "series", "frame", "frame_idx"])
        o["valkind"] = rng.choice(["list", "numpy", "arrow"])
        o["dictionary"] = vt == "str" and rng.chance(1, 3)
    elif layout == "list":
        vt = rng.choice(["int", "str", "float"])
        o["vtype"] = vt
        o["lists"] = [None if rng.chance(1, 8) else [g_scalar_val(rng, vt) for _ in range(rng.weighted([(0, 2), (1, 3), (2, 3), (4, 1)]))]
                      for _ in range(n)]
        o["form"] = rng.choice(["arrays", "arrays", "series", "frame", "frame_idx"])
        o["valkind"] = rng.choice(["list", "arrow"])
    elif layout == "vector":
        d = rng.randint(1, 4)
        o["size"] = d
        o["form"] = rng.choice(["numpy", "numpy", "arrow"])
        o["dtype"] = rng.choice(["f8", "f4"])

        def vec():
            if rng.chance(1, 8):
                return [0] * d
            return [None if rng.chance(1, 25) else rng.randint(-10, 60) for _ in range(d)]
        o["vecs"] = [vec() for _ in range(n)]
        if o["form"] == "arrow" and n and rng.chance(1, 2):
            o["vecs"][rng.below(n)] = None
        o["dims"] = [rng.randint(0, 50) for _ in range(d)] if rng.chance(1, 2) else None
        if o["dims"] is not None:
            o["dimtype"] = rng.choice(["str", "int"])
    else:
        m = rng.randint(1, 6)
        o["ncol"] = m
        rows = []
        for _ in range(n):
            if rng.chance(1, 6):
                rows.append([])
            else:
                cols = sorted(rng.subset(list(range(m)), 1, 2))
                rows.append([[c, rng.choice([x for x in range(-10, 40) if x != 0])] for c in cols])
        o["rows"] = rows
        o["fmt"] = rng.choice(["csr", "coo", "csc"])
        o["dims"] = [rng.randint(0, 50) for _ in range(m)] if rng.chance(1, 2) else None
        if o["dims"] is not None:
            o["dimtype"] = rng.choice(["str", "int"])
    return o


def gen_case(rng, malformed=False):
    idtype = rng.choice(["int", "str"])
    cs = {"idtype": idtype, "cls": rng.choice(["item", "item", "user", "tag"]), "ops": [], "queries": [],
          "style": "malformed" if malformed else "valid"}
    pool = rng.shuffle(list(range(NID)))
    known: list = []
    nbatch = rng.randint(2, 4)
    nattr = rng.randint(1, 5)
    plan = ["e"] + rng.shuffle(["e"] * (nbatch - 1) + ["a"] * nattr)
    names = []
    for what in plan:
        bad = None
        if malformed and rng.chance(1, 4):
            bad = rng.choice(["unknown", "dupname", "dupent"])
        if what == "e":
            k = rng.randint(1, 5) if known else rng.randint(2, 6)
            new = [pool.pop() for _ in range(min(k, len(pool)))]
            if not new:
                continue
            if bad == "dupent" and known:
                cs["ops"].append({"op": "entities", "ids": new + [rng.choice(known)], "kind": "list", "dtype": g_iddtype(rng, idtype)})
                pool.extend(new)
                continue
            cs["ops"].append({"op": "entities", "ids": new, "kind": rng.choice(["list", "numpy", "arrow", "series"]),
                              "dtype": g_iddtype(rng, idtype)})
            known = known + sorted(new)
        else:
            name = len(names)
            if bad == "dupname" and names:
                o = g_attr(rng, rng.choice(names), known, idtype, None)
                cs["ops"].append(o)
                continue
            o = g_attr(rng, name, known, idtype, bad if bad == "unknown" else None)
            cs["ops"].append(o)
            if bad != "unknown":
                names.append(name)
    for _ in range(rng.randint(3, 8)):
        name = rng.choice(names) if names and not (malformed and rng.chance(1, 10)) else len(names) + 1
        t = rng.weighted([("all", 3), ("subset", 5), ("empty", 1), ("one", 1)])
        if t == "all":
            sel = None
        elif t == "empty":
            sel = []
        elif t == "one":
            sel = [rng.choice(known)]
        else:
            sel = rng.shuffle(rng.subset(known, 1, 2))
            if rng.chance(1, 6) and sel:
                sel = sel + [sel[0]]
        if malformed and sel is not None and rng.chance(1, 8):
            sel = sel + [NID + 5]
        cs["queries"].append({"name": name, "sel": sel, "dtype": g_iddtype(rng, idtype)})
    return cs


def gen_cases(rng, tier):
    n = 800 if tier == "quick" else 12000
    return [gen_case(rng.fork(k), malformed=(k % 6 == 5)) for k in range(n)]


# ---------------------------------------------------------------------------------------------
# implementation driver
# ---------------------------------------------------------------------------------------------

_ready = False


def _setup():
    global _ready, np, pd, pa, sps, torch, DatasetBuilder, DataError
    if _ready:
        return
    common.use_repo()
    import numpy as np
    import pandas as pd
    import pyarrow as pa
    import scipy.sparse as sps
    import torch
    from lenskit.data import DatasetBuilder
    from lenskit.diagnostics import DataError
    _ready = True


def _id(idtype, k):
    return 5 * k - 30 if idtype == "int" else "e%02d" % k          # -30 .. 55: fits every integer width


def _unid(x):
    if isinstance(x, (bytes, str)):
        return int(x[1:])
    return (int(x) + 30) // 5


def _val(vtype, v):
    if v is None:
        return None
    if vtype == "str":
        return "v%03d" % v
    if vtype == "int":
        return v // 4
    return v / 4


def _unval(vtype, x):
    """canonical Z of a value read back (None for null / NaN)"""
    if x is None:
        return None
    if isinstance(x, (bytes, str)):
        return int(x[1:])
    x = float(x)
    if x != x:
        return None
    q = x * 4
    assert q == int(q), x
    return int(q)


NPT = {"i1": "int8", "i2": "int16", "i4": "int32", "i8": "int64", "py": "int64"}


def _ids_arr(ids, idtype, kind, dtype=None):
    vals = [_id(idtype, k) for k in ids]
    if idtype != "int":
        if kind == "numpy":
            return np.array(vals, dtype=object)
        if kind == "arrow":
            return pa.array(vals, type=pa.utf8())
        if kind == "series":
            return pd.Series(vals, dtype=object)
        return vals
    dtype = dtype or "i8"
    if dtype == "py" or kind == "list":
        return [int(v) for v in vals]                      # plain Python integers (inferred as int64)
    npt = np.dtype(NPT[dtype])
    if kind == "numpy":
        return np.array(vals, dtype=npt)
    if kind == "arrow":
        return pa.array(vals, type=pa.from_numpy_dtype(npt))
    if kind == "series":
        return pd.Series(vals, dtype=npt)
    return vals


def _dimnames(o):
    if o["dims"] is None:
        return None
    return ["d%02d" % k for k in o["dims"]] if o["dimtype"] == "str" else [int(k) for k in o["dims"]]


def _undim(x):
    return int(x[1:]) if isinstance(x, str) else int(x)


def _apply(b, cls, o, idtype):
    op = o["op"]
    if op == "entities":
        b.add_entities(cls, _ids_arr(o["ids"], idtype, o["kind"], o.get("dtype")))
        return
    name = "a%d" % o["name"]
    ids = _ids_arr(o["ids"], idtype, o["idkind"], o.get("iddtype"))
    if op in ("scalar", "list"):
        vt = o["vtype"]
        if op == "scalar":
            pyvals = [_val(vt, v) for v in o["vals"]]
            pt = {"int": pa.int64(), "float": pa.float64(), "str": pa.utf8()}[vt]
        else:
            pyvals = [None if l is None else [_val(vt, v) for v in l] for l in o["lists"]]
            pt = pa.list_({"int": pa.int64(), "float": pa.float64(), "str": pa.utf8()}[vt])
        form = o["form"]
        kw = {"dictionary": True} if o.get("dictionary") else {}
        add = b.add_scalar_attribute if op == "scalar" else b.add_list_attribute
        has_null = any(v is None for v in pyvals)
        # Python / pandas type inference needs something to infer from; otherwise hand over a typed Arrow array
        typed = (not pyvals) or (op == "list" and not any(pyvals)) or (op == "scalar" and all(v is None for v in pyvals))
        if typed:
            form, valkind = "arrays", "arrow"
        else:
            valkind = o["valkind"]
        # (a None inside a float Series / ndarray would be turned into NaN by pandas / NumPy before lenskit sees it:
        #  object dtype keeps it a null)
        objdt = op == "list" or vt == "str" or has_null
        idl = list(ids) if not isinstance(ids, list) else ids
        if form == "arrays":
            if valkind == "arrow":
                vals = pa.array(pyvals, type=pt)
            elif valkind == "numpy" and op == "scalar":
                vals = np.array(pyvals, dtype=object) if objdt else np.array(pyvals, dtype=np.int64 if vt == "int" else np.float64)
            else:
                vals = pyvals
            add(cls, name, ids, vals, **kw)
        elif form == "series":
            ser = pd.Series(pyvals, index=pd.Index(idl, dtype=getattr(ids, "dtype", np.int64) if idtype == "int" else object), dtype=object if objdt else None)
            add(cls, name, ser, **kw)
        else:
            col = pd.Series(pyvals, dtype=object if objdt else None)
            idc = pd.Series(idl, dtype=getattr(ids, "dtype", np.int64) if idtype == "int" else object)
            if form == "frame":
                df = pd.DataFrame({cls + "_id": idc, name: col})
            else:
                df = pd.DataFrame({name: col.values}, index=pd.Index(idc.values))
            add(cls, name, df, **kw)
    elif op == "vector":
        d = o["size"]
        dt = np.float64 if o["dtype"] == "f8" else np.float32
        if o["form"] == "numpy":
            mat = np.array([[np.nan if c is None else c / 4 for c in v] for v in o["vecs"]], dtype=dt).reshape(len(o["vecs"]), d)
            vals = mat
        else:
            vt = pa.float64() if o["dtype"] == "f8" else pa.float32()
            vals = pa.array([None if v is None else [None if c is None else c / 4 for c in v] for v in o["vecs"]], type=pa.list_(vt, d))
        b.add_vector_attribute(cls, name, ids, vals, dim_names=_dimnames(o))
    elif op == "sparse":
        m = o["ncol"]
        dense = np.zeros((len(o["rows"]), m))
        for r, row in enumerate(o["rows"]):
            for c, v in row:
                dense[r, c] = v / 4
        mat = {"csr": sps.csr_array, "coo": sps.coo_array, "csc": sps.csc_array}[o["fmt"]](dense)
        b.add_vector_attribute(cls, name, ids, mat, dim_names=_dimnames(o))
    else:
        raise ValueError(op)


def _canon_list(vt, x):
    return None if x is None else [_unval(vt, v) for v in x]


def _pd_items(ser, conv):
    return [[_unid(i), conv(v)] for i, v in zip(ser.index.tolist(), ser.tolist())]


def _view(at, layout, vt, fmt_bad):
    """Everything the attribute set shows, in canonical form; format disagreements go to fmt_bad."""
    def same(tag, got, want):
        if got != want:
            fmt_bad.append(f"{tag}: {got} != {want}")
    ids = [_unid(i) for i in at.ids().tolist()]
    same("len", len(at), len(ids))
    dn = at.drop_null()
    dropped = [_unid(i) for i in dn.ids().tolist()]
    flags = [at.is_scalar, at.is_list, at.is_vector, at.is_sparse]
    same("layout flags", flags, [layout == "scalar", layout == "list", layout == "vector", layout == "sparse"])
    if layout == "scalar":
        arrow = [_unval(vt, v) for v in at.arrow().to_pylist()]
        same("numpy", [_unval(vt, v) for v in at.numpy().tolist()], arrow)
        if vt != "str":
            same("torch", [_unval(vt, v) for v in at.torch().tolist()], arrow)
        same("drop_null.arrow", [_unval(vt, v) for v in dn.arrow().to_pylist()], [v for v in arrow if v is not None])
        return {"layout": "scalar", "ids": ids, "arrow": arrow,
                "pd_null": _pd_items(at.pandas(), lambda v: _unval(vt, v)),
                "pd_omit": _pd_items(at.pandas(missing="omit"), lambda v: _unval(vt, v)), "dropped": dropped}
    if layout == "list":
        arrow = [_canon_list(vt, v) for v in at.arrow().to_pylist()]
        same("numpy", [None if v is None else _canon_list(vt, list(v)) for v in at.numpy().tolist()], arrow)
        same("drop_null.arrow", [_canon_list(vt, v) for v in dn.arrow().to_pylist()], [v for v in arrow if v is not None])
        return {"layout": "list", "ids": ids, "arrow": arrow,
                "pd_null": _pd_items(at.pandas(), lambda v: None if v is None else _canon_list(vt, list(v))),
                "pd_omit": _pd_items(at.pandas(missing="omit"), lambda v: None if v is None else _canon_list(vt, list(v))), "dropped": dropped}
    dims = at.dim_names
    dims = None if dims is None else [_undim(x) for x in dims]
    if layout == "vector":
        size = at.vector_size
        arrow = [None if v is None else [_unval("float", c) for c in v] for v in at.arrow().to_pylist()]
        matrix = [[_unval("float", c) for c in row] for row in at.numpy().tolist()]
        same("numpy shape", list(at.numpy().shape), [len(ids), size])
        same("torch", [[_unval("float", c) for c in row] for row in at.torch().tolist()], matrix)
        same("scipy", [[_unval("float", c) for c in row] for row in np.asarray(at.scipy()).tolist()], matrix)
        same("drop_null.numpy", [[_unval("float", c) for c in row] for row in dn.numpy().tolist()], [v for v in arrow if v is not None])
        out = {"layout": "vector", "ids": ids, "size": size, "dims": dims, "arrow": arrow, "matrix": matrix, "dropped": dropped}
        for key, kw in (("pd_null", {}), ("pd_omit", {"missing": "omit"})):
            df = at.pandas(**kw)
            out[key] = [[_unid(i), [_unval("float", c) for c in row]] for i, row in zip(df.index.tolist(), df.to_numpy().tolist())]
            cols = None if at.dim_names is None else [_undim(x) for x in df.columns.tolist()]
            same("pandas columns", cols, dims)
        return out
    # sparse
    csr = at.scipy()
    arrow = [None if v is None else [[int(e["index"]), _unval("float", e["value"])] for e in v] for v in at.arrow().to_pylist()]
    rows = [[[int(c), _unval("float", x)] for c, x in zip(csr.indices[csr.indptr[r]:csr.indptr[r + 1]].tolist(),
                                                           csr.data[csr.indptr[r]:csr.indptr[r + 1]].tolist())]
            for r in range(csr.shape[0])]
    same("scipy shape[0]", csr.shape[0], len(ids))
    dense = csr.toarray()
    same("torch", at.torch().to_dense().numpy().tolist(), dense.tolist())
    same("drop_null.scipy", dn.scipy().toarray().tolist(), [dense[r].tolist() for r in range(len(ids)) if arrow[r] is not None])
    return {"layout": "sparse", "ids": ids, "ncol": int(csr.shape[1]), "dims": dims, "arrow": arrow, "rows": rows, "dropped": dropped}


def _describe(case, upto):
    """the history of builder calls up to and including step `upto`, in one line"""
    parts = []
    for o in case["ops"][: upto + 1]:
        if o["op"] == "entities":
            dt = "py" if o["kind"] == "list" and o.get("dtype") != "str" else o.get("dtype", "")      # a Python list is inferred as int64
            parts.append(f"entities[{dt}/{o['kind']}]x{len(o['ids'])}")
        else:
            parts.append(f"{o['op']} a{o['name']}" + (" +dims" if o.get("dims") else ""))
    return " -> ".join(parts)


def _check_declared(b, cls, declared, oi, case):
    """After builder call `oi`: every dense / sparse vector attribute still shows its declared dimension names and size,
    in every read form that carries them."""
    bad = []
    es = b.build().entities(cls)
    for name, o in declared.items():
        what = f"after step {oi} ({_describe(case, oi)}): a{name}"
        try:
            at = es.attribute("a%d" % name)
        except KeyError:
            bad.append(["attribute-lost-after:" + case["ops"][oi]["op"], f"{what} can no longer be read"])
            continue
        dims = at.dim_names
        dims = None if dims is None else [_undim(x) for x in dims]
        key = f"dims-size-after:{case['ops'][oi]['op']}:{o['op']}"
        if dims != o["dims"]:
            bad.append([key, f"{what} declared dim_names {o['dims']}, now {dims}"])
        try:
            if o["op"] == "vector":
                if at.vector_size != o["size"] or at.numpy().shape[1] != o["size"]:
                    bad.append([key, f"{what} declared size {o['size']}, now {at.vector_size} / {at.numpy().shape}"])
                cols = at.pandas().columns.tolist()
                want = list(range(o["size"])) if o["dims"] is None else _dimnames(o)
                if cols != want:
                    bad.append([key, f"{what} pandas() columns {cols}, declared {want}"])
            else:
                if at.scipy().shape[1] != o["ncol"] or at.torch().shape[1] != o["ncol"]:
                    bad.append([key, f"{what} declared {o['ncol']} columns, now {at.scipy().shape}"])
        except Exception as e:
            bad.append(["reader-raised-after:" + case["ops"][oi]["op"], f"{what}: {type(e).__name__}: {str(e)[:120]}"])
    return bad


def run_impl(case):
    _setup()
    idtype, cls = case["idtype"], case["cls"]
    b = DatasetBuilder()
    outcomes = []
    info = {}
    meta_bad = []
    declared = {}
    for oi, o in enumerate(case["ops"]):
        try:
            _apply(b, cls, o, idtype)
            outcomes.append(None)
            if o["op"] != "entities":
                info[o["name"]] = (o["op"], o.get("vtype"))
                if o["op"] in ("vector", "sparse"):
                    declared[o["name"]] = o
        except DataError:
            outcomes.append("EData")
            continue
        except NotImplementedError:
            outcomes.append("ENotImpl")
            continue
        if declared:
            meta_bad += _check_declared(b, cls, declared, oi, case)
    ds = b.build()
    es = ds.entities(cls)
    rows = [_unid(i) for i in es.ids().tolist()]
    fmt_bad = []
    answers = []
    for q in case["queries"]:
        e2 = es
        if q["sel"] is not None:
            try:
                e2 = es.select(ids=_ids_arr(q["sel"], idtype, "numpy" if q["sel"] else "list", q.get("dtype")))
            except KeyError:
                answers.append({"err": "EKey"})
                continue
        try:
            at = e2.attribute("a%d" % q["name"])
        except KeyError:
            answers.append({"layout": "none"})
            continue
        layout, vt = info[q["name"]]
        bad: list = []
        try:
            answers.append(_view(at, layout, vt, bad))
        except Exception as e:           # a reader of an existing attribute must not raise
            answers.append({"layout": "raised", "what": f"{type(e).__name__}: {str(e)[:150]}"})
        fmt_bad += [f"query {len(answers) - 1}: {m}" for m in bad]
    return {"outcomes": outcomes, "rows": rows, "answers": answers, "fmt_bad": fmt_bad, "meta_bad": meta_bad}


# ---------------------------------------------------------------------------------------------
# model side
# ---------------------------------------------------------------------------------------------


def c_elem(v):
    return "None" if v is None else f"(Some {cz(v)})"


def c_elems(l):
    return clist(l, c_elem)


def c_olist(l):
    return copt(l, c_elems)


def c_pairs(row):
    return clist(row, lambda p: f"({cnat(p[0])}, {cz(p[1])})")


def c_dims(d):
    return copt(d, lambda x: clist(x, cz))


def c_op(o):
    op = o["op"]
    if op == "entities":
        return f"OEntities {clist(o['ids'], cz)}"
    n, ids = cnat(o["name"]), clist(o["ids"], cz)
    if op == "scalar":
        return f"OScalar {n} {ids} {c_elems(o['vals'])}"
    if op == "list":
        return f"OList {n} {ids} {clist(o['lists'], c_olist)}"
    if op == "vector":
        return f"OVector {n} {ids} {cnat(o['size'])} {clist(o['vecs'], c_olist)} {c_dims(o['dims'])}"
    return f"OSparse {n} {ids} {cnat(o['ncol'])} {clist(o['rows'], c_pairs)} {c_dims(o['dims'])}"


def c_items(items, f):
    return clist(items, lambda p: f"({cz(p[0])}, {f(p[1])})")


def c_view(a):
    if "err" in a:
        return f"(Err {a['err']})"
    lay = a["layout"]
    if lay == "none":
        return "(Ok VNoAttr)"
    dr = clist(a["dropped"], cz)
    if lay == "scalar":
        return f"(Ok (VScalar {c_elems(a['arrow'])} {c_items(a['pd_null'], c_elem)} {c_items(a['pd_omit'], c_elem)} {dr}))"
    if lay == "list":
        return f"(Ok (VList {clist(a['arrow'], c_olist)} {c_items(a['pd_null'], c_olist)} {c_items(a['pd_omit'], c_olist)} {dr}))"
    if lay == "vector":
        return (f"(Ok (VVector {cnat(a['size'])} {c_dims(a['dims'])} {clist(a['arrow'], c_olist)} {clist(a['matrix'], c_elems)} "
                f"{c_items(a['pd_null'], c_elems)} {c_items(a['pd_omit'], c_elems)} {dr}))")
    return (f"(Ok (VSparse {cnat(a['ncol'])} {c_dims(a['dims'])} {clist(a['arrow'], lambda r: copt(r, c_pairs))} "
            f"{clist(a['rows'], c_pairs)} {dr}))")


def coq_term(case, obs):
    if obs["fmt_bad"] or obs["meta_bad"] or any(a.get("layout") == "raised" for a in obs["answers"]):
        return "false"
    ops = clist(case["ops"], c_op)
    out = clist(obs["outcomes"], lambda e: copt(e, str))
    qs = clist(list(zip(case["queries"], obs["answers"])),
               lambda qa: f"({cnat(qa[0]['name'])}, {copt(qa[0]['sel'], lambda s: clist(s, cz))}, {c_view(qa[1])})")
    return f"agree {ops} {out} {clist(obs['rows'], cz)} {qs}"


# ---------------------------------------------------------------------------------------------
# the property as a predicate on implementation output (independent of the Coq model)
# ---------------------------------------------------------------------------------------------


def _supplied(case, obs):
    """{attribute: (layout, {entity id: value})} from the calls that were accepted; null values are 'not supplied'."""
    out = {}
    for o, res in zip(case["ops"], obs["outcomes"]):
        if res is not None or o["op"] == "entities":
            continue
        if o["op"] == "scalar":
            d = {i: v for i, v in zip(o["ids"], o["vals"]) if v is not None}
        elif o["op"] == "list":
            d = {i: v for i, v in zip(o["ids"], o["lists"]) if v is not None}
        elif o["op"] == "vector":
            d = {i: v for i, v in zip(o["ids"], o["vecs"]) if v is not None}
        else:
            d = {i: [list(p) for p in r] for i, r in zip(o["ids"], o["rows"])}
        out[o["name"]] = (o, d)
    return out


def oracle(case, obs):
    v = []
    for m in obs["fmt_bad"]:
        v.append(("output-forms-disagree", m))
    for k, m in obs["meta_bad"]:
        v.append((k, m))
    known = set()
    for o, res in zip(case["ops"], obs["outcomes"]):
        # calls that must be refused / accepted
        if o["op"] == "entities":
            dup = len(set(o["ids"])) < len(o["ids"]) or any(i in known for i in o["ids"])
            if dup != (res == "EData"):
                v.append(("entities-outcome", f"add_entities {o['ids']} with known {sorted(known)} returned {res}"))
            if res is None:
                known |= set(o["ids"])
        else:
            unknown = any(i not in known for i in o["ids"])
            if unknown and res not in ("EData", "ENotImpl"):
                v.append(("unknown-entity-accepted", f"attribute a{o['name']} given for unknown entities was accepted"))
            if not unknown and res == "EData":
                v.append((f"spurious-error:{o['op']}", f"attribute a{o['name']} for known entities raised DataError"))
    if sorted(obs["rows"]) != sorted(known):
        v.append(("entity-set", f"entities {obs['rows']} but {sorted(known)} were added"))
    sup = _supplied(case, obs)
    for qi, (q, a) in enumerate(zip(case["queries"], obs["answers"])):
        sel = q["sel"] if q["sel"] is not None else obs["rows"]
        if "err" in a:
            if all(i in known for i in sel):
                v.append(("spurious-error:select", f"query {qi}: selecting known entities raised {a['err']}"))
            continue
        if q["name"] not in sup:
            if a["layout"] != "none":
                v.append(("phantom-attribute", f"query {qi}: attribute a{q['name']} was never added but can be read"))
            continue
        o, d = sup[q["name"]]
        lay = o["op"]
        if a["layout"] == "none":
            v.append((f"attribute-not-readable:{lay}", f"query {qi}: attribute a{q['name']} was added ({lay}) but reading it raises KeyError"))
            continue
        if a["layout"] == "raised":
            v.append((f"reader-raised:{lay}", f"query {qi}: reading a{q['name']} ({lay}) for {sel} raised {a['what']}"))
            continue
        if any(i not in known for i in sel):
            v.append(("unknown-selection-accepted", f"query {qi}: selection {sel} has unknown entities but was answered"))
            continue
        if a["ids"] != sel:
            v.append((f"ids:{lay}", f"query {qi}: attribute set lists entities {a['ids']}, selection was {sel}"))
            continue
        want = [d.get(i) for i in sel]
        if a["arrow"] != want:
            v.append((f"read-back:{lay}:arrow", f"query {qi}: a{q['name']} for {sel}: arrow() gives {a['arrow']}, supplied {want}"))
        wd = [i for i in sel if i in d]
        if a["dropped"] != wd:
            v.append((f"read-back:{lay}:drop_null", f"query {qi}: drop_null keeps {a['dropped']}, defined are {wd}"))
        if lay in ("scalar", "list"):
            for key in ("pd_null", "pd_omit"):
                got = a[key]
                # entry-wise: every selected entity either appears with its value, or is absent / null iff it has none
                seen = {}
                okp = True
                for i, val in got:
                    seen.setdefault(i, []).append(val)
                for i in set(sel):
                    vals = seen.get(i, [])
                    if i in d:
                        okp &= len(vals) == sel.count(i) and all(x == d[i] for x in vals)
                    else:
                        okp &= all(x is None for x in vals)
                okp &= all(i in sel for i in seen)
                if not okp:
                    v.append((f"read-back:{lay}:pandas", f"query {qi}: pandas({key}) gives {got}, supplied {dict((i, d.get(i)) for i in sel)}"))
        elif lay == "vector":
            size = o["size"]
            if a["size"] != size or a["dims"] != o["dims"]:
                v.append(("dims-size:vector", f"query {qi} after {_describe(case, len(case['ops']) - 1)}: vector_size/dim_names {a['size']}/{a['dims']}, declared {size}/{o['dims']}"))
            wm = [d[i] if i in d else [None] * size for i in sel]
            if a["matrix"] != wm:
                v.append(("read-back:vector:numpy", f"query {qi}: numpy() gives {a['matrix']}, supplied {wm}"))
            if a["pd_null"] != [[i, r] for i, r in zip(sel, wm)]:
                v.append(("read-back:vector:pandas", f"query {qi}: pandas() gives {a['pd_null']}, supplied {list(zip(sel, wm))}"))
            wo = [[i, d[i]] for i in sel if i in d]
            if a["pd_omit"] != wo:
                v.append(("read-back:vector:pandas-omit", f"query {qi}: pandas(missing='omit') gives {a['pd_omit']}, supplied {wo}"))
        else:
            if a["ncol"] != o["ncol"] or a["dims"] != o["dims"]:
                v.append(("dims-size:sparse", f"query {qi} after {_describe(case, len(case['ops']) - 1)}: columns/dim_names {a['ncol']}/{a['dims']}, declared {o['ncol']}/{o['dims']}"))
            wr = [d.get(i, []) for i in sel]
            if a["rows"] != wr:
                v.append(("read-back:sparse:scipy", f"query {qi}: scipy() rows {a['rows']}, supplied {wr}"))
    seen, out = set(), []
    for k, w in v:
        if k not in seen:
            seen.add(k)
            out.append((k, w))
    return out


def nontrivial(case, obs):
    ok_ops = [o for o, r in zip(case["ops"], obs["outcomes"]) if r is None]
    layouts = {o["op"] for o in ok_ops if o["op"] != "entities"}
    rows = obs["rows"]
    pos = {i: k for k, i in enumerate(rows)}
    unsorted = any(o["op"] != "entities" and 0 < len(o["ids"]) < len(rows)
                   and [pos[i] for i in o["ids"]] != sorted(pos[i] for i in o["ids"]) for o in ok_ops)
    seen_attr, late = False, False
    for o in ok_ops:
        if o["op"] == "entities":
            late |= seen_attr
        else:
            seen_attr = True
    mixed = any(isinstance(a.get("arrow"), list) and any(x is None for x in a["arrow"]) and any(x is not None for x in a["arrow"])
                for q, a in zip(case["queries"], obs["answers"]) if q["sel"] is not None)
    return len(layouts) >= 2 and unsorted and late and mixed


def counters(case, obs):
    yield "style=" + case["style"]
    yield "idtype=" + case["idtype"]
    yield "class=" + case["cls"]
    seen_attr, widest, dims_seen = False, 0, False
    for o, r in zip(case["ops"], obs["outcomes"]):
        yield f"op={o['op']}:{r or 'ok'}"
        if o["op"] == "entities":
            yield "batch-id-dtype=" + o.get("dtype", "?")
            if r is None and case["idtype"] == "int":
                w = {"i1": 1, "i2": 2, "i4": 4, "i8": 8, "py": 8}[o["dtype"]] if o["kind"] != "list" else 8
                if widest and w > widest:
                    yield "later-batch-wider" + ("-after-vector-with-dims" if dims_seen else "")
                elif widest and w < widest:
                    yield "later-batch-narrower"
                widest = max(widest, w)
            if seen_attr and r is None:
                yield "entities-after-attribute"
            continue
        if r is None and o.get("dims"):
            dims_seen = True
        seen_attr = True
        if r is None:
            yield "form=" + o["op"] + "/" + o.get("form", o.get("fmt", ""))
            n = len(o["ids"])
            yield "coverage=" + ("none" if n == 0 else "all" if n == len(obs["rows"]) else "subset")
            if o["op"] == "scalar" and any(x is None for x in o["vals"]):
                yield "scalar-null-value"
            if o["op"] == "list" and any(x == [] for x in o["lists"]):
                yield "empty-list-value"
            if o["op"] == "list" and any(x is None for x in o["lists"]):
                yield "null-list-value"
            if o["op"] == "vector" and any(x is None for x in o["vecs"]):
                yield "null-vector-value"
            if o["op"] == "vector" and any(x is not None and all(c == 0 for c in x) for x in o["vecs"]):
                yield "zero-vector-value"
            if o["op"] == "sparse" and any(x == [] for x in o["rows"]):
                yield "all-zero-sparse-row"
    for q, a in zip(case["queries"], obs["answers"]):
        yield "query=" + ("all" if q["sel"] is None else "empty" if not q["sel"] else "subset") + ":" + (a.get("err") or a.get("layout"))


def sample(case, obs):
    return {"case": {"idtype": case["idtype"], "ops": case["ops"][:3], "queries": case["queries"][:2]},
            "observation": {"outcomes": obs["outcomes"], "rows": obs["rows"], "answers": obs["answers"][:2]}}


def shrink(case, fails):
    c = dict(case)
    c["queries"] = common.shrink_list(case["queries"], lambda xs: bool(xs) and fails({**c, "queries": xs}), 30)
    first = case["ops"][:1]
    rest = common.shrink_list(case["ops"][1:], lambda xs: fails({**c, "ops": first + xs}), 40)
    c["ops"] = first + rest
    return c
