"""C16 -- item lists keep each item's identifier, number and field values together
(DESIGN.md section 4, C16; notes/design/C16.md).

A case is a small environment (identifier type, 1-3 vocabularies) and a sequence of at most 12
operations over a pool of live ItemLists: construction from identifiers / numbers / both, copies
with overrides and removals, subsetting by mask / index array / slice / scalar, the lazy readers
(ids, numbers with either `missing` mode, numbers through another vocabulary, ranks), clone, and
round trips through a data frame and an Arrow table.  After every step the list created or touched
is observed WITHOUT disturbing its caches (through a shadow object sharing its attribute dict), all
other live lists are re-observed and compared with their previous snapshot, and at the end every
list is observed directly, in every array format.
"""

from __future__ import annotations

import common
from common import cbool, clist, cnat, copt, cz

PID = "C16"
PROPS_FILE = "Props/C16.v"
GEN_FILES: list[str] = []
MODEL_FILES = ["Model/C16_itemlist.v"]
ALLOWED_AXIOMS: list[str] = []
CASE_HEADER = "From Coq Require Import ZArith List.\nFrom LK Require Import Model.C16_itemlist.\nImport ListNotations.\nOpen Scope Z_scope."
SHARD = 40
TRUSTED = [
    "Coq 8.16.1 kernel + vm_compute (no native_compute); Print Assumptions of every theorem in Props/C16.v: closed under the global context",
    "hand-written model Model/C16_itemlist.v of ItemList.__init__ / ids / numbers / ranks / __getitem__ / clone / to_df+from_df / to_arrow(ids, numbers | columns=...)+from_arrow, "
    "tied to the code by operation-sequence correspondence evaluated inside Coq (exact integers; values are quarter steps so float32 is exact)",
    "section-free hypotheses of the theorems: every vocabulary has distinct terms (enforced by Vocabulary.__init__), an argument array of shape [n] has n entries",
    "NumPy / PyTorch / Arrow / pandas indexing and conversion kernels, MTArray caching: exercised (every format compared entry-wise), not verified",
    "canonicalisation by the harness: identifiers -> Z by an order isomorphism, NaN and Arrow null -> one missing marker in observations",
]
ASSUMPTIONS = [
    "when identifiers and numbers are both supplied they are consistent with the vocabulary in force (numbers = positions, negative for unknown identifiers)",
    "a supplied rank field is 1..n (the list order is the rank order)",
    "vocabulary terms are distinct (Vocabulary raises ValueError otherwise)",
]
RULE = ("operation sequences of length 3-12 over 1-3 vocabularies of integer or string identifiers; lists of 0-6 items built from "
        "ids / numbers / both / nothing with list, NumPy, torch, Arrow and pandas containers; separate malformed stream (wrong length, 2-D, 0-d, "
        "wrong dtype, out-of-range selectors and numbers) and wrong-shape stream (a field / score / rank of the wrong length, 2-D / 3-D or 0-d in every "
        "container spelling: nested lists / tuples, lists of arrays / tensors, C / Fortran / object ndarrays, tensors, Arrow tensors, data frames, NumPy and "
        "Python scalars; at construction and in the copy constructor); conversions with every parameter generated (to_arrow table / struct array / chunked, "
        "ids / numbers flags, caller-supplied column schema of any subset in any order with any types, vocabulary kept or not; columns permuted before "
        "from_arrow / from_df) and compared column by column by name; non-trivial = at least 3 live lists at the end, at least one subsetting and one copy "
        "or conversion step succeeded, and some list resolved identifiers or numbers lazily through a vocabulary; distinct = by hash of the case")

NID = 10
FNAMES = [0, 2, 3, 4]
FLABEL = {0: "score", 1: "rank", 2: "rating", 3: "foo", 4: "bar"}
KINDS = ["list", "numpy", "torch", "arrow", "pandas"]

# ---------------------------------------------------------------------------------------------
# generator (no lenskit import; tracks only lengths / field names to stay mostly valid)
# ---------------------------------------------------------------------------------------------


def vnum(terms, i):
    return terms.index(i) if i in terms else -1


def g_vals(rng, n, kind, dtype):
    out = []
    for _ in range(n):
        if dtype == "i8":
            out.append(4 * rng.randint(-3, 9))
        elif kind == "arrow" and rng.chance(1, 8):
            out.append("N")
        elif rng.chance(1, 12):
            out.append(None)
        else:
            out.append(rng.randint(-8, 40))
    if dtype == "i8" and kind == "arrow" and n and rng.chance(1, 6):
        out[rng.below(n)] = "N"
    return out


# how an array of a given container kind is spelled (the model only sees kind / shape / data)
REPS_1D = {"list": ["list", "list", "tuple", "list-of-0d"]}
REPS_2D = {"list": ["list", "tuple", "list-of-tuples", "tuple-of-lists", "list-of-arrays", "list-of-tensors"],
           "numpy": ["ndarray", "fortran", "object"], "torch": ["tensor"], "arrow": ["tensor"], "pandas": ["frame"]}
REPS_3D = {"list": ["list", "tuple", "list-of-arrays"], "numpy": ["ndarray", "object"], "torch": ["tensor"], "arrow": ["tensor"]}
REPS_0D = {"list": ["pyscalar"], "numpy": ["ndarray", "npscalar"], "torch": ["tensor"]}


def g_arr(rng, n, bad=None, dtype=None, scalar_ok=True):
    """An argument array: container kind, spelling (`rep`), dtype, shape, row-major data.  `bad` asks for a wrong
    length, a wrong dimensionality (2-D / 3-D in every container that can hold one, with or without the right number
    of entries) or a 0-d value (0-d array / tensor, NumPy scalar, plain Python number)."""
    kind = rng.choice(KINDS)
    dtype = dtype or rng.weighted([("f8", 4), ("f4", 2), ("i8", 2)])
    shape = [n]
    rep = None
    if bad == "len":
        shape = [n + 1] if (n == 0 or rng.chance(1, 2)) else [n - 1]
    elif bad == "2d":
        if n == 0:
            shape = rng.choice([[1, 2], [0, 2], [1, 1]])
        else:
            shape = rng.weighted([([n, 2], 4), ([n, 1], 2), ([1, n], 2), ([2, n], 1), ([n, 1, 1], 1), ([n, 2, 1], 1)])
        reps = REPS_3D if len(shape) == 3 else REPS_2D
        kind = rng.choice(sorted(reps))
        if shape[0] == 0:
            kind = rng.choice(["numpy", "torch"])          # a nested list with no rows is just an empty list
        rep = rng.choice(reps[kind])
    elif bad == "0d":
        shape = []
        kind = rng.choice(sorted(REPS_0D) if scalar_ok else ["numpy", "torch"])
        rep = rng.choice(REPS_0D[kind]) if scalar_ok else None
    elif bad == "allnull":
        kind, dtype = "arrow", "f8"
        return {"kind": kind, "dtype": dtype, "shape": [n], "data": ["N"] * n}
    elif kind in REPS_1D:
        rep = rng.choice(REPS_1D[kind])
    cnt = 1
    for s in shape:
        cnt *= s
    data = g_vals(rng, cnt, kind, dtype)
    if rep == "tensor" and kind == "arrow":
        data = [0 if d == "N" else d for d in data]       # an Arrow tensor has no validity bitmap
    a = {"kind": kind, "dtype": dtype, "shape": shape, "data": data}
    if rep is not None:
        a["rep"] = rep
    return a


def g_idarr(rng, ids, idtype, bad=None):
    kinds = ["list", "numpy", "arrow", "pandas"] + (["torch"] if idtype == "int" else [])
    a = {"kind": rng.choice(kinds), "shape": [len(ids)], "data": list(ids), "bad": False}
    if bad == "2d" and len(ids) >= 2 and len(ids) % 2 == 0:
        a["shape"] = [len(ids) // 2, 2]
        a["kind"] = "numpy"
    elif bad == "float":
        a["bad"] = True
        a["kind"] = "numpy"
    return a


def g_numarr(rng, nums, bad=None):
    a = {"kind": rng.choice(KINDS), "shape": [len(nums)], "data": list(nums)}
    if bad == "2d" and len(nums) >= 2 and len(nums) % 2 == 0:
        a["shape"] = [len(nums) // 2, 2]
        a["kind"] = rng.choice(["list", "numpy", "torch"])
    return a


def g_ids(rng, terms, n):
    known = rng.shuffle(terms or [])
    unknown = rng.shuffle([k for k in range(NID) if k not in (terms or [])])
    out = []
    for _ in range(n):
        pool = known if (known and (not unknown or rng.chance(5, 6))) else unknown
        if not pool:
            pool = list(range(NID))
        x = rng.choice(pool)
        out.append(x)
        if rng.chance(9, 10) and x in pool and len(pool) > 1:
            pool.remove(x)
    return out


def g_nums(rng, terms, n, bad=False):
    hi = len(terms) if terms else NID
    out = [rng.below(max(hi, 1)) for _ in range(n)]
    if bad and n:
        out[rng.below(n)] = rng.choice([-1, hi, hi + 2])
    return out


def g_fields(rng, n, names, bad=None):
    out = []
    for f in names:
        out.append([f, g_arr(rng, n, bad=bad if (bad and f == names[-1]) else None)])
    return out


def g_new(rng, cs, malformed, force_bad=None):
    nv = len(cs["vocabs"])
    v = rng.below(nv) if rng.chance(7, 10) else None
    terms = cs["vocabs"][v]["terms"] if v is not None else None
    n = rng.weighted([(0, 1), (1, 1), (2, 2), (3, 3), (4, 3), (5, 2), (6, 1)])
    form = rng.weighted([("ids", 4), ("nums", 3), ("both", 2)])
    if n == 0 and rng.chance(1, 2):
        form = "none"
    bad = force_bad or (rng.choice(["len", "2d", "0d", "ids2d", "idfloat", "nums2d", "numslen", "twoscores", "badnum", "allnull"]) if malformed else None)
    if force_bad and n == 0 and rng.chance(2, 3):
        n = rng.randint(1, 5)
    a = {"ids": None, "nums": None, "vocab": v, "ordered": rng.choice([None, None, True, False]), "scores": None, "fields": []}
    ids = g_ids(rng, terms, n)
    if form in ("ids", "both"):
        a["ids"] = g_idarr(rng, ids, cs["idtype"], {"ids2d": "2d", "idfloat": "float"}.get(bad))
        a["ids"]["alias"] = rng.chance(1, 8)
        a["ids"]["positional"] = (not a["ids"]["alias"]) and rng.chance(1, 8)
    if form == "nums":
        a["nums"] = g_numarr(rng, g_nums(rng, terms, n, bad == "badnum"), "2d" if bad == "nums2d" else None)
    elif form == "both":
        nums = [vnum(terms, i) for i in ids] if terms is not None else list(ids)
        a["nums"] = g_numarr(rng, nums)
        if bad == "numslen":
            a["nums"]["data"] = a["nums"]["data"] + [0]
            a["nums"]["shape"] = [n + 1]
    if a["nums"] is not None:
        # (item_num=[] is a float array for NumPy and is refused as "not integers"; not generated)
        a["nums"]["alias"] = rng.chance(1, 8) and a["nums"]["kind"] in ("list", "numpy", "pandas") and (n > 0 or a["nums"]["kind"] == "numpy")
    if form == "none":
        n = 0
    sc = rng.weighted([("none", 3), ("arr", 4), ("scalar", 1), ("alias", 1)])
    if sc == "arr":
        a["scores"] = g_arr(rng, n, dtype=rng.choice(["f8", "f4"]))
    elif sc == "scalar":
        a["scores"] = {"scalar": rng.randint(-4, 20)}
    elif sc == "alias":
        a["fields"].append([0, g_arr(rng, n, dtype="f8")])
    if bad == "twoscores":
        a["scores"] = g_arr(rng, n, dtype="f8")
        a["fields"] = [[0, g_arr(rng, n, dtype="f8")]]
    # which argument carries the wrong shape: an extra field, the score keyword, scores=, or the rank column
    tgt = None
    if bad in ("len", "2d", "0d"):
        tgt = rng.weighted([("field", 5), ("score", 2), ("scores", 2), ("rank", 1 if a["ordered"] is not False else 0)])
    if tgt == "score":
        a["scores"] = None
        a["fields"] = [[0, g_arr(rng, n, bad=bad, dtype="f8")]]
    elif tgt == "scores":
        a["scores"] = g_arr(rng, n, bad=bad, dtype=rng.choice(["f8", "f4"]), scalar_ok=False)   # (a plain number is broadcast)
        a["fields"] = []
    names = rng.subset([2, 3, 4], 2, 5)
    if rng.chance(1, 4) and bad is None:
        names = []
        if sc != "alias" and rng.chance(2, 3):
            a["scores"] = None
    fbad = bad if (tgt == "field" or bad == "allnull") else None
    if fbad and not names:
        names = [rng.choice([2, 3, 4])]
    a["fields"] += g_fields(rng, n, names, fbad)
    if tgt == "rank":
        a["fields"].append([1, g_arr(rng, n, bad=bad, dtype="i8")])
    elif rng.chance(1, 8) and a["ordered"] is not False:
        a["fields"].append([1, {"kind": rng.choice(KINDS), "dtype": "i8", "shape": [n], "data": [4 * (i + 1) for i in range(n)]}])
    expect_ok = bad in (None, "badnum", "allnull") or (bad in ("ids2d", "nums2d") and (n < 2 or n % 2)) \
        or (bad == "ids2d" and form not in ("ids", "both")) or (bad == "idfloat" and form not in ("ids", "both")) \
        or (bad == "nums2d" and form != "nums") or (bad == "numslen" and form != "both")
    fields = {f for f, x in a["fields"] if f != 1 and not (bad == "allnull" and x["data"] and all(d == "N" for d in x["data"]))}
    if a["scores"] is not None:
        fields.add(0)
    tr = {"n": n, "fields": fields, "vocab": v, "both_novocab": form == "both" and v is None, "noid": form == "nums" and v is None}
    return {"op": "new", "args": a, "bad": bad}, (tr if expect_ok else None)


def g_copy(rng, cs, k, src, malformed, force_bad=None):
    nv = len(cs["vocabs"])
    n = src["n"]
    a = {"ids": None, "nums": None, "vocab": None, "ordered": None, "scores": None, "fields": []}
    tr = dict(src, fields=set(src["fields"]))
    bad = force_bad or (rng.choice(["len", "2d", "0d", "idslen", "numslen"]) if malformed else None)
    what = rng.subset(["ids", "nums", "vocab", "ordered", "scores", "field", "remove", "rank"], 1, 3) or ["field"]
    v = src["vocab"]
    if "vocab" in what and not src["both_novocab"]:
        a["vocab"] = rng.below(nv)
        v = a["vocab"]
        tr["vocab"] = v
        tr["noid"] = src["noid"]
    terms = cs["vocabs"][v]["terms"] if v is not None else None
    if "ids" in what and "nums" in what and not rng.chance(1, 3):
        what.remove(rng.choice(["ids", "nums"]))
    n2 = n
    if "ids" in what:
        if (not src["fields"] and "nums" not in what and rng.chance(2, 3)) or bad == "idslen":
            n2 = max(0, n + rng.choice([-2, -1, 1, 2]))
        ids = g_ids(rng, terms, n2)
        a["ids"] = g_idarr(rng, ids, cs["idtype"])
        a["ids"]["alias"] = False
        a["ids"]["positional"] = False
        tr["noid"] = False
        tr["both_novocab"] = False
        if "nums" in what:
            nums = [vnum(terms, i) for i in ids] if terms is not None else list(ids)
            a["nums"] = g_numarr(rng, nums)
            a["nums"]["alias"] = False
            tr["both_novocab"] = terms is None
    elif "nums" in what:
        nums = g_nums(rng, terms, n)
        if bad == "numslen":
            nums = nums + [0]
        a["nums"] = g_numarr(rng, nums)
        a["nums"]["alias"] = False
        tr["noid"] = terms is None
        tr["both_novocab"] = False
    tr["n"] = n2
    if "ordered" in what:
        a["ordered"] = rng.choice([True, False])
    if "scores" in what:
        sc = rng.weighted([("false", 3), ("arr", 3), ("scalar", 1)])
        if sc == "false":
            a["scores"] = False
            tr["fields"].discard(0)
        elif sc == "arr":
            a["scores"] = g_arr(rng, n2, dtype=rng.choice(["f8", "f4"]))
            tr["fields"].add(0)
        else:
            a["scores"] = {"scalar": rng.randint(-4, 20)}
            tr["fields"].add(0)
    sbad = bad if bad in ("len", "2d", "0d") else None
    tgt = None
    if sbad:
        tgt = rng.weighted([("field", 5), ("score", 2), ("scores", 2), ("rank", 1 if a["ordered"] is not False else 0)])
    if tgt == "score":
        a["scores"] = None
        a["fields"].append([0, g_arr(rng, n2, bad=sbad, dtype="f8")])
    elif tgt == "scores":
        a["scores"] = g_arr(rng, n2, bad=sbad, dtype=rng.choice(["f8", "f4"]), scalar_ok=False)
    elif tgt == "rank":
        a["fields"].append([1, g_arr(rng, n2, bad=sbad, dtype="i8")])
    if "field" in what or tgt == "field":
        f = rng.choice([2, 3, 4])
        a["fields"].append([f, g_arr(rng, n2, bad=sbad if tgt == "field" else None)])
        tr["fields"].add(f)
    if "remove" in what:
        cand = [f for f in (2, 3, 4) if all(f != g for g, _ in a["fields"])]
        if cand:
            f = rng.choice(cand)
            a["fields"].append([f, False])
            tr["fields"].discard(f)
    if "rank" in what and a["ordered"] is not False and tgt != "rank" and rng.chance(1, 2):
        a["fields"].append([1, {"kind": rng.choice(KINDS), "dtype": "i8", "shape": [n2], "data": [4 * (i + 1) for i in range(n2)]}])
    ok = bad is None and (n2 == n or not src["fields"])
    return {"op": "copy", "k": k, "args": a, "bad": bad}, (tr if ok else None)


def g_sel(rng, n, malformed):
    t = rng.weighted([("mask", 3), ("idx", 4), ("slice", 3), ("scalar", 1 if n else 0)])
    if t == "mask":
        m = [rng.chance(1, 2) for _ in range(n)]
        if malformed:
            m = m + [True]
        return {"t": "mask", "m": m, "kind": rng.choice(["list", "numpy", "torch"] if m else ["numpy", "torch"])}, sum(m[:n])
    if t == "idx":
        cnt = rng.randint(0, n + 1) if n else 0
        ix = [rng.randint(-n, n - 1) for _ in range(cnt)] if n else []
        if rng.chance(1, 3) and n:
            ix = rng.shuffle(list(range(n)))
        if malformed:
            ix = ix + [rng.choice([n, -n - 1, n + 3])]
        return {"t": "idx", "ix": ix, "kind": rng.choice(["list", "numpy", "torch"] if ix else ["numpy", "torch"])}, len(ix)
    if t == "slice":
        def b():
            return None if rng.chance(1, 3) else rng.randint(-n - 2, n + 2)
        st = rng.weighted([(None, 3), (1, 1), (2, 2), (3, 1), (-1, 3), (-2, 2)])
        s = {"t": "slice", "start": b(), "stop": b(), "step": st}
        return s, len(list(range(n))[slice(s["start"], s["stop"], s["step"])])
    i = rng.randint(-n, n - 1)
    if malformed:
        i = rng.choice([n, -n - 1])
    return {"t": "scalar", "i": i, "np": rng.chance(1, 2)}, 1


COLNAMES = ["item_id", "item_num", "rank", "score", "rating", "foo", "bar", "baz"]
CFNUM = {"rank": 1, "score": 0, "rating": 2, "foo": 3, "bar": 4, "baz": 9}


def g_columns(rng, src):
    """A caller-supplied schema for to_arrow(columns=...): any subset of the identifier / number / rank columns, of the
    list's fields and of fields it does not have, in any order, each with a type."""
    have = {FLABEL[f] for f in src["fields"]}
    names = []
    for nm in COLNAMES:
        p = {"item_id": (4, 5), "item_num": (1, 2), "rank": (1, 2)}.get(nm, (3, 4) if nm in have else (1, 6))
        if rng.chance(*p):
            names.append(nm)
    if not names:
        names = ["item_id"]
    if rng.chance(4, 5):
        names = rng.shuffle(names)
    out = []
    for nm in names:
        t = "canon"
        if rng.chance(1, 4):
            t = rng.choice(["i8", "str"] if nm == "item_id" else ["i4", "i8"] if nm in ("item_num", "rank") else ["f8", "f4", "i8"])
        out.append([nm, t])
    return out


def gen_case(rng, malformed=False, shapes=False):
    idtype = rng.choice(["int", "str"])
    nv = rng.weighted([(1, 2), (2, 4), (3, 2)])
    vocabs = []
    for _ in range(nv):
        size = rng.randint(3, 8)
        terms = rng.sample(list(range(NID)), size)
        reorder = rng.chance(1, 3)
        if reorder:
            terms = sorted(terms)
        # (Vocabulary cannot be built from an Arrow array of strings: to_numpy() refuses to copy)
        vocabs.append({"terms": terms, "reorder": reorder,
                       "kind": rng.choice(["list", "numpy", "index", "series"] + (["arrow"] if idtype == "int" else []))})
    cs = {"idtype": idtype, "vocabs": vocabs, "ops": [], "style": "shapes" if shapes else "malformed" if malformed else "valid"}
    live = []
    last = None
    nops = rng.randint(3, 7) if shapes else rng.randint(3, 12)
    for step in range(nops):
        bad_here = malformed and rng.chance(1, 4)
        if shapes and live and rng.chance(3, 4):
            # the wrong-shape stream: a field / score / rank of the wrong length or dimensionality, in every container
            # kind and spelling, at construction and as an override in the copy constructor
            fb = rng.weighted([("2d", 6), ("0d", 2), ("len", 2)])
            if rng.chance(3, 5):
                k = rng.below(len(live))
                o, tr = g_copy(rng, cs, k, live[k], False, force_bad=fb)
            else:
                o, tr = g_new(rng, cs, False, force_bad=fb)
        elif not live or rng.chance(1, 6):
            o, tr = g_new(rng, cs, malformed and bool(live) and rng.chance(1, 2))
        else:
            k = rng.below(len(live))
            if last is not None and last < len(live) and rng.chance(1, 2):
                k = last           # follow up on the list the previous step created or read (cache-sensitive sequences)
            src = live[k]
            t = rng.weighted([("copy", 5), ("sub", 6), ("ids", 2), ("nums", 3), ("ranks", 1), ("alt", 2), ("clone", 1), ("df", 2), ("arrow", 2)])
            tr = None
            if t == "copy":
                o, tr = g_copy(rng, cs, k, src, bad_here)
            elif t == "sub":
                s, cnt = g_sel(rng, src["n"], bad_here)
                o = {"op": "sub", "k": k, "sel": s}
                tr = None if bad_here else dict(src, n=cnt, fields=set(src["fields"]))
            elif t == "ids":
                o = {"op": "ids", "k": k}
            elif t == "nums":
                o = {"op": "nums", "k": k, "missing": rng.choice(["error", "negative", "negative"])}
            elif t == "ranks":
                o = {"op": "ranks", "k": k}
            elif t == "alt":
                o = {"op": "alt", "k": k, "v": rng.below(nv), "missing": rng.choice(["error", "negative"])}
            elif t == "clone":
                o = {"op": "clone", "k": k}
                tr = dict(src, fields=set(src["fields"]))
            else:
                wi, wn = rng.weighted([((True, True), 3), ((True, False), 3), ((False, True), 2), ((False, False), 1)])
                o = {"op": t, "k": k, "ids": wi, "numbers": wn, "perm": rng.below(1000) if rng.chance(1, 2) else None}
                if t == "arrow":
                    o["type"] = rng.weighted([("table", 3), ("array", 2), ("chunked", 1)])
                if t == "arrow" and rng.chance(1, 2):
                    o["columns"], o["kv"] = g_columns(rng, src), rng.chance(5, 6)
                    names = [nm for nm, _ in o["columns"]]
                    if "item_id" in names or "item_num" in names:
                        kept = {f for f in src["fields"] if FLABEL[f] in names} | ({0} if src["n"] == 0 and "score" in names else set())
                        tr = dict(src, fields=kept, vocab=src["vocab"] if o["kv"] else None)
                        tr["noid"] = tr["vocab"] is None and "item_id" not in names
                        tr["both_novocab"] = tr["vocab"] is None and "item_id" in names and "item_num" in names
                elif (wi or wn) and not (t == "arrow" and src["n"] == 0):
                    tr = dict(src, fields=set(src["fields"]))
        cs["ops"].append(o)
        last = o.get("k") if o["op"] in ("ids", "nums", "ranks", "alt") else None
        if tr is not None:
            live.append(tr)
            last = len(live) - 1
    return cs


def gen_cases(rng, tier):
    n = 1000 if tier == "quick" else 10000
    return [gen_case(rng.fork(k), malformed=(k % 5 == 4), shapes=(k % 5 == 2)) for k in range(n)]


# ---------------------------------------------------------------------------------------------
# implementation driver
# ---------------------------------------------------------------------------------------------

_ready = False


def _setup():
    global _ready, np, pd, pa, torch, ItemList, Vocabulary
    if _ready:
        return
    common.use_repo()
    import numpy as np
    import pandas as pd
    import pyarrow as pa
    import torch
    from lenskit.data import ItemList, Vocabulary
    _ready = True


def _id(idtype, k):
    return 100 + 7 * k if idtype == "int" else "i%02d" % k


def _unid(x):
    if isinstance(x, (bytes, str)):
        return int(x[1:])
    return (int(x) - 100) // 7


def _container(vals, kind, shape, npdtype, patype=None):
    arr = np.array(vals, dtype=npdtype).reshape(shape) if npdtype is not None else np.array(vals).reshape(shape)
    if kind == "numpy":
        return arr
    if kind == "list":
        return arr.tolist()
    if kind == "torch":
        return torch.from_numpy(arr.copy())          # (ascontiguousarray would turn a 0-d array into a 1-d one)
    if kind == "pandas":
        return pd.Series(arr, index=np.arange(len(arr)) + 3)
    if kind == "arrow":
        return pa.array(arr.tolist(), type=patype)
    raise ValueError(kind)


def _deep_tuple(x):
    return tuple(_deep_tuple(y) for y in x) if isinstance(x, list) else x


def _spell(arr, rep):
    """One NumPy array in the spelling `rep` (see REPS_*)."""
    if rep in ("list", "pyscalar"):
        return arr.tolist()
    if rep == "tuple":
        return _deep_tuple(arr.tolist())
    if rep == "list-of-tuples":
        return [_deep_tuple(r) for r in arr.tolist()]
    if rep == "tuple-of-lists":
        return tuple(arr.tolist())
    if rep in ("list-of-arrays", "list-of-0d"):
        return [np.array(r) for r in arr]
    if rep == "list-of-tensors":
        return [torch.from_numpy(np.array(r)) for r in arr]
    if rep == "ndarray":
        return arr
    if rep == "fortran":
        return np.asfortranarray(arr)
    if rep == "object":
        return arr.astype(object)
    if rep == "npscalar":
        return arr[()]
    if rep == "tensor":
        return torch.from_numpy(arr.copy())
    if rep == "frame":
        return pd.DataFrame(arr)
    raise ValueError(rep)


def _mk_arr(a):
    dt = {"f8": np.float64, "f4": np.float32, "i8": np.int64}[a["dtype"]]
    rep = a.get("rep")
    if a["kind"] == "arrow" and rep != "tensor":
        pt = {"f8": pa.float64(), "f4": pa.float32(), "i8": pa.int64()}[a["dtype"]]
        vals = [None if d == "N" else (float("nan") if d is None else (d // 4 if a["dtype"] == "i8" else d / 4)) for d in a["data"]]
        return pa.array(vals, type=pt)
    vals = [float("nan") if d is None else d / 4 for d in a["data"]]
    if a["dtype"] == "i8":
        vals = [d // 4 for d in a["data"]]
    if rep is None:
        return _container(vals, a["kind"], a["shape"], dt)
    arr = np.array(vals, dtype=dt).reshape(a["shape"])
    if a["kind"] == "arrow":
        return pa.Tensor.from_numpy(arr)
    return _spell(arr, rep)


def _mk_ids(a, idtype):
    vals = [_id(idtype, k) for k in a["data"]]
    if a["bad"]:
        return np.array([float(k) for k in a["data"]], dtype=np.float64).reshape(a["shape"])
    if idtype == "int":
        return _container(vals, a["kind"], a["shape"], np.int64, pa.int64())
    if a["kind"] == "arrow":
        return pa.array(vals, type=pa.utf8())
    if a["kind"] == "numpy" and len(vals) == 0:
        return np.array([], dtype="U3")
    return _container(vals, a["kind"], a["shape"], None)


def _mk_nums(a):
    return _container(a["data"], a["kind"], a["shape"], np.int64 if a["kind"] != "numpy" else np.int32, pa.int64())


def _mk_vocab(v, idtype):
    terms = [_id(idtype, k) for k in v["terms"]]
    given = list(reversed(terms)) if v["reorder"] else terms
    kind = v["kind"]
    if kind == "numpy":
        keys = np.array(given)
    elif kind == "index":
        keys = pd.Index(given)
        if v["reorder"]:
            keys = pd.Index(terms)            # an Index is taken as it is
    elif kind == "arrow":
        keys = pa.array(given)
    elif kind == "series":
        keys = pd.Series(given)
    else:
        keys = given
    return Vocabulary(keys, "item", reorder=v["reorder"])


def _kwargs(a, idtype, vocabs):
    kw = {}
    pos = []
    if a["ids"] is not None:
        x = _mk_ids(a["ids"], idtype)
        if a["ids"].get("alias"):
            kw["item_id"] = x
        elif a["ids"].get("positional"):
            pos.append(x)
        else:
            kw["item_ids"] = x
    if a["nums"] is not None:
        x = _mk_nums(a["nums"])
        kw["item_num" if a["nums"].get("alias") else "item_nums"] = x
    if a["vocab"] is not None:
        kw["vocabulary"] = vocabs[a["vocab"]]
    if a["ordered"] is not None:
        kw["ordered"] = a["ordered"]
    s = a["scores"]
    if s is False:
        kw["scores"] = False
    elif isinstance(s, dict) and "scalar" in s:
        kw["scores"] = s["scalar"] / 4
    elif s is not None:
        kw["scores"] = _mk_arr(s)
    for f, x in a["fields"]:
        kw[FLABEL[f]] = False if x is False else _mk_arr(x)
    return pos, kw


ERRS = {RuntimeError: "ERuntime", KeyError: "EKey", IndexError: "EIndex", TypeError: "EType", ValueError: "EValue"}


def _err(e):
    for t, n in ERRS.items():
        if type(e) is t:
            return n
    return "X:" + type(e).__name__          # not an outcome the model knows: always reported (oracle `unexpected-exception`)


def _try(f):
    try:
        return f(), None
    except Exception as e:
        return None, _err(e)


def _cv(x):
    x = float(x)
    if x != x:
        return None
    q = x * 4
    assert q == int(q), x
    return int(q)


def _res_ids(f):
    r, e = _try(f)
    return {"err": e} if e else [_unid(x) for x in np.asarray(r).tolist()]


def _res_nums(f):
    r, e = _try(f)
    return {"err": e} if e else [int(x) for x in np.asarray(r).tolist()]


def _shadow(il):
    o = ItemList.__new__(ItemList)
    o.__dict__.update(il.__dict__)
    return o


def _observe(il, vocabs, direct=False):
    """The full observable state of one list.  With direct=False the readers run on a shadow object
    that shares the list's attributes, so the list's own caches stay as the operations left them."""
    def s():
        return il if direct else _shadow(il)
    voc = il.vocabulary
    o = {
        "len": len(il),
        "ordered": bool(il.ordered),
        "vocab": next((i for i, v in enumerate(vocabs) if v is voc), None) if voc is not None else None,
        "ids": _res_ids(lambda: s().ids()),
        "neg": _res_nums(lambda: s().numbers(missing="negative")),
        "err": _res_nums(lambda: s().numbers(missing="error")),
        "alt": [[_res_nums(lambda: s().numbers(vocabulary=v, missing="negative")),
                 _res_nums(lambda: s().numbers(vocabulary=v, missing="error"))] for v in vocabs],
    }
    if voc is not None and o["vocab"] is None:
        o["vocab"] = -1
    shapes = {}
    r = s().ranks()
    o["ranks"] = None if r is None else _flat("rank", r, int, shapes)
    o["fields"] = []
    x = s()
    for f in FNAMES:
        v = x.field(FLABEL[f])
        o["fields"].append(None if v is None else _flat(FLABEL[f], v, _cv, shapes))
    o["extra_fields"] = sorted(k for k in x._fields if k not in FLABEL.values())
    o["shapes"] = shapes          # fields that are not 1-D arrays of numbers (never on the unchanged tree)
    return o


def _flat(name, v, conv, shapes):
    """The entries of one column in row-major order; anything but a 1-D array of numbers is noted in `shapes`."""
    a = np.asarray(v)
    if a.ndim != 1:
        shapes[name] = list(a.shape)
    out = []
    for t in a.ravel().tolist():
        try:
            out.append(conv(t))
        except (TypeError, ValueError, AssertionError):
            shapes.setdefault(name, list(a.shape) + ["entries:" + type(t).__name__])
            out.append(None)
    return out


def _canon_col(name, vals, shapes):
    """A column of a data frame / Arrow table read by NAME, in the observation's vocabulary (null and NaN -> None)."""
    def one(t):
        if t is None:
            return None
        if name == "item_id":
            return _unid(t)
        if name in ("item_num", "rank"):
            if t != t:
                return None
            assert int(t) == t
            return int(t)
        return _cv(t)
    out = []
    for t in vals:
        try:
            out.append(one(t))
        except (TypeError, ValueError, AssertionError):
            shapes.setdefault(name, ["entries:" + type(t).__name__])
            out.append(None)
    return out


def _table_obs(tbl):
    shapes = {}
    if isinstance(tbl, pd.DataFrame):
        names = [str(c) for c in tbl.columns]
        cols = {nm: _canon_col(nm, tbl[nm].tolist(), shapes) for nm in names}
    elif isinstance(tbl, pa.Table):
        names = list(tbl.column_names)
        cols = {nm: _canon_col(nm, tbl.column(nm).to_pylist(), shapes) for nm in names}
    else:
        names = [tbl.type.field(i).name for i in range(tbl.type.num_fields)]
        cols = {nm: _canon_col(nm, tbl.field(nm).to_pylist(), shapes) for nm in names}
    return {"names": names, "cols": cols, "rows": len(tbl), "shapes": shapes}


def _permuted(names, key):
    import random
    out = list(names)
    random.Random(key).shuffle(out)
    return out


PATYPES = {"f8": "float64", "f4": "float32", "i4": "int32", "i8": "int64", "str": "utf8"}


def _schema(cols, idtype):
    """The caller's schema for to_arrow(columns=...): names in the caller's order, each with a type (only used for
    columns the list cannot fill)."""
    canon = {"item_id": pa.int64() if idtype == "int" else pa.utf8(), "item_num": pa.int32(), "rank": pa.int32(), "score": pa.float32()}
    return {nm: (canon.get(nm, pa.float64()) if t == "canon" else getattr(pa, PATYPES[t])()) for nm, t in cols}


def _via_arrow(src, o, idtype, rec):
    kw = {"ids": o["ids"], "numbers": o["numbers"]}
    how = o.get("type", "table")
    if how != "table":
        kw["type"] = "array"
    if o.get("columns") is not None:
        kw["columns"] = _schema(o["columns"], idtype)
    tbl = src.to_arrow(**kw)
    rec["table"] = _table_obs(tbl)
    if o.get("perm") is not None:                       # from_arrow reads by name: the column order is immaterial
        if isinstance(tbl, pa.Table):
            tbl = tbl.select(_permuted(tbl.column_names, o["perm"]))
        else:
            order = _permuted([tbl.type.field(i).name for i in range(tbl.type.num_fields)], o["perm"])
            tbl = pa.StructArray.from_arrays([tbl.field(nm) for nm in order], order)
    if how == "chunked":
        h = len(tbl) // 2
        tbl = pa.chunked_array([tbl[:h], tbl[h:]] if h else [tbl])
    voc = src.vocabulary if o.get("kv", True) else None
    return ItemList.from_arrow(tbl, vocabulary=voc)


def _via_df(src, o, rec):
    df = src.to_df(ids=o["ids"], numbers=o["numbers"])
    rec["table"] = _table_obs(df)
    if o.get("perm") is not None:
        df = df[_permuted(list(df.columns), o["perm"])]
    return ItemList.from_df(df, vocabulary=src.vocabulary)


def _formats(il, o, vocabs):
    """Every array format of every reader agrees with the NumPy one (called on the real object, at the end)."""
    bad = []

    def same(tag, got, want):
        if got != want:
            bad.append(f"{tag}: {got} != {want}")
    if isinstance(o["neg"], list) and isinstance(o["err"], list):
        same("numbers/torch", [int(x) for x in il.numbers("torch").tolist()], o["err"])
        same("numbers/arrow", il.numbers("arrow").to_pylist(), o["err"])
    if o["ranks"] is not None:
        same("ranks/torch", [int(x) for x in il.ranks("torch").tolist()], o["ranks"])
        same("ranks/arrow", il.ranks("arrow").to_pylist(), o["ranks"])
    for f, want in zip(FNAMES, o["fields"]):
        if want is None:
            continue
        nm = FLABEL[f]
        same(nm + "/torch", [_cv(t) for t in il.field(nm, "torch").tolist()], want)
        same(nm + "/arrow", [None if t is None else _cv(t) for t in il.field(nm, "arrow").to_pylist()], want)
        same(nm + "/pandas", [_cv(t) for t in il.field(nm, "pandas").tolist()], want)
        if isinstance(o["ids"], list):
            sr = il.field(nm, "pandas", index="ids")
            same(nm + "/pandas-ids", [[_unid(i), _cv(t)] for i, t in zip(sr.index.tolist(), sr.tolist())], [list(p) for p in zip(o["ids"], want)])
        if isinstance(o["err"], list):
            sr = il.field(nm, "pandas", index="numbers")
            same(nm + "/pandas-numbers", [[int(i), _cv(t)] for i, t in zip(sr.index.tolist(), sr.tolist())], [list(p) for p in zip(o["err"], want)])
    if o["fields"][0] is not None:
        same("scores()", [_cv(t) for t in il.scores().tolist()], o["fields"][0])
    # rows of the data frame / Arrow table
    cols_ok = isinstance(o["ids"], list) or isinstance(o["err"], list)
    if cols_ok and not (isinstance(o["err"], dict) and o["err"]["err"] == "EKey") and not (
            isinstance(o["ids"], dict) and o["ids"]["err"] == "EIndex"):   # to_df legitimately raises what ids()/numbers() raise
        df, e = _try(lambda: il.to_df())
        if e:
            bad.append("to_df raised " + e)
        else:
            if "item_id" in df.columns:
                same("df/item_id", [_unid(x) for x in df["item_id"].tolist()], o["ids"])
            if "item_num" in df.columns:
                same("df/item_num", [int(x) for x in df["item_num"].tolist()], o["err"])
            if o["ranks"] is not None:
                same("df/rank", [int(x) for x in df["rank"].tolist()], o["ranks"])
            for f, want in zip(FNAMES, o["fields"]):
                if want is not None:
                    same("df/" + FLABEL[f], [_cv(t) for t in df[FLABEL[f]].tolist()], want)
            same("df/len", len(df), o["len"])
    if isinstance(o["ids"], list) and o["len"]:
        tb, e = _try(lambda: il.to_arrow())
        if e:
            bad.append("to_arrow raised " + e)
        else:
            same("arrow/item_id", [_unid(x) for x in tb.column("item_id").to_pylist()], o["ids"])
            for f, want in zip(FNAMES, o["fields"]):
                if want is not None:
                    same("arrow/" + FLABEL[f], [None if t is None else _cv(t) for t in tb.column(FLABEL[f]).to_pylist()], want)
    return bad


def _mk_sel(s):
    t = s["t"]
    if t == "mask":
        x = np.array(s["m"], dtype=bool)
        return x.tolist() if s["kind"] == "list" else (torch.from_numpy(x) if s["kind"] == "torch" else x)
    if t == "idx":
        x = np.array(s["ix"], dtype=np.int64)
        return x.tolist() if s["kind"] == "list" else (torch.from_numpy(x) if s["kind"] == "torch" else x)
    if t == "slice":
        return slice(s["start"], s["stop"], s["step"])
    return np.int64(s["i"]) if s["np"] else int(s["i"])


def run_impl(case):
    _setup()
    idtype = case["idtype"]
    vocabs = [_mk_vocab(v, idtype) for v in case["vocabs"]]
    live: list = []
    snaps: list = []
    steps = []
    for o in case["ops"]:
        rec = {"out": None, "obs": None, "src": None, "changed": []}
        op = o["op"]
        made = None
        k = None
        if op != "new":
            if not live:
                rec["out"] = "ENoList"
                steps.append(rec)
                continue
            k = o["k"] % len(live)
            rec["src"] = snaps[k]
            rec["k"] = k
        src = live[k] if k is not None else None
        if op in ("new", "copy"):
            pos, kw = _kwargs(o["args"], idtype, vocabs)
            if op == "copy":
                pos = [src]
            made, rec["out"] = _try(lambda: ItemList(*pos, **kw))
        elif op == "sub":
            sel = _mk_sel(o["sel"])
            made, rec["out"] = _try(lambda: src[sel])
        elif op == "ids":
            _, rec["out"] = _try(lambda: src.ids())
        elif op == "nums":
            _, rec["out"] = _try(lambda: src.numbers(missing=o["missing"]))
        elif op == "ranks":
            src.ranks()
        elif op == "alt":
            r, rec["out"] = _try(lambda: src.numbers(vocabulary=vocabs[o["v"]], missing=o["missing"]))
        elif op == "clone":
            made, rec["out"] = _try(lambda: src.clone())
        elif op == "df":
            made, rec["out"] = _try(lambda: _via_df(src, o, rec))
        elif op == "arrow":
            made, rec["out"] = _try(lambda: _via_arrow(src, o, idtype, rec))
        else:
            raise ValueError(op)
        # every list that existed before the step: unchanged?
        for j, l in enumerate(live):
            now = _observe(l, vocabs)
            if now != snaps[j]:
                rec["changed"].append(j)
                snaps[j] = now
        if made is not None:
            live.append(made)
            snaps.append(_observe(made, vocabs))
            rec["obs"] = snaps[-1]
        elif k is not None:
            rec["obs"] = snaps[k]
        steps.append(rec)
    final, fmt_bad = [], []
    for j, l in enumerate(live):
        fo = _observe(l, vocabs, direct=True)
        final.append(fo)
        if fo != snaps[j]:
            fmt_bad.append(f"list {j}: direct observation differs from the undisturbed one")
        try:
            fmt_bad += [f"list {j}: {m}" for m in _formats(l, fo, vocabs)]
        except Exception as e:   # a format conversion of a valid list must not raise
            fmt_bad.append(f"list {j}: conversion raised {type(e).__name__}: {str(e)[:120]}")
    return {"steps": steps, "final": final, "fmt_bad": fmt_bad}


# ---------------------------------------------------------------------------------------------
# model side
# ---------------------------------------------------------------------------------------------


def c_val(d):
    if d is None:
        return "VNaN"
    if d == "N":
        return "VNull"
    return f"(VZ {cz(d)})"


CK = {"list": "KList", "numpy": "KNumpy", "torch": "KTorch", "arrow": "KArrow", "pandas": "KPandas"}


def c_shape(s):
    return clist(s, cnat)


def c_arr(a, rank=False):
    data = [d // 4 if isinstance(d, int) else d for d in a["data"]] if rank else a["data"]   # ranks are plain integers
    return f"{{| a_kind := {CK[a['kind']]}; a_shape := {c_shape(a['shape'])}; a_data := {clist(data, c_val)} |}}"


def c_zarr(a, bad=False):
    return f"{{| z_shape := {c_shape(a['shape'])}; z_data := {clist(a['data'], cz)}; z_badtype := {cbool(bad)} |}}"


def c_args(a):
    s = a["scores"]
    if s is None:
        sc = "SNone"
    elif s is False:
        sc = "SFalse"
    elif "scalar" in s:
        sc = f"(SScalar (VZ {cz(s['scalar'])}))"
    else:
        sc = f"(SArr {c_arr(s)})"
    fl = clist(a["fields"], lambda fx: f"({cnat(fx[0])}, {'FFalse' if fx[1] is False else 'FArr ' + c_arr(fx[1], fx[0] == 1)})")
    return ("{| c_ids := " + copt(a["ids"], lambda x: c_zarr(x, x["bad"])) + "; c_nums := " + copt(a["nums"], c_zarr)
            + "; c_vocab := " + copt(a["vocab"], cnat) + "; c_ordered := " + copt(a["ordered"], cbool)
            + f"; c_scores := {sc}; c_fields := {fl} |}}")


def c_oz(x):
    return copt(x, cz)


def c_sel(s):
    t = s["t"]
    if t == "mask":
        return f"(SMask {clist(s['m'], cbool)})"
    if t == "idx":
        return f"(SIdx {clist(s['ix'], cz)})"
    if t == "slice":
        return f"(SSlice {c_oz(s['start'])} {c_oz(s['stop'])} {c_oz(s['step'])})"
    return f"(SScal {cz(s['i'])})"


def c_missing(m):
    return "MError" if m == "error" else "MNegative"


def c_op(o):
    op = o["op"]
    if op == "new":
        return f"ONew {c_args(o['args'])}"
    k = cnat(o["k"])
    if op == "copy":
        return f"OCopy {k} {c_args(o['args'])}"
    if op == "sub":
        return f"OSub {k} {c_sel(o['sel'])}"
    if op == "ids":
        return f"OIds {k}"
    if op == "nums":
        return f"ONums {k} {c_missing(o['missing'])}"
    if op == "ranks":
        return f"ORanks {k}"
    if op == "alt":
        return f"OAlt {k} {cnat(o['v'])} {c_missing(o['missing'])}"
    if op == "clone":
        return f"OClone {k}"
    if op == "df":
        return f"ODf {k} {cbool(o['ids'])} {cbool(o['numbers'])}"
    if op == "arrow" and o.get("columns") is not None:
        cols = clist([nm for nm, _ in o["columns"]], lambda nm: {"item_id": "CId", "item_num": "CNum"}.get(nm) or f"(CName {cnat(CFNUM[nm])})")
        return f"OArrowC {k} {cols} {cbool(o.get('kv', True))}"
    if op == "arrow":
        return f"OArrow {k} {cbool(o['ids'])} {cbool(o['numbers'])}"
    raise ValueError(op)


def c_res(r):
    if isinstance(r, dict):
        return f"(Err {r['err']})"
    return f"(Ok {clist(r, cz)})"


def c_lobs(o):
    alt = clist(o["alt"], lambda p: f"({c_res(p[0])}, {c_res(p[1])})")
    flds = clist(o["fields"], lambda v: copt(v, lambda xs: clist(xs, c_val)))
    return ("{| o_len := " + cnat(o["len"]) + "; o_ordered := " + cbool(o["ordered"]) + "; o_vocab := " + copt(o["vocab"], cnat)
            + f"; o_ids := {c_res(o['ids'])}; o_neg := {c_res(o['neg'])}; o_err := {c_res(o['err'])}; o_alt := {alt}"
            + f"; o_ranks := {copt(o['ranks'], lambda r: clist(r, cz))}; o_fields := {flds} |}}")


def _obs_ok(o):
    return o is None or ((o["vocab"] is None or o["vocab"] >= 0) and not o["extra_fields"] and not o.get("shapes"))


def _unexpected(obs):
    """Exceptions outside the model's vocabulary, wherever the driver met them."""
    out = []
    for si, s in enumerate(obs["steps"]):
        if isinstance(s["out"], str) and s["out"].startswith("X:"):
            out.append((f"step {si}", s["out"][2:]))
    for tag, o in [(f"step {si}", s["obs"]) for si, s in enumerate(obs["steps"])] + [(f"final list {j}", o) for j, o in enumerate(obs["final"])]:
        if o is None:
            continue
        for r in [o["ids"], o["neg"], o["err"]] + [x for p in o["alt"] for x in p]:
            if isinstance(r, dict) and r["err"].startswith("X:"):
                out.append((tag + " (reading the list)", r["err"][2:]))
    return out


def coq_term(case, obs):
    if obs["fmt_bad"] or any(s["changed"] for s in obs["steps"]) or _unexpected(obs):
        return "false"
    if not all(_obs_ok(s["obs"]) for s in obs["steps"]) or not all(_obs_ok(o) for o in obs["final"]):
        return "false"
    env = clist(case["vocabs"], lambda v: clist(v["terms"], cz))
    ops = clist(case["ops"], c_op)
    steps = clist(obs["steps"], lambda s: f"({copt(s['out'], str)}, {copt(s['obs'], c_lobs)})")
    final = clist(obs["final"], c_lobs)
    return f"agree {env} {ops} {steps} {final}"


# ---------------------------------------------------------------------------------------------
# the property as a predicate on implementation output (independent of the Coq model)
# ---------------------------------------------------------------------------------------------


def _ok(r):
    return isinstance(r, list)


def _check_list(case, o, v, tag):
    n = o["len"]
    if not _ok(o["ids"]) and not _ok(o["neg"]):
        v.append((f"no-identity:{tag}", f"a list of {n} items has neither identifiers nor numbers: ids {o['ids']}, numbers {o['neg']}"))
    for nm in ("ids", "neg"):
        if _ok(o[nm]) and len(o[nm]) != n:
            v.append((f"length:{tag}", f"{nm} has {len(o[nm])} entries for a list of {n}"))
    if o["vocab"] is not None and o["vocab"] >= 0 and _ok(o["ids"]) and _ok(o["neg"]):
        terms = case["vocabs"][o["vocab"]]["terms"]
        want = [vnum(terms, i) for i in o["ids"]]
        if o["neg"] != want:
            v.append((f"ids-numbers-correspond:{tag}", f"ids {o['ids']} have numbers {want} in the list's vocabulary, numbers() gives {o['neg']}"))
    if _ok(o["neg"]):
        want = {"err": "EKey"} if any(x < 0 for x in o["neg"]) else o["neg"]
        if o["err"] != want:
            v.append((f"missing-mode:{tag}", f"numbers(missing='error') = {o['err']}, expected {want}"))
    if _ok(o["ids"]):
        for j, (neg, er) in enumerate(o["alt"]):
            terms = case["vocabs"][j]["terms"]
            want = [vnum(terms, i) for i in o["ids"]]
            wante = {"err": "EKey"} if any(x < 0 for x in want) else want
            if j == o["vocab"] and not _ok(o["neg"]):
                continue
            if neg != want or er != wante:
                v.append((f"alternate-vocabulary:{tag}", f"ids {o['ids']} through vocabulary {j}: got {neg} / {er}, expected {want} / {wante}"))
    for f, vals in zip(FNAMES, o["fields"]):
        if vals is not None and len(vals) != n:
            v.append((f"field-length:{tag}", f"field {FLABEL[f]} has {len(vals)} values for {n} items"))
    for nm, shp in sorted((o.get("shapes") or {}).items()):
        v.append((f"field-shape:{tag}", f"{nm} of a list of {n} items is not a 1-D array of numbers (one value per item): shape / entries {shp}"))
    want = list(range(1, n + 1)) if o["ordered"] else None
    if o["ranks"] != want:
        v.append((f"ranks:{tag}", f"ordered={o['ordered']} list of {n} items has ranks {o['ranks']}"))


def _by_name(o, s, si, v):
    """Conversion keeps every value under its own NAME: each column of the data frame / Arrow table a list was
    converted to holds that list's identifiers / numbers / ranks / values of the field of that name (nulls for what the
    list does not have), in the caller's column order when a schema was given -- whatever that order is."""
    tb, src, op = s.get("table"), s["src"], o["op"]
    if tb is None or src is None:
        return
    n = src["len"]
    req = [nm for nm, _ in o["columns"]] if o.get("columns") is not None else None
    if req is not None and tb["names"] != req:
        v.append((f"columns-by-name:{op}-schema", f"step {si}: columns {req} requested, the table has {tb['names']}"))
    for nm, shp in sorted(tb["shapes"].items()):
        v.append((f"columns-by-name:{op}-entries", f"step {si}: column {nm} holds entries of the wrong kind: {shp}"))
    if tb["rows"] != n and (tb["names"] or n == 0):
        v.append((f"columns-by-name:{op}-rows", f"step {si}: {tb['rows']} rows for a list of {n} items"))
    for nm in tb["names"]:
        got = tb["cols"][nm]
        if nm == "item_id":
            want, cls = (src["ids"] if _ok(src["ids"]) else None), nm
        elif nm == "item_num":
            want, cls = (src["err"] if _ok(src["err"]) else None), nm
        elif nm == "rank":
            want, cls = (list(range(1, n + 1)) if src["ordered"] else [None] * n), nm
        else:
            j = [FLABEL[f] for f in FNAMES].index(nm) if nm in [FLABEL[f] for f in FNAMES] else None
            want, cls = (src["fields"][j] if j is not None and src["fields"][j] is not None else [None] * n), "field"
        if want is not None and got != want:
            v.append((f"columns-by-name:{op}-{cls}", f"step {si}: column {nm!r} of {op} (columns {tb['names']}) holds {got}, the list has {want}"))
    if req is None:
        for j, f in enumerate(FNAMES):
            if src["fields"][j] is not None and FLABEL[f] not in tb["names"] and n:
                v.append((f"columns-by-name:{op}-dropped", f"step {si}: field {FLABEL[f]} has no column in {tb['names']}"))
        if n and ("rank" in tb["names"]) != src["ordered"]:
            v.append((f"columns-by-name:{op}-dropped", f"step {si}: ordered={src['ordered']} but columns are {tb['names']}"))


def _columns_round_trip(o, s, si, v):
    """from_arrow(to_arrow(columns=...)): what was requested comes back, item by item, under the same name."""
    src, new, req = s["src"], (s["obs"] if s["out"] is None else None), [nm for nm, _ in o["columns"]]
    n = src["len"]
    ident = "item_id" in req or "item_num" in req
    if not ident:
        want_out = ["EType"]                      # a table without identifiers or numbers is not an item list
    elif n == 0:
        want_out = [None]                         # an empty list calls no reader
    else:
        want_out = [None]
        if "item_id" in req and not _ok(src["ids"]):
            want_out.append(src["ids"]["err"])
        if "item_num" in req and not _ok(src["err"]):
            want_out.append(src["err"]["err"])
        if len(want_out) > 1:
            want_out = want_out[1:]
    if s["out"] not in want_out:
        v.append(("spurious-error:arrow-columns", f"step {si}: to_arrow(columns={req}) / from_arrow gave {s['out']}, expected {want_out}"))
    if new is None:
        return
    if new["len"] != n:
        v.append(("rows-together:arrow-columns-len", f"step {si}: {n} items became {new['len']}"))
    if n == 0:
        return
    if "item_id" in req and _ok(src["ids"]) and new["ids"] != src["ids"]:
        v.append(("rows-together:arrow-columns-ids", f"step {si}: identifiers {src['ids']} came back as {new['ids']}"))
    if "item_num" in req and _ok(src["err"]) and new["neg"] != src["err"]:
        v.append(("rows-together:arrow-columns-numbers", f"step {si}: numbers {src['err']} came back as {new['neg']}"))
    for j, f in enumerate(FNAMES):
        want = src["fields"][j] if FLABEL[f] in req else None
        if new["fields"][j] != want:
            v.append(("rows-together:arrow-columns-field", f"step {si}: field {FLABEL[f]} (columns {req}) came back as {new['fields'][j]}, the list has {want}"))
    if new["ordered"] != (src["ordered"] and "rank" in req):
        v.append(("rows-together:arrow-columns-rank", f"step {si}: ordered={src['ordered']}, columns {req}: the result has ordered={new['ordered']}"))
    if new["vocab"] != (src["vocab"] if o.get("kv", True) else None):
        v.append(("rows-together:arrow-columns-vocab", f"step {si}: vocabulary {src['vocab']} became {new['vocab']}"))


def _sigma(n, s):
    t = s["t"]
    if t == "mask":
        if not s["m"]:
            return []            # NumPy accepts an empty Boolean index on any array: nothing is selected
        return [i for i, b in enumerate(s["m"]) if b] if len(s["m"]) == n else None
    if t == "idx":
        return [i % n for i in s["ix"]] if all(-n <= i < n for i in s["ix"]) else None
    if t == "scalar":
        return [s["i"] % n] if -n <= s["i"] < n else None
    if s["step"] == 0:
        return None
    return list(range(n))[slice(s["start"], s["stop"], s["step"])]


def _rows(o):
    return {"ids": o["ids"] if _ok(o["ids"]) else None, "neg": o["neg"] if _ok(o["neg"]) else None, "fields": o["fields"]}


def _expected_len(a, src):
    if a["ids"] is not None and len(a["ids"]["shape"]) == 1 and not a["ids"]["bad"]:
        return a["ids"]["shape"][0]
    if a["ids"] is None and a["nums"] is not None and len(a["nums"]["shape"]) == 1:
        return a["nums"]["shape"][0] if src is None else src["len"]
    if a["ids"] is None and a["nums"] is None:
        return src["len"] if src is not None else 0
    return None


def _isnull(x):
    return x["kind"] == "arrow" and all(d == "N" for d in x["data"])


def _dropped(f, x):
    """An Arrow array without a valid entry (all null, or empty) is dropped -- but only as a plain field: `score` and
    `rank` are converted to NumPy first (nulls become NaN) and must have the list's length like any other array."""
    return f not in (0, 1) and _isnull(x)


def _obligation_broken(case, obs):
    """The caller obligations under which the property is stated (ASSUMPTIONS): identifiers and numbers given
    together -- or a vocabulary attached to a list that was built from both without one -- agree with the
    vocabulary.  The generator only tracks list lengths approximately, so a few cases break them; those are
    outside the property's input domain (the model is still compared on them)."""
    for o, s in zip(case["ops"], obs["steps"]):
        if o["op"] not in ("new", "copy") or s["out"] is not None:
            continue
        a, src = o["args"], s["src"]
        ev = a["vocab"] if a["vocab"] is not None else (src["vocab"] if src else None)
        if ev is None or ev < 0:
            continue
        terms = case["vocabs"][ev]["terms"]
        if a["ids"] is not None and a["nums"] is not None:
            if a["nums"]["data"] != [vnum(terms, i) for i in a["ids"]["data"]]:
                return f"step {case['ops'].index(o)}: identifiers and numbers given together disagree with vocabulary {ev}"
        if (src is not None and a["ids"] is None and a["nums"] is None and a["vocab"] is not None and src["vocab"] is None
                and _ok(src["ids"]) and _ok(src["neg"]) and src["neg"] != [vnum(terms, i) for i in src["ids"]]):
            return "a vocabulary was attached to a list whose given identifiers and numbers disagree with it"
    return None


def oracle(case, obs):
    v = []
    if _obligation_broken(case, obs):
        return v
    for m in obs["fmt_bad"]:
        v.append(("format-conversion", m))
    for where, name in _unexpected(obs):
        v.append(("unexpected-exception", f"{where}: {name}"))
    for si, (o, s) in enumerate(zip(case["ops"], obs["steps"])):
        op = o["op"]
        if s["changed"]:
            v.append((f"source-changed:{op}", f"step {si} ({op}) changed the observable state of existing list(s) {s['changed']}"))
        new = s["obs"] if s["out"] is None else None
        src = s["src"]
        if s["obs"] is not None:
            _check_list(case, s["obs"], v, op)
        if s["out"] == "ENoList":
            continue
        if op in ("new", "copy"):
            a = o["args"]
            n = _expected_len(a, src)
            # wrong shapes must be rejected
            if n is not None:
                arrays = [(FLABEL[f], x) for f, x in a["fields"] if x is not False and not _dropped(f, x) and not (f == 1 and a["ordered"] is False)]
                if isinstance(a["scores"], dict) and "scalar" not in a["scores"]:
                    arrays.append(("scores", a["scores"]))
                if a["nums"] is not None and (a["ids"] is not None or src is not None):
                    arrays.append(("item_nums", a["nums"]))
                wrong = [nm for nm, x in arrays if x["shape"] != [n]]
                if op == "copy" and src is not None and n != src["len"]:
                    given = {g for g, _ in a["fields"]}
                    for j, vals in enumerate(src["fields"]):
                        f = FNAMES[j]
                        kept = vals is not None and f not in given and not (f == 0 and a["scores"] is not None)
                        if kept:
                            wrong.append("inherited " + FLABEL[f])
                # the claim is that NO LIST comes back; the class of the rejection is not part of it (a call with a
                # wrongly shaped field may fail earlier for another reason, e.g. IndexError while the identifiers of a
                # source with out-of-range numbers are computed for `vocabulary=`); the exact class per branch is compared
                # with the model in `agree`, exceptions outside the model's vocabulary are `unexpected-exception`
                if wrong and s["out"] is None:
                    v.append(("bad-shape-accepted", f"step {si}: {wrong} do not have shape [{n}] but the constructor returned a list"))
                if not wrong and o.get("bad") is None and s["out"] is not None and not (
                        op == "copy" and a["vocab"] is not None and s["out"] in ("EIndex",)):
                    v.append((f"spurious-error:{op}", f"step {si}: well-formed {op} raised {s['out']}"))
            if new is not None and op == "copy":
                # rows stay together: what was not overridden is the source's
                if a["ids"] is None and a["nums"] is None:
                    if _ok(src["ids"]) and new["ids"] != src["ids"]:
                        v.append(("rows-together:copy-ids", f"step {si}: copy changed the identifiers {src['ids']} -> {new['ids']}"))
                    if not _ok(src["ids"]) and _ok(src["neg"]) and a["vocab"] is None and new["neg"] != src["neg"]:
                        v.append(("rows-together:copy-numbers", f"step {si}: copy changed the numbers {src['neg']} -> {new['neg']}"))
                if a["ids"] is not None and new["ids"] != a["ids"]["data"]:
                    v.append(("rows-together:copy-ids-override", f"step {si}: supplied identifiers {a['ids']['data']} read back as {new['ids']}"))
                if a["ids"] is None and a["nums"] is not None and new["neg"] != a["nums"]["data"]:
                    v.append(("rows-together:copy-nums-override", f"step {si}: supplied numbers {a['nums']['data']} read back as {new['neg']}"))
                over = {f: x for f, x in a["fields"]}
                for j, f in enumerate(FNAMES):
                    want = src["fields"][j]
                    if f in over:
                        x = over[f]
                        want = None if (x is False or _dropped(f, x)) else [None if d in (None, "N") else d for d in x["data"]]
                    if f == 0:
                        sc = a["scores"]
                        if sc is False:
                            want = None
                        elif isinstance(sc, dict) and "scalar" in sc:
                            want = [sc["scalar"]] * new["len"]
                        elif isinstance(sc, dict):
                            want = [None if d in (None, "N") else d for d in sc["data"]]
                    if new["fields"][j] != want:
                        v.append(("rows-together:copy-field", f"step {si}: field {FLABEL[f]} of the copy is {new['fields'][j]}, expected {want}"))
            if new is not None and op == "new":
                if a["ids"] is not None and new["ids"] != a["ids"]["data"]:
                    v.append(("rows-together:new-ids", f"step {si}: supplied identifiers {a['ids']['data']} read back as {new['ids']}"))
                if a["nums"] is not None and new["neg"] != a["nums"]["data"]:
                    v.append(("rows-together:new-nums", f"step {si}: supplied numbers {a['nums']['data']} read back as {new['neg']}"))
        elif op == "sub":
            sg = _sigma(src["len"], o["sel"])
            if sg is None:
                if s["out"] is None:
                    v.append(("bad-selector-accepted", f"step {si}: out-of-range selector {o['sel']} on {src['len']} items was accepted"))
                continue
            if s["out"] is not None:
                v.append(("spurious-error:sub", f"step {si}: valid selector {o['sel']} raised {s['out']}"))
                continue
            if new["len"] != len(sg):
                v.append(("rows-together:sub-len", f"step {si}: {len(sg)} rows selected, result has {new['len']}"))
            for nm in ("ids", "neg"):
                if _ok(src[nm]):
                    want = [src[nm][i] for i in sg]
                    if new[nm] != want:
                        v.append((f"rows-together:sub-{nm}", f"step {si}: selecting rows {sg}: {nm} {new[nm]}, expected {want}"))
            for j, f in enumerate(FNAMES):
                want = None if src["fields"][j] is None else [src["fields"][j][i] for i in sg]
                if new["fields"][j] != want:
                    v.append(("rows-together:sub-field", f"step {si}: selecting rows {sg}: field {FLABEL[f]} {new['fields'][j]}, expected {want}"))
            if new["ordered"] != src["ordered"] or new["vocab"] != src["vocab"]:
                v.append(("rows-together:sub-meta", f"step {si}: subsetting changed ordered/vocabulary"))
        elif op in ("clone", "df", "arrow"):
            if op == "clone" and s["out"] is not None:
                v.append(("spurious-error:clone", f"step {si}: clone raised {s['out']}"))
            _by_name(o, s, si, v)
            if o.get("columns") is not None:
                _columns_round_trip(o, s, si, v)
                continue
            if new is None:
                continue
            same = 0
            for nm in ("ids", "neg"):
                if _ok(src[nm]) and _ok(new[nm]):
                    same += 1
                    if new[nm] != src[nm]:
                        v.append((f"rows-together:{op}-{nm}", f"step {si}: {op} changed {nm} {src[nm]} -> {new[nm]}"))
            if same == 0:
                v.append((f"rows-together:{op}-identity", f"step {si}: {op} result shares neither identifiers nor numbers with its source"))
            if new["fields"] != src["fields"] or new["len"] != src["len"] or new["ordered"] != src["ordered"]:
                v.append((f"rows-together:{op}-fields", f"step {si}: {op} changed fields / length / ordered flag"))
    for j, o in enumerate(obs["final"]):
        _check_list(case, o, v, "final")
    seen, out = set(), []
    for k, w in v:
        if k not in seen:
            seen.add(k)
            out.append((k, w))
    return out


def nontrivial(case, obs):
    if _obligation_broken(case, obs):
        return False
    st = list(zip(case["ops"], obs["steps"]))
    sub = any(o["op"] == "sub" and s["out"] is None for o, s in st)
    der = any(o["op"] in ("copy", "clone", "df", "arrow") and s["out"] is None for o, s in st)
    lazy = any(o["vocab"] is not None and isinstance(o["ids"], list) and isinstance(o["neg"], list) for o in obs["final"])
    return len(obs["final"]) >= 3 and sub and der and lazy


def counters(case, obs):
    if _obligation_broken(case, obs):
        yield "outside-input-domain(caller-obligation-broken)"
    yield "style=" + case["style"]
    yield "idtype=" + case["idtype"]
    yield f"ops={len(case['ops'])}"
    yield f"live-at-end={min(len(obs['final']), 9)}"
    for o, s in zip(case["ops"], obs["steps"]):
        yield f"op={o['op']}:{s['out'] or 'ok'}"
        if o["op"] == "sub":
            yield "sel=" + o["sel"]["t"]
        if o["op"] in ("new", "copy"):
            a = o["args"]
            yield f"{o['op']}-form=" + ("both" if a["ids"] and a["nums"] else "ids" if a["ids"] else "nums" if a["nums"] else "none")
            for x in [a["ids"], a["nums"], a["scores"]] + [x for _, x in a["fields"] if x]:
                if x and "kind" in x:
                    yield "container=" + x["kind"]
                    if x.get("rep") is not None:
                        yield f"spelling={x['kind']}/{x['rep']}:{len(x['shape'])}-d"
            if o["op"] == "copy" and a["vocab"] is not None and s["src"] and s["src"]["vocab"] not in (None, a["vocab"]):
                yield "copy-replaces-vocabulary"
        if o["op"] in ("df", "arrow"):
            yield f"{o['op']}-columns-permuted-before-reading=" + str(o.get("perm") is not None)
        if o["op"] == "arrow":
            yield "arrow-type=" + o.get("type", "table")
            if o.get("columns") is not None:
                names = [nm for nm, _ in o["columns"]]
                canon = [nm for nm in ["item_id", "item_num", "rank"] if nm in names]
                yield "arrow-schema=" + ("special-columns-first" if names[:len(canon)] == canon else "other-order")
                yield "arrow-schema-identity=" + ("+".join(nm for nm in ("item_id", "item_num") if nm in names) or "none")
                if any(t != "canon" for _, t in o["columns"]):
                    yield "arrow-schema-with-other-types"
        if s["obs"] and s["out"] is None and s["obs"]["len"] == 0:
            yield "touched-empty-list"
    for o in obs["final"]:
        if isinstance(o["neg"], list) and any(x < 0 for x in o["neg"]):
            yield "final-list-with-unknown-item"
            break


def sample(case, obs):
    return {"case": {"idtype": case["idtype"], "vocabs": case["vocabs"], "ops": case["ops"][:3]},
            "observation": {"outcomes": [s["out"] for s in obs["steps"]], "final": obs["final"][:2]}}


_shrunk = 0


def shrink(case, fails):
    global _shrunk
    _shrunk += 1
    if _shrunk > 5:          # cap the cost of a run in which many cases fail
        return case
    c = dict(case)
    first = case["ops"][:1]
    rest = common.shrink_list(case["ops"][1:], lambda xs: fails({**c, "ops": first + xs}), 60)
    c["ops"] = first + rest
    return c
