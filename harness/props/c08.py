"""C08 -- bias and popularity scorers equal their documented formulas (DESIGN.md section 4, C08)."""

from __future__ import annotations

from fractions import Fraction

import common
from common import cbool, clist, cnat, copt, cq, cz, fjson, fparse, frac_of_float

PID = "C08"
PROPS_FILE = "Props/C08.v"
GEN_FILES: list[str] = []
MODEL_FILES = ["Model/C08_bias.v", "Model/C08_vocab.v"]
ALLOWED_AXIOMS: list[str] = []
CASE_HEADER = ("From Coq Require Import ZArith QArith.\nFrom LK Require Import Lib.QLib Model.C08_bias Model.C08_vocab.\n"
               "Open Scope Q_scope.")
TRUSTED = [
    "Coq 8.16.1 kernel + vm_compute (no native_compute); Print Assumptions of every theorem in Props/C08.v: closed under the global context",
    "hand-written model of BiasModel.learn / compute_for_items, PopScorer._train_internal / __call__ and TimeBoundedPopScore.train "
    "(Model/C08_bias.v), tied to the source by the correspondence cases evaluated inside Coq on exact rationals "
    "(float32 results, tolerance 2^-20 relative to max(1,|value|)); the cumulative-share variant is compared through the verified checker quantile_ok_b",
    "harness/props/c08.py: exact float->rational conversion, vocabulary numbers taken from the trained objects (the model's numbers are the "
    "case's logical indexes; identifiers reach the model as integer codes: the integer itself, or the rank of a string among the case's strings "
    "in code-point order), error enum",
    "numpy / pandas (add.at, divide(where=), rank, sort_values, cumsum, value_counts, reindex) and the Dataset are exercised, not verified",
]
ASSUMPTIONS = [
    "the training data has at least one rating (numpy's mean of nothing is NaN; Q division by zero is 0 in the model)",
    "damping values are non-negative (BiasConfig enforces NonNegativeFloat)",
    "ratings in a query history are finite; (user, item) pairs are rated at most once",
    "cutoffs and timestamps are generated at half-second steps (whole seconds for integer and datetime64[s] columns), so every value is exact in its representation",
    "the zone of the process is UTC (the harness sets TZ=UTC): a naive cutoff is read as local time by datetime.timestamp(), i.e. as UTC here; "
    "UTC offsets of named zones are taken from the zone database (zoneinfo) at generation time",
]
RULE = ("structured generator: 1-8 users x 1-8 items (some without ratings), identifiers as a generated dimension (integer or string, independently "
        "for users and items; special values 0, '', negative, 2^31, 2^53+1, 2^63-1, strings whose order differs from their numeric order; the logical "
        "order is unrelated to the identifier order; unknown identifiers may be the falsy ones), dataset assembly as a generated dimension "
        "(from_interactions_df, or DatasetBuilder with entities declared in several batches / inserted by 1-3 interaction batches / added last, so "
        "the vocabularies are in arrival order), rating value domain as a generated dimension (0.5-5 stars, a scale from 0 with frequent "
        "exact zeros, like/dislike 1/0, mean-centred values with negatives; a user or item whose ratings are all 0; histories on the same scale), "
        "timestamp representation as a "
        "generated dimension (integer seconds, float seconds, datetime64[s|ms|us|ns] tz-naive or tz-aware in UTC / America/Denver / Asia/Kolkata, "
        "or no timestamps), datasets built with DatasetBuilder or from_interactions_df, damping scalar, per-entity dict (possibly missing a key) or (user, item) "
        "tuple with values in {0, 1/2, 5, ...}, every subset of {user, item}, 2-5 queries (known / unknown / no user, rated history with "
        "unknown items, empty history, history without ratings; given as RecQuery, bare identifier, NumPy scalar, item list or None; item lists "
        "(scored items, histories, popularity probes) by identifier, by number with the dataset's vocabulary, or by number with a vocabulary of "
        "their own: same length as the training vocabulary with other members / another order, permuted, superset, shorter, longer), all three "
        "popularity variants of PopScorer and TimeBoundedPopScore scored for a probe list and for the whole catalogue, 3 cutoffs before/inside/after the data; "
        "representation of the cutoff as a generated dimension (datetime / pandas Timestamp / ISO-8601 string, each naive, aware in UTC, aware with a fixed "
        "offset of +5 h, -8 h, +5:30, -3:30, +13 h, +-1 h, or aware in a named zone; epoch seconds; numpy datetime64, refused), the input being the clock "
        "reading plus the offset; interactions minutes or hours apart, so that a cutoff moved by its offset falls outside or inside the data; "
        "edge stream: single rating, constant ratings, one user or one item.  non-trivial = at least 3 ratings with 2 distinct values, "
        "2 distinct item counts and a query with a rated history; distinct = by hash of the case")

TOL = "tol32"
VARIANTS = ["count", "rank", "quantile"]
CVAR = {"count": "VCount", "rank": "VRank", "quantile": "VQuantile"}
DAMPS = ["0/1", "1/2", "5/1", "2/1", "1/4", "25/1"]
TICKS = {"s": 1, "ms": 10**3, "us": 10**6, "ns": 10**9}


# ---------------------------------------------------------------------------------------------
# generator
# ---------------------------------------------------------------------------------------------


INT_SPECIAL = [0, -1, 1, -7, 2**31 - 1, 2**31, -2**31 - 1, 2**40 + 3, 2**53 + 1, 2**62, -2**62, 2**63 - 1]
STR_SPECIAL = ["", " ", "0", "-1", "a", "A", "B", "b", "10", "9", "09", "\u00fc", "Z", "\u00e9", "i", "u"]
FALSY = {"int": 0, "str": ""}


def gen_ids(rng, kind, n, avoid=(), prefix="i"):
    """n distinct identifiers of one kind; special values (falsy, negative, very large, strings that do not sort like
    numbers) are frequent, and the order of the list (the logical order) is unrelated to the order of the values"""
    out = []
    while len(out) < n:
        if rng.chance(2, 5):
            x = rng.choice(INT_SPECIAL if kind == "int" else STR_SPECIAL)
        elif kind == "int":
            x = rng.randint(-20, 400)
        else:
            x = rng.choice([prefix, prefix.upper(), ""]) + str(rng.below(120))
        if x not in out and x not in avoid:
            out.append(x)
    return out


def gen_identifiers(rng, nu, ni):
    ids = {}
    for ent, n, pre in (("u", nu, "u"), ("i", ni, "i")):
        kind = rng.choice(["int", "str"])
        known = gen_ids(rng, kind, n, prefix=pre)
        if FALSY[kind] not in known and rng.chance(1, 3):
            known[rng.below(n)] = FALSY[kind]
        unknown = gen_ids(rng, kind, 3, avoid=known, prefix=pre)
        if FALSY[kind] not in known and FALSY[kind] not in unknown and rng.chance(1, 2):
            unknown[0] = FALSY[kind]
        # further identifiers unknown to the dataset that only ever occur inside the vocabulary of an item list
        extra = gen_ids(rng, kind, 4, avoid=known + unknown, prefix=pre)
        ids[ent] = (kind, known, unknown, extra)
    return ids


SCALES = [("half-stars", 4), ("zero-based", 3), ("binary", 2), ("centred", 3)]


def gen_rating(rng, scale):
    """one rating value of the dataset's scale: 0.5-5 stars, a scale that starts at 0 (the stored value 0 is frequent),
    like / dislike as 1 / 0, or mean-centred values (negative, zero, positive)"""
    if scale == "zero-based":
        return Fraction(0) if rng.chance(1, 3) else Fraction(rng.randint(0, 10), 2)
    if scale == "binary":
        return Fraction(rng.below(2))
    if scale == "centred":
        return Fraction(rng.randint(-5, 5), 2)
    return Fraction(rng.randint(1, 10), 2)


FOREIGN_FILL = ["x0", "x1", "x2", "y0", "y1", "y2", "y3"]


def gen_fvocab(rng, ni, listed):
    """the vocabulary an item list carries when it is not the dataset's: the listed items plus others, in an order of its own.
    same-length = as many entries as the training vocabulary (another split / catalogue slice of equal size), permuted = the
    training items in another order, superset, shorter, longer.  Entries are logical item indexes, "x<k>" (the unknown
    identifiers the lists use) or "y<k>" (identifiers that occur nowhere else)."""
    needed = []
    for x in listed:
        if x not in needed:
            needed.append(x)
    known = list(range(ni))
    pool = [x for x in known + FOREIGN_FILL if x not in needed]
    kind = rng.weighted([("same-length", 5), ("permuted", 2), ("superset", 2), ("shorter", 1), ("longer", 1)])
    if kind == "permuted" and (ni < 2 or any(isinstance(x, str) for x in needed)):
        kind = "same-length"
    if kind == "same-length" and len(needed) > ni:
        kind = "longer"
    if kind == "shorter" and max(1, len(needed)) >= ni:
        kind = "longer"
    if kind == "permuted":
        vocab = rng.shuffle(known)
        if vocab == known:
            vocab = vocab[1:] + vocab[:1]
    elif kind == "superset":
        vocab = rng.shuffle(known + FOREIGN_FILL[:3] + FOREIGN_FILL[3:][:rng.randint(0, 4)])
    else:
        if kind == "same-length":
            size = ni
        elif kind == "shorter":
            size = rng.randint(max(1, len(needed)), ni - 1)
        else:
            size = max(ni, len(needed)) + rng.randint(1, 3)
        vocab = rng.shuffle(needed + rng.sample(pool, size - len(needed)))
    return {"kind": kind, "vocab": vocab}


def gen_by_number(rng, ni, listed, weights):
    how = rng.weighted(weights)
    return gen_fvocab(rng, ni, listed) if how == "foreign" else how


def gen_assembly(rng, nu, ni):
    """how a DatasetBuilder dataset is put together: which entities are declared before the interactions and in how many
    batches, how many interaction batches there are (rating rows carry their batch), and how the rest is added at the end"""
    def batches(idx):
        idx = rng.shuffle(idx)
        k = rng.randint(1, min(3, max(1, len(idx))))
        cuts = sorted(rng.sample(list(range(1, len(idx))), k - 1)) if len(idx) > 1 else []
        return [b for b in (idx[a:z] for a, z in zip([0] + cuts, cuts + [len(idx)])) if b]
    mode = rng.weighted([("declared", 3), ("insert", 3), ("mixed", 3)])
    pre = {}
    for ent, n in (("user", nu), ("item", ni)):
        if mode == "declared":
            pre[ent] = batches(list(range(n)))
        elif mode == "insert":
            pre[ent] = []
        else:
            pre[ent] = batches(rng.subset(range(n), 1, 2))
    return {"mode": mode, "pre": pre, "first": rng.choice(["user", "item"]), "nbatch": rng.randint(1, 3),
            "missing_known": rng.choice(["error", "insert"]), "tail": rng.choice(["one", "each"]),
            "tail_order": [rng.shuffle(list(range(nu))), rng.shuffle(list(range(ni)))]}


def gen_case(rng, edge=False):
    style = "regular"
    sizes = [(1, 1), (2, 2), (3, 3), (4, 3), (5, 3), (6, 3), (7, 2), (8, 3)]
    nu, ni = rng.weighted(sizes), rng.weighted(sizes)
    if edge:
        style = rng.choice(["single-rating", "constant", "one-user", "one-item", "dense"])
        if style == "one-user":
            nu = 1
        if style == "one-item":
            ni = 1
    pairs = [(u, i) for u in range(nu) for i in range(ni)]
    if style == "single-rating":
        chosen = [rng.choice(pairs)]
    elif style == "dense":
        chosen = pairs
    else:
        # leave some users / items without ratings on purpose
        dead_u = set(rng.subset(range(nu), 1, 5)) if nu > 1 else set()
        dead_i = set(rng.subset(range(ni), 1, 5)) if ni > 1 else set()
        live = [(u, i) for u, i in pairs if u not in dead_u and i not in dead_i] or pairs
        k = rng.randint(max(1, len(live) // 3), min(len(live), 24))
        chosen = rng.sample(live, k)
    build = rng.weighted([("builder", 3), ("df", 2)])
    if build == "df":
        # from_interactions_df only knows entities that occur: give every user and item a rating
        chosen = list(chosen)
        for u in range(nu):
            if not any(c[0] == u for c in chosen):
                chosen.append((u, rng.below(ni)))
        for i in range(ni):
            if not any(c[1] == i for c in chosen):
                chosen.append((rng.below(nu), i))
    scale = rng.weighted(SCALES)
    const = fjson(gen_rating(rng, scale))
    base = rng.choice([0, 1_600_000_000])
    idents = gen_identifiers(rng.fork("ids"), nu, ni)
    assembly = gen_assembly(rng.fork("assembly"), nu, ni)
    ratings = []
    for u, i in rng.shuffle(chosen):
        r = const if style == "constant" else fjson(gen_rating(rng, scale))
        ratings.append([u, i, r, base + rng.randint(1, 12) * 100, rng.below(2), rng.below(assembly["nbatch"])])
    if scale != "half-stars" and rng.chance(1, 3):
        # a user or an item all of whose stored ratings are exactly 0
        col, who = rng.choice([(0, rng.below(nu)), (1, rng.below(ni))])
        for r in ratings:
            if r[col] == who:
                r[2] = fjson(Fraction(0))
    form = rng.weighted([("scalar", 4), ("dict", 4), ("tuple", 2)])
    if form == "scalar":
        d = rng.choice(DAMPS)
        damping = {"form": form, "user": d, "item": d}
    else:
        damping = {"form": form, "user": rng.choice(DAMPS), "item": rng.choice(DAMPS)}
        if form == "dict":
            for k in ("user", "item"):
                if rng.chance(1, 4):
                    damping[k] = None            # key absent -> 0
    entities = rng.weighted([(["user", "item"], 5), (["item"], 2), (["user"], 2), ([], 1)])
    path = "learn" if form == "tuple" else rng.weighted([("scorer", 3), ("learn", 1)])
    queries = []
    for _ in range(rng.randint(2, 5)):
        # a known user whose identifier is falsy is asked about more often than the others
        special = [u for u in range(nu) if idents["u"][1][u] == FALSY[idents["u"][0]]]
        user = rng.weighted([(rng.below(nu), 5), (rng.choice(special or [rng.below(nu)]), 2), ("unknown", 2), (None, 1)])
        hk = rng.weighted([("none", 3), ("rated", 5), ("empty", 1), ("unrated", 1)])
        hist = None
        if hk != "none":
            hitems = []
            if hk != "empty":
                ids = rng.sample(list(range(ni)), rng.randint(0, min(ni, 4))) + [f"x{k}" for k in rng.subset(range(3), 1, 3)]
                hitems = [[x, fjson(gen_rating(rng, scale))] for x in rng.shuffle(ids)]
            hist = {"rated": hk != "unrated", "items": hitems}
        items = rng.sample(list(range(ni)), rng.randint(0, ni)) + [f"x{k}" for k in rng.subset(range(3), 1, 3)]
        if rng.chance(1, 6) and items:
            items.append(items[0])
        if hist is None:
            form = rng.weighted([("recquery", 2), ("bare", 3), ("np-scalar", 1)]) if user is not None else rng.choice(["recquery", "none"])
        else:
            form = "recquery" if user is not None else rng.choice(["recquery", "itemlist"])
        items = rng.shuffle(items)
        weights = [(None, 4), ("dataset", 2), ("foreign", 4)]
        queries.append({"user": user, "hist": hist, "items": items, "form": form,
                        "by_number": [gen_by_number(rng, ni, items, weights),
                                      gen_by_number(rng, ni, [x for x, _ in hist["items"]] if hist else [], weights)]})
    trep = rng.weighted([("int", 3), ("float", 2), ("date", 10), ("none", 1)])
    unit = rng.choice(["s", "ms", "us", "ns"])
    tz = rng.weighted([(None, 3), ("UTC", 2), ("America/Denver", 1), ("Asia/Kolkata", 1)])
    if trep in ("int",) or (trep == "date" and unit == "s"):
        for r in ratings:
            r[4] = 0                      # whole seconds only
    crng = rng.fork("cutoff-representation")
    if crng.chance(1, 3):
        # interactions hours apart (instead of minutes), so that a cutoff moved by a UTC offset can stay inside the data
        for r in ratings:
            r[3] = base + (r[3] - base) * 36
    times = sorted({r[3] for r in ratings})
    cut = [times[0] - 50, rng.choice(times), times[-1] + 50, rng.choice(times) + rng.choice([-50, 50])]
    cutoffs = [fjson(Fraction(2 * c + rng.weighted([(0, 3), (1, 1)]), 2)) for c in rng.sample(cut, 3)]
    cutreps = [gen_cutrep(crng, fparse(c)) for c in cutoffs]
    pop_items = rng.shuffle(rng.sample(list(range(ni)), rng.randint(0, ni)) + [f"x{k}" for k in rng.subset(range(3), 1, 2)])
    return {"ukind": idents["u"][0], "uids": idents["u"][1], "unk_uids": idents["u"][2],
            "ikind": idents["i"][0], "iids": idents["i"][1], "unk_iids": idents["i"][2], "extra_iids": idents["i"][3],
            "assembly": assembly, "scale": scale,
            "nu": nu, "ni": ni, "ratings": ratings, "damping": damping,
            "entities": entities, "path": path, "queries": queries, "trep": trep, "unit": unit, "tz": tz,
            "build": build, "cutoffs": cutoffs, "cutreps": cutreps, "pop_items": pop_items, "style": style,
            "pop_by_number": gen_by_number(rng, ni, pop_items, [(None, 2), ("dataset", 1), ("foreign", 4)])}


CUT_OFFSETS = [5 * 3600, -8 * 3600, 5 * 3600 + 1800, -(3 * 3600 + 1800), 13 * 3600, 3600, -3600, 0]
CUT_ZONES = ["America/Denver", "Asia/Kolkata", "Europe/Berlin", "Pacific/Auckland", "UTC"]
DEFAULT_CUTREP = {"kind": "py", "zone": "utc", "off": 0}


def zone_offset(zone, instant):
    """UTC offset (seconds) of a named zone at an instant, from the zone database"""
    import datetime
    import zoneinfo
    return int(datetime.datetime.fromtimestamp(int(instant), zoneinfo.ZoneInfo(zone)).utcoffset().total_seconds())


def gen_cutrep(rng, instant):
    """how the cutoff is handed to the scorer.  The input is a clock reading plus the clock's UTC offset (the instant of
    the case is reading - offset): a datetime or pandas Timestamp that is naive, aware in UTC, aware with a fixed non-UTC
    offset or aware in a named zone; an ISO-8601 string (as in a JSON configuration) without offset, with Z or with
    +hh:mm; a number of epoch seconds; a numpy datetime64 (which the configuration refuses)."""
    kind = rng.weighted([("py", 6), ("pd", 3), ("iso", 3), ("epoch", 1), ("np", 1)])
    if kind in ("epoch", "np"):
        return {"kind": kind, "zone": None, "off": 0}
    zone = rng.weighted([("naive", 2), ("utc", 2), ("fixed", 5), ("named", 3 if kind != "iso" else 0)])
    if zone == "fixed":
        return {"kind": kind, "zone": "fixed", "off": rng.choice(CUT_OFFSETS)}
    if zone == "named":
        name = rng.choice(CUT_ZONES)
        return {"kind": kind, "zone": name, "off": zone_offset(name, instant)}
    return {"kind": kind, "zone": zone, "off": 0}


def cutreps_of(case):
    reps = case.get("cutreps") or []
    return [reps[k] if k < len(reps) else DEFAULT_CUTREP for k in range(len(case["cutoffs"]))]


def cutrep_label(cr):
    z = cr["zone"]
    where = ("" if z is None else "naive" if z == "naive" else "aware UTC" if z == "utc"
             else f"aware, fixed offset {cr['off']:+d} s" if z == "fixed" else f"aware, zone {z} (offset {cr['off']:+d} s)")
    what = {"py": "datetime", "pd": "pandas Timestamp", "iso": "ISO-8601 string", "epoch": "epoch seconds",
            "np": "numpy datetime64"}[cr["kind"]]
    return what + (f" ({where})" if where else "")


def gen_cases(rng, tier):
    n = 400 if tier == "quick" else 4000
    return [gen_case(rng.fork(k), edge=(k % 6 == 5)) for k in range(n)]


# ---------------------------------------------------------------------------------------------
# implementation driver
# ---------------------------------------------------------------------------------------------

_ready = False


def _setup():
    global _ready, np, pd, dt, DatasetBuilder, ItemList, RecQuery, Vocabulary, BiasModel, BiasScorer, PopScorer, TimeBoundedPopScore
    if _ready:
        return
    common.use_repo()
    import datetime as dt
    import os
    import time

    # a naive cutoff is read in the zone of the process (datetime.timestamp()): pin it, so that "naive" means UTC
    os.environ["TZ"] = "UTC"
    time.tzset()

    import numpy as np
    import pandas as pd
    from lenskit.basic.bias import BiasModel, BiasScorer
    from lenskit.basic.popularity import PopScorer, TimeBoundedPopScore
    from lenskit.data import DatasetBuilder, ItemList, RecQuery, Vocabulary

    _ready = True


def uid(case, u):
    return case["unk_uids"][0] if u == "unknown" else case["uids"][u]


def iid(case, i):
    if isinstance(i, str):          # "x<k>": not in the vocabulary; "y<k>": only ever inside a list's own vocabulary
        return (case["extra_iids"] if i[0] == "y" else case["unk_iids"])[int(i[1:])]
    return case["iids"][i]


def list_vocab(case, items, by_number):
    """the vocabulary an item list carries: None (given by identifier), "dataset", or the entries of a vocabulary of its own"""
    if by_number == "dataset":
        return None if any(isinstance(x, str) for x in items) else "dataset"
    if by_number == "foreign":      # earlier form: everything, reversed
        return (list(range(case["ni"])) + ["x0", "x1", "x2"])[::-1]
    if isinstance(by_number, dict):
        return by_number["vocab"]
    return None


def vocab_label(case, items, by_number):
    lv = list_vocab(case, items, by_number)
    if lv is None:
        return "given by identifier"
    if lv == "dataset":
        return "numbered with the dataset's vocabulary"
    kind = by_number["kind"] if isinstance(by_number, dict) else "superset"
    return (f"numbered with a vocabulary of its own ({kind}, {len(lv)} entries, training vocabulary has {case['ni']}): "
            f"{[iid(case, x) for x in lv]!r}")


def _num(x):
    return fjson(frac_of_float(x))


def _nums(a):
    return [_num(v) for v in np.asarray(a, dtype=float).tolist()]


def _id_array(kind, ids):
    if kind == "int":
        return np.array(ids, dtype=np.int64)
    arr = np.empty(len(ids), dtype=object)
    arr[:] = ids
    return arr


def _ilist(case, items, ratings=None, by_number=None, ds=None):
    """an item list by identifier, or by number: with the dataset's vocabulary (all items known), or with a vocabulary of
    its own that numbers known and unknown identifiers differently from the dataset (foreign)"""
    fields = {}
    if ratings is not None:
        fields["rating"] = np.array([float(fparse(r)) for r in ratings], dtype=np.float64)
    vocabulary = None
    lv = list_vocab(case, items, by_number)
    if lv == "dataset":
        vocabulary = ds.items
    elif lv is not None:
        vocabulary = Vocabulary(_id_array(case["ikind"], [iid(case, x) for x in lv]), "item", reorder=False)
    if vocabulary is not None:
        nums = np.array([vocabulary.number(iid(case, x)) for x in items], dtype=np.int32)
        return ItemList(item_nums=nums, vocabulary=vocabulary, **fields)
    return ItemList(item_ids=_id_array(case["ikind"], [iid(case, x) for x in items]), **fields)


def _damping_arg(dm):
    f = lambda k: float(fparse(dm[k]))
    if dm["form"] == "scalar":
        return f("user")
    if dm["form"] == "tuple":
        return (f("user"), f("item"))
    return {k: f(k) for k in ("user", "item") if dm[k] is not None}


def make_cutoff(instant, cr):
    """the cutoff object from the clock reading (instant + offset) and the clock's zone"""
    import zoneinfo
    wall = instant + cr["off"]
    whole = wall.numerator // wall.denominator
    wall_dt = dt.datetime(1970, 1, 1) + dt.timedelta(seconds=whole, microseconds=int((wall - whole) * 10**6))
    z = cr["zone"]
    tz = (None if z in (None, "naive") else dt.timezone.utc if z == "utc"
          else dt.timezone(dt.timedelta(seconds=cr["off"])) if z == "fixed" else zoneinfo.ZoneInfo(z))
    if cr["kind"] == "py":
        return wall_dt.replace(tzinfo=tz)
    if cr["kind"] == "pd":
        ts = pd.Timestamp(wall_dt)
        return ts if tz is None else ts.tz_localize(z if z not in ("utc", "fixed") else tz)
    if cr["kind"] == "iso":
        if tz is None:
            return wall_dt.isoformat()
        if z == "utc":
            return wall_dt.isoformat() + "Z"
        return wall_dt.replace(tzinfo=dt.timezone(dt.timedelta(seconds=cr["off"]))).isoformat()
    if cr["kind"] == "epoch":
        return int(instant) if instant.denominator == 1 else float(instant)
    if cr["kind"] == "np":
        return np.datetime64(wall_dt, "us")
    raise ValueError(cr["kind"])


def build_dataset(case):
    df = pd.DataFrame({
        "user_id": [uid(case, r[0]) for r in case["ratings"]],
        "item_id": [iid(case, r[1]) for r in case["ratings"]],
        "rating": [float(fparse(r[2])) for r in case["ratings"]],
    })
    half = [Fraction(2 * r[3] + r[4], 2) for r in case["ratings"]]
    if case["trep"] == "int":
        df["timestamp"] = np.array([r[3] for r in case["ratings"]], dtype=np.int64)
    elif case["trep"] == "float":
        df["timestamp"] = np.array([float(h) for h in half], dtype=np.float64)
    elif case["trep"] == "date":
        per = TICKS[case["unit"]]
        ticks = np.array([int(h * per) for h in half], dtype=np.int64)
        col = pd.Series(ticks.astype(f"datetime64[{case['unit']}]"))
        if case["tz"]:
            col = col.dt.tz_localize("UTC").dt.tz_convert(case["tz"])
        df["timestamp"] = col
    df["user_id"] = _id_array(case["ukind"], list(df["user_id"]))
    df["item_id"] = _id_array(case["ikind"], list(df["item_id"]))
    if case.get("build", "builder") == "df":
        from lenskit.data import from_interactions_df
        return from_interactions_df(df)
    asm = case["assembly"]
    dsb = DatasetBuilder()
    known = {"user": set(), "item": set()}
    ident = {"user": lambda k: uid(case, k), "item": lambda k: iid(case, k)}
    kind = {"user": case["ukind"], "item": case["ikind"]}

    def declare(ent, idx):
        idx = [k for k in idx if k not in known[ent]]
        if idx:
            dsb.add_entities(ent, _id_array(kind[ent], [ident[ent](k) for k in idx]))
            known[ent].update(idx)

    order = [asm["first"], "item" if asm["first"] == "user" else "user"]
    for ent in order:
        for batch in asm["pre"][ent]:
            declare(ent, batch)
    first = True
    for b in range(asm["nbatch"]):
        rows = [k for k, r in enumerate(case["ratings"]) if r[5] == b]
        if not rows:
            continue
        us, its = {case["ratings"][k][0] for k in rows}, {case["ratings"][k][1] for k in rows}
        all_known = us <= known["user"] and its <= known["item"]
        dsb.add_interactions("rating", df.iloc[rows].reset_index(drop=True), entities=["user", "item"],
                             missing=asm["missing_known"] if all_known else "insert", **({"default": True} if first else {}))
        first = False
        known["user"] |= us
        known["item"] |= its
    for ent, n, tord in (("user", case["nu"], asm["tail_order"][0]), ("item", case["ni"], asm["tail_order"][1])):
        rest = [k for k in tord if k < n and k not in known[ent]]
        if asm["tail"] == "one":
            declare(ent, rest)
        else:
            for k in rest:
                declare(ent, [k])
    return dsb.build()


def _is_sorted(ids):
    return all(a < b for a, b in zip(ids, ids[1:]))


def run_impl(case):
    _setup()
    ds = build_dataset(case)
    inum = [int(ds.items.number(iid(case, i))) for i in range(case["ni"])]
    unum = [int(ds.users.number(uid(case, u))) for u in range(case["nu"])]
    obs = {}
    tab = ds.interaction_table(format="pandas", original_ids=True)
    obs["ts_dtype"] = str(tab["timestamp"].dtype) if "timestamp" in tab.columns else None
    ents = set(case["entities"])
    darg = _damping_arg(case["damping"])
    if case["path"] == "scorer":
        scorer = BiasScorer(entities=ents, damping=darg)
        scorer.train(ds)
    else:
        scorer = BiasScorer()
        scorer.model_ = BiasModel.learn(ds, darg, entities=frozenset(ents))
    m = scorer.model_
    obs["global"] = _num(m.global_bias)
    obs["item_biases"] = None if m.item_biases is None else [_num(m.item_biases[k]) for k in inum]
    obs["user_biases"] = None if m.user_biases is None else [_num(m.user_biases[k]) for k in unum]
    obs["bias_dtype"] = [str(a.dtype) for a in (m.item_biases, m.user_biases) if a is not None]
    obs["vocab_sorted"] = [_is_sorted(list(ds.users.ids())), _is_sorted(list(ds.items.ids()))]
    qs = []
    for q in case["queries"]:
        by_num = q.get("by_number", [None, None])
        hist = None
        if q["hist"] is not None:
            hist = _ilist(case, [x for x, _ in q["hist"]["items"]],
                          [r for _, r in q["hist"]["items"]] if q["hist"]["rated"] else None,
                          by_number=by_num[1], ds=ds)
        user = None if q["user"] is None else uid(case, q["user"])
        form = q.get("form", "recquery")
        if form == "bare":                      # a bare identifier
            rq = user
        elif form == "np-scalar":               # the identifier as a NumPy scalar, as read from an array
            rq = np.int64(user) if case["ukind"] == "int" else np.str_(user)
        elif form == "none":
            rq = None
        elif form == "itemlist":                # the history alone
            rq = hist
        else:
            rq = RecQuery(user_id=user, user_items=hist)
        res = scorer(rq, _ilist(case, q["items"], by_number=by_num[0], ds=ds))
        ok_ids = list(res.ids()) == [iid(case, x) for x in q["items"]]
        qs.append({"scores": _nums(res.scores()), "aligned": ok_ids})
    obs["queries"] = qs
    pop = {}
    everything = list(range(case["ni"])) + ["x0"]
    for v in VARIANTS:
        p = PopScorer(score=v)
        try:
            p.train(ds)
        except TypeError as e:
            pop[v] = {"scores": "EType", "call": [], "all": [], "dtype": "", "msg": str(e)[:100]}
            continue
        sc = p.item_scores_
        called = p(_ilist(case, case["pop_items"], by_number=case.get("pop_by_number"), ds=ds))
        whole = p(_ilist(case, everything))
        pop[v] = {"scores": [_num(sc[k]) for k in inum], "call": _nums(called.scores()), "all": _nums(whole.scores()),
                  "dtype": str(sc.dtype)}
    obs["pop"] = pop
    tb = []
    for c, cr in zip(case["cutoffs"], cutreps_of(case)):
        cutoff = make_cutoff(fparse(c), cr)
        row = {}
        for v in VARIANTS:
            try:
                p = TimeBoundedPopScore(score=v, cutoff=cutoff)
            except ValueError as e:           # pydantic's ValidationError: the configuration refuses the value
                row[v] = "EReject"
                row["msg"] = str(e)[:100]
                continue
            try:
                p.train(ds)
                row[v] = [_num(p.item_scores_[k]) for k in inum]
                row[v + "-call"] = _nums(p(_ilist(case, everything)).scores())
                row[v + "-probe"] = _nums(p(_ilist(case, case["pop_items"], by_number=case.get("pop_by_number"), ds=ds)).scores())
            except TypeError as e:
                row[v] = "EType"
                row["msg"] = str(e)[:100]
            except Exception as e:  # noqa: BLE001
                row[v] = "EOther"
                row["msg"] = f"{type(e).__name__}: {e}"[:100]
        tb.append(row)
    obs["tb"] = tb
    return obs


# ---------------------------------------------------------------------------------------------
# model side
# ---------------------------------------------------------------------------------------------


def c_ref(x):
    return "None" if isinstance(x, str) else f"(Some {cnat(x)})"


def c_oq(v):
    return copt(None if v is None else fparse(v), cq)


def c_qs(vs):
    return clist(vs, lambda v: cq(fparse(v)))


def _damp_vals(dm):
    return {k: (Fraction(0) if dm[k] is None else fparse(dm[k])) for k in ("user", "item")}


def _raw_time(case, r):
    """the stored value: seconds for numeric columns, ticks of the column's resolution for date-time ones"""
    h = Fraction(2 * r[3] + r[4], 2)
    return h * TICKS[case["unit"]] if case["trep"] == "date" else h


def rep_label(case):
    if case["trep"] != "date":
        return case["trep"]
    return f"datetime64[{case['unit']}" + (f",{case['tz']}]" if case["tz"] else "]")


def id_codes(kind, ids):
    """identifiers as integers for the model: the integer itself, or the rank of the string in code-point order"""
    if kind == "int":
        return {x: x for x in ids}
    return {x: k for k, x in enumerate(sorted(set(ids)))}


def coq_term(case, obs):
    dv = _damp_vals(case["damping"])
    ei, eu = "item" in case["entities"], "user" in case["entities"]
    rs = clist(case["ratings"], lambda r: f"({cnat(r[0])}, {cnat(r[1])}, {cq(fparse(r[2]))})")
    cu = id_codes(case["ukind"], case["uids"] + case["unk_uids"])
    ci = id_codes(case["ikind"], case["iids"] + case["unk_iids"] + case.get("extra_iids", []))
    c_item = lambda x: cz(ci[iid(case, x)])

    def c_ilist(items, by_number):
        """the list as the caller built it: by identifier, or by number against the dataset's vocabulary (the model's
        numbers are the logical indexes) / a vocabulary of its own"""
        lv = list_vocab(case, items, by_number)
        if lv is None:
            return f"(ByIds {clist(items, c_item)})"
        if lv == "dataset":
            return f"(ByNums iv {clist(items, cnat)})"
        return f"(ByNums {clist(lv, c_item)} {clist(items, lambda x: cnat(lv.index(x)))})"
    parts = []
    if any(v is None for v in [obs["global"]] + (obs["item_biases"] or []) + (obs["user_biases"] or [])):
        return "false"
    ib = "None" if obs["item_biases"] is None else f"(Some {c_qs(obs['item_biases'])})"
    ub = "None" if obs["user_biases"] is None else f"(Some {c_qs(obs['user_biases'])})"
    parts.append(f"agree_model {TOL} m {cq(fparse(obs['global']))} {ib} {ub}")
    for q, qo in zip(case["queries"], obs["queries"]):
        if not qo["aligned"] or any(s is None for s in qo["scores"]):
            return "false"
        user = "None" if q["user"] is None else f"(Some {cz(cu[uid(case, q['user'])])})"
        by_num = q.get("by_number", [None, None])
        if q["hist"] is None or not q["hist"]["rated"]:
            hist = "None"
        else:
            hist = (f"(Some ({c_ilist([x for x, _ in q['hist']['items']], by_num[1])}, "
                    f"{clist(q['hist']['items'], lambda p: cq(fparse(p[1])))}))")
        parts.append(f"agree_qs {TOL} (bias_scores_list m d uv iv {user} {hist} {c_ilist(q['items'], by_num[0])}) {c_qs(qo['scores'])}")
    log_items = clist(case["ratings"], lambda r: cnat(r[1]))
    everything = list(range(case["ni"])) + ["x0"]
    for v in VARIANTS:
        po = obs["pop"][v]
        if isinstance(po["scores"], str):
            return "false"
        sc = clist(po["scores"], c_oq)
        parts.append(f"agree_pop_ids {TOL} iv {CVAR[v]} (all_counts {cnat(case['ni'])} {log_items}) {sc}")
        parts.append(f"all2 (agree_opt {TOL}) (pop_call_list iv {sc} {c_ilist(case['pop_items'], case.get('pop_by_number'))}) {clist(po['call'], c_oq)}")
        parts.append(f"all2 (agree_opt {TOL}) (pop_call_ids iv {sc} {clist(everything, c_item)}) {clist(po['all'], c_oq)}")
    log = clist(case["ratings"], lambda r: f"({cnat(r[1])}, {cq(_raw_time(case, r))})")
    rep = f"(TDate {cq(TICKS[case['unit']])})" if case["trep"] == "date" else "TNum"
    if case["trep"] == "date":
        # the dataset must have kept the column date-time typed at the generated resolution
        want = f"datetime64[{case['unit']}" + (f", {case['tz']}]" if case["tz"] else "]")
        if obs.get("ts_dtype") != want:
            return "false"
    for c, cr, row in zip(case["cutoffs"], cutreps_of(case), obs["tb"]):
        for v in VARIANTS:
            if row[v] == "EReject" and cr["kind"] == "np":
                continue
            if isinstance(row[v], str):
                return "false"
            if case["trep"] == "none":
                counts = f"(all_counts {cnat(case['ni'])} {log_items})"
            else:
                # the cutoff as given: clock reading and the clock's UTC offset
                given = f"{{| c_wall := {cq(fparse(c) + cr['off'])}; c_off := {cq(Fraction(cr['off']))} |}}"
                counts = f"(tb_counts {cnat(case['ni'])} {rep} (cut_instant {given}) {log})"
            sc = clist(row[v], c_oq)
            parts.append(f"agree_pop_ids {TOL} iv {CVAR[v]} {counts} {sc}")
            parts.append(f"all2 (agree_opt {TOL}) (pop_call_ids iv {sc} {clist(everything, c_item)}) {clist(row[v + '-call'], c_oq)}")
            if v + "-probe" in row:
                parts.append(f"all2 (agree_opt {TOL}) (pop_call_list iv {sc} {c_ilist(case['pop_items'], case.get('pop_by_number'))}) "
                             f"{clist(row[v + '-probe'], c_oq)}")
    body = " && ".join(f"({p})" for p in parts)
    return (f"(let d := {{| d_user := {cq(dv['user'])}; d_item := {cq(dv['item'])} |}} in "
            f"let uv : vocab := {clist(case['uids'], lambda x: cz(cu[x]))} in let iv : vocab := {clist(case['iids'], lambda x: cz(ci[x]))} in "
            f"let m := learn {cnat(case['nu'])} {cnat(case['ni'])} {rs} d {cbool(ei)} {cbool(eu)} in {body})")


# ---------------------------------------------------------------------------------------------
# the property as a predicate on implementation output (documented formulas in Fraction arithmetic)
# ---------------------------------------------------------------------------------------------


def _close(got, want, tol=Fraction(1, 200000)):
    if got is None or want is None:
        return got is None and want is None
    return abs(fparse(got) - want) <= tol * max(1, abs(want))


def doc_offsets(case):
    """b_g, b_i, b_u by the documented formulas (zero where count + damping is 0)."""
    dv = _damp_vals(case["damping"])
    R = [(u, i, fparse(r)) for u, i, r, *_ in case["ratings"]]
    g = sum(r for _, _, r in R) / len(R)
    bi = None
    if "item" in case["entities"]:
        bi = []
        for i in range(case["ni"]):
            Ri = [r for _, j, r in R if j == i]
            den = len(Ri) + dv["item"]
            bi.append(sum(r - g for r in Ri) / den if den > 0 else Fraction(0))
    bu = None
    if "user" in case["entities"]:
        bu = []
        for u in range(case["nu"]):
            Ru = [(j, r) for w, j, r in R if w == u]
            den = len(Ru) + dv["user"]
            bu.append(sum(r - g - (bi[j] if bi is not None else 0) for j, r in Ru) / den if den > 0 else Fraction(0))
    return g, bi, bu


def doc_pop(variant, counts):
    """item scores by the variants' definitions; for quantile returns a validity predicate instead"""
    if variant == "count":
        return [Fraction(c) for c in counts]
    if variant == "rank":
        return [Fraction(sum(1 for x in counts if x < c)) + Fraction(sum(1 for x in counts if x == c) + 1, 2) for c in counts]
    raise AssertionError


def quantile_valid(counts, scores):
    total = sum(counts)
    if total == 0:
        return all(s is None for s in scores)
    if any(s is None for s in scores):
        return False
    pairs = sorted(zip(counts, [fparse(s) for s in scores]))
    run = 0
    for c, s in pairs:
        run += c
        if abs(s - Fraction(run, total)) > Fraction(1, 200000):
            return False
    return True


def check_pop(v, counts, scores, tag, out):
    if isinstance(scores, str):
        out.append((f"{tag}-error", f"{v}: training raised {scores}"))
        return
    if v == "quantile":
        if not quantile_valid(counts, scores):
            out.append((f"{tag}:quantile", f"scores {scores} are not the sorted cumulative share of counts {counts}"))
    else:
        want = doc_pop(v, counts)
        if len(scores) != len(want) or not all(_close(s, w) for s, w in zip(scores, want)):
            out.append((f"{tag}:{v}", f"scores {scores} differ from the definition {[str(w) for w in want]} for counts {counts}"))
    if all(s is not None for s in scores):
        fs = [fparse(s) for s in scores]
        for a in range(len(counts)):
            for b in range(len(counts)):
                if counts[a] < counts[b] and not fs[a] < fs[b]:
                    out.append((f"{tag}-monotone:{v}", f"count {counts[a]} < {counts[b]} but score {fs[a]} >= {fs[b]}"))
                    return


def check_called(v, counts, called, tag, case, out):
    """the scorer called with the whole catalogue (in logical order) followed by one unknown identifier: the scores
    returned for the identifiers must meet the variant's definition for the items' own counts"""
    if len(called) != len(counts) + 1 or called[-1] is not None:
        out.append((f"{tag}-unknown", f"{v}: scoring the catalogue {case['iids']!r} and the unknown item {case['unk_iids'][0]!r} gave {called}"))
        return
    n = len(out)
    check_pop(v, counts, called[:-1], tag, out)
    if len(out) > n:
        out[n] = (out[n][0], out[n][1] + f" -- item identifiers {case['iids']!r}")


def oracle(case, obs):
    out = []
    g, bi, bu = doc_offsets(case)
    if not _close(obs["global"], g):
        vals = sorted({fparse(r[2]) for r in case["ratings"]})
        out.append(("global-mean", f"global offset {obs['global']} != mean rating {g} of the {len(case['ratings'])} stored ratings "
                                   f"(values {[str(v) for v in vals]}, {sum(1 for r in case['ratings'] if fparse(r[2]) == 0)} of them exactly 0)"))
    for name, got, want in (("item", obs["item_biases"], bi), ("user", obs["user_biases"], bu)):
        if (got is None) != (want is None):
            out.append((f"{name}-offsets-presence", f"{name} offsets present={got is not None}, requested={want is not None}"))
        elif got is not None and (len(got) != len(want) or not all(_close(a, b) for a, b in zip(got, want))):
            out.append((f"{name}-offset", f"{name} offsets {got} differ from the damped-mean formula {[str(w) for w in want]}"))
    dv = _damp_vals(case["damping"])
    for q, qo in zip(case["queries"], obs["queries"]):
        if not qo["aligned"]:
            out.append(("score-alignment", "returned item ids differ from the requested ones"))
            continue
        ub = Fraction(0)
        hist_used = False
        if bu is not None:
            if q["hist"] is not None and q["hist"]["rated"]:
                hist_used = True
                h = q["hist"]["items"]
                den = len(h) + dv["user"]
                tot = sum(fparse(r) - g - (bi[x] if (bi is not None and not isinstance(x, str)) else 0) for x, r in h)
                ub = tot / den if den > 0 else Fraction(0)
            elif q["user"] not in (None, "unknown"):
                ub = bu[q["user"]]
        want = [g + (bi[x] if (bi is not None and not isinstance(x, str)) else 0) + ub for x in q["items"]]
        got = qo["scores"]
        if len(got) != len(want) or not all(_close(a, b) for a, b in zip(got, want)):
            key = "score-history" if hist_used else "score-sum"
            who = "no user" if q["user"] is None else f"{'unknown' if q['user'] == 'unknown' else 'known'} user {uid(case, q['user'])!r}"
            out.append((key, f"scores {got} differ from global + item + user offsets {[str(w) for w in want]} (history used: {hist_used}; "
                             f"query form {q.get('form', 'recquery')}, {who}, items {[iid(case, x) for x in q['items']]!r} "
                             f"{vocab_label(case, q['items'], q.get('by_number', [None, None])[0])}"
                             + (f"; history {[iid(case, x) for x, _ in q['hist']['items']]!r} "
                                f"{vocab_label(case, [x for x, _ in q['hist']['items']], q.get('by_number', [None, None])[1])}" if hist_used else "")
                             + ")"))
    counts = [sum(1 for r in case["ratings"] if r[1] == i) for i in range(case["ni"])]
    for v in VARIANTS:
        po = obs["pop"][v]
        check_pop(v, counts, po["scores"], "pop", out)
        if isinstance(po["scores"], str):
            continue
        want_call = [None if isinstance(x, str) else po["scores"][x] for x in case["pop_items"]]
        if po["call"] != want_call:
            out.append(("pop-call", f"{v}: scoring {[iid(case, x) for x in case['pop_items']]!r} "
                                    f"({vocab_label(case, case['pop_items'], case.get('pop_by_number'))}) gave {po['call']}, "
                                    f"stored scores give {want_call} (unknown items must be unscored)"))
        check_called(v, counts, po["all"], "pop-call", case, out)
    for c, cr, row in zip(case["cutoffs"], cutreps_of(case), obs["tb"]):
        cf = fparse(c)
        if case["trep"] == "none":
            tcounts = counts
        else:
            def instant(r):
                return Fraction(2 * r[3] + r[4], 2)
            tcounts = [sum(1 for r in case["ratings"] if r[1] == i and instant(r) > cf) for i in range(case["ni"])]
        # the cutoff is an instant: a clock reading with a UTC offset means reading - offset
        tbtag = f"time-bounded[{case['trep']};cutoff-with-utc-offset]" if cr["off"] else f"time-bounded[{rep_label(case)}]"
        for v in VARIANTS:
            if row[v] == "EReject" and cr["kind"] == "np":
                continue                      # a numpy datetime64 is not a datetime: refused when the scorer is configured
            n0 = len(out)
            check_pop(v, tcounts, row[v], tbtag, out)
            if not isinstance(row[v], str):
                check_called(v, tcounts, row[v + "-call"], tbtag + "-call", case, out)
            for k in range(n0, len(out)):
                out[k] = (out[k][0], out[k][1] + f" -- cutoff at {c} s after the epoch, given as {cutrep_label(cr)}"
                          + (f": {row['msg']}" if isinstance(row[v], str) and row.get("msg") else ""))
            if not isinstance(row[v], str):
                want_probe = [None if isinstance(x, str) else row[v][x] for x in case["pop_items"]]
                if row.get(v + "-probe", want_probe) != want_probe:
                    out.append((tbtag + "-probe",
                                f"{v}, cutoff {c}: scoring {[iid(case, x) for x in case['pop_items']]!r} "
                                f"({vocab_label(case, case['pop_items'], case.get('pop_by_number'))}) gave {row[v + '-probe']}, "
                                f"stored scores give {want_probe} (unknown items must be unscored)"))
    seen, res = set(), []
    for k, w in out:
        if k not in seen:
            seen.add(k)
            res.append((k, w))
    return res


def nontrivial(case, obs):
    vals = {r[2] for r in case["ratings"]}
    counts = {sum(1 for r in case["ratings"] if r[1] == i) for i in range(case["ni"])}
    hist = any(q["hist"] is not None and q["hist"]["rated"] and q["hist"]["items"] for q in case["queries"])
    return len(case["ratings"]) >= 3 and len(vals) >= 2 and len(counts) >= 2 and hist


def counters(case, obs):
    yield "style=" + case["style"]
    yield "rating-scale=" + case.get("scale", "half-stars")
    rv = [(r[0], r[1], fparse(r[2])) for r in case["ratings"]]
    if any(v == 0 for _, _, v in rv):
        yield "rating-value-zero-stored"
    if any(v < 0 for _, _, v in rv):
        yield "rating-value-negative"
    if all(v == 0 for _, _, v in rv):
        yield "ratings-all-zero"
    for col, name, n in ((0, "user", case["nu"]), (1, "item", case["ni"])):
        if any(all(r[2] == 0 for r in rv if r[col] == e) and any(r[col] == e for r in rv) for e in range(n)):
            yield f"all-zero-{name}"
    lv = list_vocab(case, case["pop_items"], case.get("pop_by_number"))
    yield "pop-list=" + ("by-identifier" if lv is None else "dataset-vocabulary" if lv == "dataset" else
                         "own-vocabulary:" + (case["pop_by_number"]["kind"] if isinstance(case["pop_by_number"], dict) else "superset")
                         + (",same-length" if len(lv) == case["ni"] else ",other-length"))
    yield f"ids=user:{case['ukind']},item:{case['ikind']}"
    for name, kind, known, unknown in (("user", case["ukind"], case["uids"], case["unk_uids"]), ("item", case["ikind"], case["iids"], case["unk_iids"])):
        if FALSY[kind] in known:
            yield f"falsy-id-known-{name}"
        if FALSY[kind] in unknown[:1]:
            yield f"falsy-id-unknown-{name}"
        if kind == "int" and any(x < 0 for x in known):
            yield f"negative-id-known-{name}"
        if kind == "int" and any(abs(x) >= 2**31 for x in known):
            yield f"large-id-known-{name}"
    if obs.get("vocab_sorted"):
        yield "user-vocabulary=" + ("sorted" if obs["vocab_sorted"][0] else "unsorted")
        yield "item-vocabulary=" + ("sorted" if obs["vocab_sorted"][1] else "unsorted")
    if case.get("build", "builder") == "builder":
        yield "assembly=" + case["assembly"]["mode"] + f",batches={len({r[5] for r in case['ratings']})}"
    yield "entities=" + ("+".join(sorted(case["entities"])) or "none")
    yield "damping=" + case["damping"]["form"]
    if case["damping"]["form"] == "dict" and None in (case["damping"]["user"], case["damping"]["item"]):
        yield "damping-key-absent"
    if "0/1" in (case["damping"]["user"], case["damping"]["item"]):
        yield "damping-zero"
    yield "path=" + case["path"]
    yield "timestamps=" + rep_label(case)
    yield "build=" + case.get("build", "builder")
    yield f"ratings={min(len(case['ratings']), 20) // 5 * 5}+"
    iu = {r[0] for r in case["ratings"]}
    ii = {r[1] for r in case["ratings"]}
    if len(iu) < case["nu"]:
        yield "has-user-without-ratings"
    if len(ii) < case["ni"]:
        yield "has-item-without-ratings"
    counts = [sum(1 for r in case["ratings"] if r[1] == i) for i in range(case["ni"])]
    if len(set(counts)) < len(counts):
        yield "pop-tied-counts"
    if any(sum(1 for r in case["ratings"] if r[w] == e) == 1 for w, n in ((0, case["nu"]), (1, case["ni"])) for e in range(n)):
        yield "has-single-rating-entity"
    for q in case["queries"]:
        yield "query-user=" + ("none" if q["user"] is None else "unknown" if q["user"] == "unknown" else "known")
        yield "query-form=" + q.get("form", "recquery")
        if q["user"] not in (None, "unknown") and uid(case, q["user"]) == FALSY[case["ukind"]] and q["hist"] is None:
            yield "query-known-falsy-user-by-id:" + q.get("form", "recquery")
        for which, flag, lst in (("items", q.get("by_number", [None, None])[0], q["items"]),
                                 ("history", q.get("by_number", [None, None])[1], [x for x, _ in (q["hist"] or {"items": []})["items"]])):
            if which == "history" and q["hist"] is None:
                continue
            lv = list_vocab(case, lst, flag)
            if lv == "dataset":
                yield f"query-{which}-by-number=dataset"
            elif lv is not None:
                yield (f"query-{which}-by-number=foreign:" + (flag["kind"] if isinstance(flag, dict) else "superset")
                       + (",same-length" if len(lv) == case["ni"] else ",other-length"))
        if q["hist"] is None:
            yield "query-history=none"
        elif not q["hist"]["rated"]:
            yield "query-history=unrated"
        elif not q["hist"]["items"]:
            yield "query-history=empty"
        else:
            yield "query-history=rated" + ("+unknown-items" if any(isinstance(x, str) for x, _ in q["hist"]["items"]) else "")
    for c, cr, row in zip(case["cutoffs"], cutreps_of(case), obs["tb"]):
        z = cr["zone"]
        zc = ("" if z is None else z if z in ("naive", "utc") else
              ("offset+" if cr["off"] > 0 else "offset-" if cr["off"] < 0 else "offset0") if z == "fixed" else "named-zone")
        yield f"tb-cutoff-given={cr['kind']}" + (":" + zc if zc else "")
        if isinstance(row["count"], str):
            yield "tb=" + row["count"]
        else:
            if cr["off"] and case["trep"] != "none":
                # would reading the clock as UTC (dropping the offset) have changed the counts?
                lo, hi = sorted([fparse(c), fparse(c) + cr["off"]])
                between = any(lo < Fraction(2 * r[3] + r[4], 2) <= hi for r in case["ratings"])
                yield "tb-cutoff-offset-" + ("matters" if between else "immaterial")
            tot = sum(fparse(x) for x in row["count"])
            yield "tb-cutoff=" + ("after-all" if tot == 0 else "before-all" if tot == len(case["ratings"]) else "inside")


def sample(case, obs):
    return {"case": case, "observation": {k: obs.get(k) for k in ("global", "item_biases", "user_biases", "queries")}}


_shrinks = [0]
MAX_SHRINKS = 6          # per run: a broken build otherwise shrinks dozens of keys, each with many re-runs


def shrink(case, fails):
    _shrinks[0] += 1
    if _shrinks[0] > MAX_SHRINKS:
        return case
    c = dict(case)
    c["queries"] = common.shrink_list(case["queries"], lambda xs: fails({**c, "queries": xs}), 20)
    pairs = list(zip(case["cutoffs"], cutreps_of(case)))
    unzip = lambda ps: {"cutoffs": [a for a, _ in ps], "cutreps": [b for _, b in ps]}
    c.update(unzip(common.shrink_list(pairs, lambda ps: fails({**c, **unzip(ps)}), 10)))
    c["ratings"] = common.shrink_list(case["ratings"], lambda xs: bool(xs) and fails({**c, "ratings": xs}), 60)
    return c
