"""C01 -- every dataset view denotes the same interactions under a stable id<->number map (DESIGN.md section 4, C01)."""

from __future__ import annotations

from collections import Counter
from fractions import Fraction

import common
from common import cbool, clist, cnat, copt, cq, cz, fjson, fparse, frac_of_float
from framework import TranslateError  # noqa: F401

PID = "C01"
PROPS_FILE = "Props/C01.v"
GEN_FILES = ["Gen/C01_columns.v"]
MODEL_FILES = ["Model/C01_dataset.v", "Model/C01_agree.v"]
ALLOWED_AXIOMS: list[str] = []
CASE_HEADER = ("From Coq Require Import ZArith QArith.\nFrom LK Require Import Lib.QLib Model.C01_dataset Model.C01_agree.\n"
               "Open Scope Z_scope.")
TRUSTED = [
    "Coq 8.16.1 kernel + vm_compute (no native_compute); Print Assumptions of every theorem in Props/C01.v: closed under the global context",
    "Gen/C01_columns.v is regenerated on every run from schema.py (id_col_name, num_col_name), builder.py (the column-copy loop of "
    "add_relationships) and relationships.py (RelationshipSet._link_cols, attribute_names, arrow) by harness/translate/c01.py: statement "
    "shapes are compared after ast.unparse, the keep / skip conditions are translated (`col in <list>`, `not in`, not / and / or); anything "
    "else fails closed.  views_carry_every_attribute is proved over the generated definitions; Arrow's append_column / select / pa.table "
    "are read as list operations on column names",
    "hand-written model of DatasetBuilder (add_entities, add_relationships, filter_interactions, clear_relationships, build) and of "
    "MatrixRelationshipSet (sort, value_counts -> row sizes -> cumsum, every view) in Model/C01_dataset.v, tied by correspondence: the same "
    "operation list is run on the real builder, every view is dumped as raw arrays and compared inside Coq with the model's arrays "
    "(exact; missing values as None on both sides; mean ratings within 2^-40 relative)",
    "Arrow kernels as contracts: sort_by returns the sorted permutation (the model uses a proved insertion sort), unique/is_in/index_in, "
    "value_counts, the left-anti join (row order of its output is not relied upon: the table is re-sorted at build), group_by aggregates; "
    "pandas Index look-ups; SciPy/PyTorch sparse constructors are exercised, not verified",
    "identifier canonicalisation: identifiers are mapped to Z by rank in sorted order (integers numerically, ASCII strings by code point = "
    "byte order), an order-isomorphism chosen by the harness",
    "canonicalisation of attribute values and time bounds by the harness: Arrow null / NaN / NaT -> None, date-times -> whole seconds since "
    "the epoch, ratings doubled; a time bound is handed to lenskit as int, float or naive date-time and to the model as the exact rational",
]
ASSUMPTIONS = [
    "identifiers of one entity class have one type (all integers or all ASCII strings); interaction frames of one case draw their attribute columns from one "
    "schema (a frame may lack some of them); the extra attribute column has a generated name that is none of user_num, item_num, user_id, item_id, "
    "rating, timestamp, count, first_time, last_time (special meaning in lenskit) or rank (reserved by ItemList)",
    "ratings are multiples of 1/2, timestamps (whole seconds, in an int64 column or an Arrow timestamp[s|ms|us|ns] column) and the extra "
    "column are integers; any attribute value may be missing (Arrow null, NaN / NaT in a pandas frame); time bounds are multiples of 1/4 s",
]
RULE = ("structured generator: 1-8 users x 1-8 items (integer or string identifiers in random order, with byte-order traps such as u10 < u2 "
        "and upper before lower case), optional rating / timestamp / extra columns (the extra column's NAME is generated: names ending in _num / _id, "
        "named like statistics or like the columns from_interactions_df looks for, other letter case, spaces, non-ASCII, empty) with missing values (none, 1/4 or 1/2 of the values) and "
        "batches that lack some of the columns, 1-4 interaction batches with the insert / filter / error "
        "policies, pre-declared and late entity additions, 0-3 filters (pairs, single column, time window whose bounds are whole or fractional "
        "seconds placed at / next to timestamps present in the data and given as int, float or date-time), rare clear, builder or "
        "from_interactions_df driver (input columns under the names it finds by itself or under other names passed as *_col); malformed stream: duplicate ids, forbidden re-inserts, unknown ids under 'error', repeated pairs, "
        "time filter without timestamps / before any batch carried the timestamp column; non-trivial = the dataset was built, at least two records survive, at least one user or item has no "
        "interaction, and the identifiers were not supplied in ascending order or arrived in more than one increment; distinct = by hash of the case")
SHARD = 60


def translate():
    "Gen/C01_columns.v: the columns of the stored table and of its views as functions of the column names (fail closed)"
    from translate import c01 as t
    from translate.pyq import TranslateError as TE
    try:
        return t.translate(common.SRC)
    except TE as e:
        raise TranslateError(str(e))


# ---------------------------------------------------------------------------------------------
# generator
# ---------------------------------------------------------------------------------------------

STR_POOL = ["u1", "u10", "u2", "u21", "B", "a", "Z9", "aa", "A", "b", "u", "07", "7", "10", "x_y", "X", "k9", "K9"]
ATTRS = ["rating", "timestamp", "extra"]        # attribute *slots* of a case; the column of a slot is called cname(case, slot)

# Names of the extra attribute column: the views must carry an attribute whatever it is called.  The pool resembles or collides with
# lenskit's internal naming conventions: the `<entity>_num` / `<entity>_id` link columns, the statistics columns, the columns
# from_interactions_df looks for, pandas index names, other letter case, spaces, non-ASCII, empty.
# Not used: the relationship's own link / id columns (user_num, item_num, user_id, item_id: a real clash), `count`, `first_time`,
# `last_time` (documented special meaning: NotImplementedError / folded into the statistics) and `rank` (reserved by ItemList).
EXTRA_NAMES = {
    "plain": ["extra", "weight", "x"],
    "suffix_num": ["disc_num", "track_num", "num", "_num", "user_num_num", "item_id_num", "rating_num", "n_num"],
    "suffix_id": ["session_id", "x_id", "id", "_id", "user_num_id", "item_id_id"],
    "statistic": ["counts", "record_count", "user_count", "item_count", "rating_count", "mean_rating", "rating_mean", "timestamp_min",
                  "item_num_count", "score"],
    "role-like": ["user", "item", "USER", "itemId", "RATING", "TIMESTAMP", "Rating"],
    "case": ["ITEM_NUM", "User_Id", "Count", "EXTRA"],
    "odd": ["Play Count", "dur\u00e9e", "index", "level_0", "__index_level_0__", "0", "", " ", "a.b", "item num"],
}
RESERVED_NAMES = {"user_num", "item_num", "user_id", "item_id", "count", "first_time", "last_time", "rank", "rating", "timestamp"}
# the column names from_interactions_df looks for when the caller names none (in its order of preference)
AUTO_COLS = {"user": ["user_id", "user", "USER", "userId", "UserId"], "item": ["item_id", "item", "ITEM", "itemId", "ItemId"],
             "rating": ["rating", "RATING"], "timestamp": ["timestamp", "TIMESTAMP"]}
CUSTOM_COLS = {"user": ["uid", "member", "user_num"], "item": ["iid", "track", "item_num"], "rating": ["stars", "value", "Rating"],
               "timestamp": ["ts", "time", "Timestamp"]}


def cname(case, a):
    "the column name of attribute slot `a` in the frames handed to lenskit and in every view (replays recorded before names were generated: the slot)"
    return case.get("names", {}).get(a, a)


def name_class(nm):
    return next((k for k, v in EXTRA_NAMES.items() if nm in v), "other")


def gen_extra_name(rng):
    k = rng.weighted([("plain", 2), ("suffix_num", 4), ("suffix_id", 2), ("statistic", 2), ("role-like", 2), ("case", 1), ("odd", 2)])
    return rng.choice(EXTRA_NAMES[k])


def gen_incols(rng, schema, extra_name):
    """the column names of the frame handed to from_interactions_df: one of the names it finds by itself, or any other name passed
    as user_col= / item_col= / rating_col= / timestamp_col= (a name it would find is also passed explicitly now and then).  When the
    extra attribute is called like a column from_interactions_df looks for, the frame uses the names of first preference."""
    auto_all = {n.lower() for v in AUTO_COLS.values() for n in v}
    clash = schema["extra"] and extra_name.lower() in auto_all
    out = {}
    for role in ("user", "item", "rating", "timestamp"):
        if clash or rng.chance(1, 2):
            out[role] = [AUTO_COLS[role][0], False]
        elif rng.chance(1, 2):
            out[role] = [rng.choice(AUTO_COLS[role]), rng.chance(1, 4)]
        else:
            out[role] = [rng.choice(CUSTOM_COLS[role]), True]
    used = set()
    for role in list(out):                       # no two columns of one frame share a name
        if out[role][0] in used or (schema["extra"] and out[role][0] == extra_name):
            out[role] = [AUTO_COLS[role][0], False]
        used.add(out[role][0])
    return out


INT_DTYPES = {"int8": (-2 ** 7, 2 ** 7 - 1), "int16": (-2 ** 15, 2 ** 15 - 1), "int32": (-2 ** 31, 2 ** 31 - 1),
              "int64": (-2 ** 63, 2 ** 63 - 1), "uint8": (0, 2 ** 8 - 1), "uint16": (0, 2 ** 16 - 1), "uint32": (0, 2 ** 32 - 1)}


def fits(dtype, ids):
    lo, hi = INT_DTYPES[dtype]
    return all(lo <= x <= hi for x in ids)


def gen_ids(rng, kind, n):
    """-> (declared dtype, ids the generator uses as entities, identifiers it never declares: unknown probes).
    Integer probes are chosen adversarially against the declared dtype: congruent to a used id modulo 2^8 / 2^16 / 2^32 /
    2^bits, negated, or huge."""
    if kind != "int":
        ids = rng.sample(STR_POOL, n + 1)
        return None, ids[:n], ids[n:]
    dt = rng.weighted([("int64", 4), ("int32", 4), ("int16", 1), ("int8", 1), ("uint8", 2), ("uint16", 2), ("uint32", 3)])
    lo, hi = INT_DTYPES[dt]
    base = rng.sample(list(range(0 if rng.chance(1, 6) else 1, 60)), n)
    if rng.chance(1, 4):
        base[rng.below(n)] = hi                      # the largest value of the declared type
    if lo < 0 and rng.chance(1, 4):
        x = rng.choice([lo, -1, -rng.randint(2, 50)])
        if x not in base:
            base[rng.below(n)] = x
    base = first_unique(base)
    bits = {"int8": 8, "int16": 16, "int32": 32, "int64": 64, "uint8": 8, "uint16": 16, "uint32": 32}[dt]
    cands = []
    for k in rng.shuffle(base)[:3]:
        for m in (2 ** bits, -(2 ** bits), 3 * 2 ** bits, 2 ** 8, 2 ** 16, 2 ** 32, -(2 ** 32), 2 ** 40):
            cands.append(k + m)
        cands.append(-k)
        cands.append(-k - 1)
    cands = [c for c in first_unique(cands) if c not in base and -2 ** 63 <= c < 2 ** 63]
    probes = rng.sample(cands, rng.randint(1, 3))
    if rng.chance(1, 4):
        probes.append(next(x for x in range(60, 200) if x not in base))       # a plain small unknown too
    return dt, base, probes


def pick_dtype(rng, declared):
    "dtype of an identifier array handed to the builder (values that do not fit fall back to int64 when the array is made)"
    if declared is None:
        return None
    return rng.weighted([("int64", 5), (declared, 3), ("int32", 1), ("int16", 1), ("uint32", 1)])


def gen_row(rng, u, i, schema, pnull=0, cols=None):
    """one input record [user, item, 2*rating, timestamp, extra]; None = the value is missing (or the column is not in the schema /
    not carried by the frame: `cols`)"""
    def val(name, lo, hi):
        if not schema[name] or (cols is not None and name not in cols):
            return None
        v = rng.randint(lo, hi)
        return None if pnull and rng.chance(1, pnull) else v
    return [u, i, val("rating", 1, 10), val("timestamp", 0, 20), val("extra", -3, 9)]


def qj(q):
    "a rational time bound as JSON: an int when whole, else 'num/den'"
    q = Fraction(q)
    return int(q) if q.denominator == 1 else f"{q.numerator}/{q.denominator}"


def qv(x):
    return None if x is None else Fraction(x)


def gen_bound(rng, seen_ts, lower):
    "a time bound: mostly at / next to a timestamp present in the data (x, x +- 1/2, x +- 1, x + 1/4, x - 3/4), whole or fractional"
    if seen_ts and rng.chance(3, 4):
        q = Fraction(rng.choice(seen_ts)) + rng.choice([0, 0, Fraction(1, 2), Fraction(-1, 2), Fraction(1, 4), Fraction(-3, 4), 1, -1])
    else:
        q = Fraction(rng.randint(0, 12) if lower else rng.randint(8, 21)) + rng.choice([0, 0, Fraction(1, 2)])
    style = rng.choice(["float", "datetime"] + (["int", "int"] if q.denominator == 1 else []))
    return qj(q), style


def gen_case(rng, malformed=False):
    kind_u = rng.choice(["int", "str"])
    kind_i = rng.choice(["int", "str"])
    nu = rng.weighted([(1, 1), (2, 2), (3, 4), (4, 4), (5, 3), (6, 2), (8, 1)])
    ni = rng.weighted([(1, 1), (2, 2), (3, 4), (4, 4), (5, 3), (6, 2), (8, 1)])
    dt_u, users, adv_u = gen_ids(rng, kind_u, nu)     # adv_*: never declared by the generator -- unknown probes
    dt_i, items, adv_i = gen_ids(rng, kind_i, ni)
    nu, ni = len(users), len(items)
    uids, iids = users + adv_u, items + adv_i
    schema = {"rating": rng.chance(2, 3), "timestamp": rng.chance(1, 2), "extra": rng.chance(2, 5)}
    extra_name = gen_extra_name(rng)
    pnull = rng.weighted([(0, 3), (4, 2), (2, 1)])       # missing attribute values: none, about 1/4, about 1/2 of the values
    ragged = rng.chance(1, 3)                              # batches may lack some of the schema's columns
    seen_ts = []                                           # timestamps generated so far (time bounds are placed at / next to them)
    case = {"kind_u": kind_u, "kind_i": kind_i, "uids": uids, "iids": iids, "schema": schema,
            "ts_kind": rng.choice(["int", "datetime"]),      # Arrow type of the timestamp column: int64 or timestamp[unit]
            "ts_unit": rng.choice(["s", "s", "ms", "us", "ns"]), "pnull": pnull,
            "dt_u": dt_u, "dt_i": dt_i,                       # integer dtype of the declared entity lists (None: strings)
            "names": {"extra": extra_name},                  # the column name of the extra attribute
            "allow_repeats": rng.chance(1, 5), "style": "malformed" if malformed else "valid"}

    def unknown_rows(k, cols=None):
        "records naming an identifier the generator never declares (to be filtered / rejected, never attached)"
        out = []
        for _ in range(k):
            which = rng.weighted([("user", 3), ("item", 3), ("both", 1)])
            u = rng.choice(adv_u) if which in ("user", "both") else rng.choice(users)
            i = rng.choice(adv_i) if which in ("item", "both") else rng.choice(items)
            out.append(gen_row(rng, u, i, schema, pnull, cols))
        return out

    def batch_cols():
        names = [a for a in ATTRS if schema[a]]
        return [a for a in names if not (ragged and rng.chance(1, 3))]

    if not malformed and rng.chance(1, 4):
        # from_interactions_df
        pairs = rng.sample([(u, i) for u in users for i in items], rng.randint(1, min(nu * ni, 14)))
        rows = [gen_row(rng, u, i, schema, pnull) for u, i in pairs]
        case["driver"] = "fidf"
        if not schema["rating"] and extra_name == "RATING":           # from_interactions_df would take it for the rating column
            case["names"]["extra"] = extra_name = "Rating"
        if not schema["timestamp"] and extra_name == "TIMESTAMP":
            case["names"]["extra"] = extra_name = "Timestamp"
        case["fidf"] = {"users": rng.shuffle(rng.subset(users, 3, 4)) if rng.chance(1, 2) else None,
                        "items": rng.shuffle(rng.subset(items, 3, 4)) if rng.chance(1, 2) else None, "rows": rows,
                        "dtype_u": pick_dtype(rng, dt_u), "dtype_i": pick_dtype(rng, dt_i),
                        "incols": gen_incols(rng, schema, extra_name)}
        for k in ("users", "items"):
            if case["fidf"][k] is not None and not case["fidf"][k]:
                case["fidf"][k] = None
        if (case["fidf"]["users"] is not None or case["fidf"]["items"] is not None) and rng.chance(2, 3):
            # the subset policy: records of unknown identifiers are dropped
            extra = [r for r in unknown_rows(rng.randint(1, 2))
                     if (case["fidf"]["users"] is not None or r[0] in users) and (case["fidf"]["items"] is not None or r[1] in items)]
            case["fidf"]["rows"] = rng.shuffle(rows + extra)
        case["ops"] = []
        return case
    case["driver"] = "builder"
    ops = []
    all_pairs = rng.shuffle([(u, i) for u in users for i in items])
    known = {"user": None, "item": None}      # what a valid stream may rely on
    for c, pool in (("user", users), ("item", items)):
        if rng.chance(1, 2):
            ids = rng.shuffle(rng.subset(pool, 3, 4)) or pool[:1]
            ops.append({"op": "add_entities", "cls": c, "ids": ids, "dup": "error", "dtype": dt_u if c == "user" else dt_i})
            known[c] = set(ids)
    nb = rng.weighted([(1, 3), (2, 4), (3, 2), (4, 1)])
    dens = rng.weighted([(1, 2), (2, 3), (3, 2)])
    for b in range(nb):
        k = min(len(all_pairs), rng.randint(0, 2 + dens * 3))
        batch, all_pairs = all_pairs[:k], all_pairs[k:]
        if known["user"] is not None and known["item"] is not None:
            pol = rng.weighted([("insert", 3), ("filter", 4), ("error", 2)])
        else:
            pol = "insert"
        if pol == "error":
            batch = [(u, i) for u, i in batch if u in known["user"] and i in known["item"]]
        cols = batch_cols()
        rows = [gen_row(rng, u, i, schema, pnull, cols) for u, i in batch]
        if pol == "filter" and rng.chance(1, 2):
            rows = rng.shuffle(rows + unknown_rows(rng.randint(1, 2), cols))
        seen_ts += [r[3] for r in rows if r[3] is not None]
        ops.append({"op": "add_interactions", "rows": rows, "missing": pol, "cols": cols,
                    "dtype_u": pick_dtype(rng, dt_u), "dtype_i": pick_dtype(rng, dt_i)})
        if pol == "insert":
            known["user"] = (known["user"] or set()) | {u for u, _ in batch}
            known["item"] = (known["item"] or set()) | {i for _, i in batch}
        if rng.chance(1, 3):
            c = rng.choice(["user", "item"])
            pool = users if c == "user" else items
            ids = rng.shuffle(rng.subset(pool, 1, 2)) or pool[:1]
            ops.append({"op": "add_entities", "cls": c, "ids": ids, "dup": rng.choice(["update", "overwrite"]),
                        "dtype": pick_dtype(rng, dt_u if c == "user" else dt_i)})
            known[c] = (known[c] or set()) | set(ids)
        if rng.chance(1, 3):
            choices = [("time", 3 if schema["timestamp"] else 0)]
            if known["user"] is not None:
                choices.append(("users", 2))
            if known["item"] is not None:
                choices.append(("items", 2))
            if known["user"] is not None and known["item"] is not None:
                choices += [("pairs", 3), ("both", 1 if schema["timestamp"] else 0)]
            choices = [c for c in choices if c[1]]
            if choices:
                kindf = rng.weighted(choices)
                f = {"op": "filter", "lo": None, "hi": None, "remove": None,
                     "dtype_u": pick_dtype(rng, dt_u), "dtype_i": pick_dtype(rng, dt_i)}
                if kindf in ("time", "both"):
                    if rng.chance(2, 3):
                        f["lo"], f["style_lo"] = gen_bound(rng, seen_ts, True)
                    if rng.chance(2, 3) or f["lo"] is None:
                        f["hi"], f["style_hi"] = gen_bound(rng, seen_ts, False)
                if kindf in ("pairs", "both"):
                    f["remove"] = {"kind": "pairs", "vals": [[rng.choice(uids), rng.choice(iids)] for _ in range(rng.randint(0, 4))]}
                elif kindf == "users":
                    f["remove"] = {"kind": "users", "vals": rng.subset(uids, 1, 3)}
                elif kindf == "items":
                    f["remove"] = {"kind": "items", "vals": rng.subset(iids, 1, 3)}
                ops.append(f)
        if rng.chance(1, 20):
            ops.append({"op": "clear"})
    if malformed:
        kindm = rng.choice(["dup-ids", "reinsert", "unknown-error", "repeat-pair", "time-no-ts", "filter-no-table", "late-repeat", "time-col-absent"])
        pos = rng.randint(0, len(ops))
        if kindm == "dup-ids":
            ids = rng.shuffle(users[:2] + users[:1])
            ops.insert(pos, {"op": "add_entities", "cls": "user", "ids": ids, "dup": rng.choice(["error", "update"])})
        elif kindm == "reinsert":
            ops.append({"op": "add_entities", "cls": "item", "ids": rng.shuffle(items), "dup": "error"})
        elif kindm == "unknown-error":
            rows = unknown_rows(1) + ([gen_row(rng, rng.choice(users), rng.choice(items), schema, pnull)] if rng.chance(1, 2) else [])
            ops.insert(pos, {"op": "add_interactions", "rows": rng.shuffle(rows), "missing": "error",
                             "dtype_u": pick_dtype(rng, dt_u), "dtype_i": pick_dtype(rng, dt_i)})
        elif kindm in ("repeat-pair", "late-repeat"):
            case["allow_repeats"] = rng.chance(1, 2)
            adds = [o for o in ops if o["op"] == "add_interactions" and o["rows"]]
            if adds:
                src = rng.choice(adds)["rows"][0]
                if kindm == "repeat-pair":
                    tgt = rng.choice(adds)
                    tgt["rows"].append(gen_row(rng, src[0], src[1], schema, pnull, tgt.get("cols")))
                else:
                    ops.append({"op": "add_interactions", "rows": [gen_row(rng, src[0], src[1], schema, pnull)], "missing": "insert"})
        elif kindm == "time-no-ts":
            case["schema"]["timestamp"] = False
            for o in ops:
                if o["op"] == "add_interactions":
                    for r in o["rows"]:
                        r[3] = None
                    if "cols" in o:
                        o["cols"] = [c for c in o["cols"] if c != "timestamp"]
                if o["op"] == "filter":
                    o["lo"] = o["hi"] = None
            ops.insert(pos, {"op": "filter", "lo": 3, "hi": None, "remove": None})
        elif kindm == "time-col-absent":
            # the schema has timestamps but no frame before the filter carried the column
            case["schema"]["timestamp"] = True
            for o in ops[:pos]:
                if o["op"] == "add_interactions":
                    for r in o["rows"]:
                        r[3] = None
                    o["cols"] = [c for c in o.get("cols", attr_names(case)) if c != "timestamp"]
            for o in ops[pos:]:
                if o["op"] == "add_interactions" and "timestamp" not in o.get("cols", []):
                    for r in o["rows"]:
                        r[3] = None
            ops.insert(pos, {"op": "filter", "lo": "7/2", "hi": None, "remove": None, "style_lo": "float"})
        elif kindm == "filter-no-table":
            ops.insert(0, {"op": "filter", "lo": None, "hi": None, "remove": {"kind": rng.choice(["users", "pairs", "items"]), "vals": []}})
            if ops[0]["remove"]["kind"] == "pairs":
                ops[0]["remove"]["vals"] = [[uids[0], iids[0]]]
            else:
                ops[0]["remove"]["vals"] = [uids[0] if ops[0]["remove"]["kind"] == "users" else iids[0]]
        case["style"] = "malformed:" + kindm
    case["ops"] = ops
    return case


def gen_cases(rng, tier):
    n = 900 if tier == "quick" else 4000
    return [gen_case(rng.fork(k), malformed=(k % 6 == 5)) for k in range(n)]


# ---------------------------------------------------------------------------------------------
# the operation list of a case (from_interactions_df is its documented expansion) and the id maps
# ---------------------------------------------------------------------------------------------


def first_unique(xs):
    seen, out = set(), []
    for x in xs:
        if x not in seen:
            seen.add(x)
            out.append(x)
    return out


def ops_of(case):
    if case["driver"] == "builder":
        return case["ops"]
    f = case["fidf"]
    if f["users"] is None and f["items"] is None:
        return [{"op": "add_interactions", "rows": f["rows"], "missing": "insert"}]
    users = f["users"] if f["users"] is not None else first_unique(r[0] for r in f["rows"])
    items = f["items"] if f["items"] is not None else first_unique(r[1] for r in f["rows"])
    return [{"op": "add_entities", "cls": "user", "ids": users, "dup": "error"},
            {"op": "add_entities", "cls": "item", "ids": items, "dup": "error"},
            {"op": "add_interactions", "rows": f["rows"], "missing": "filter"}]


def id_maps(case):
    us, is_ = set(case["uids"]), set(case["iids"])
    for o in ops_of(case):
        if o["op"] == "add_entities":
            (us if o["cls"] == "user" else is_).update(o["ids"])
        elif o["op"] == "add_interactions":
            us.update(r[0] for r in o["rows"])
            is_.update(r[1] for r in o["rows"])
        elif o["op"] == "filter" and o["remove"]:
            k = o["remove"]["kind"]
            if k == "pairs":
                us.update(p[0] for p in o["remove"]["vals"])
                is_.update(p[1] for p in o["remove"]["vals"])
            else:
                (us if k == "users" else is_).update(o["remove"]["vals"])
    return {u: k for k, u in enumerate(sorted(us))}, {i: k for k, i in enumerate(sorted(is_))}


def attr_names(case):
    return [a for a in ATTRS if case["schema"][a]]


def row_attrs(case, row):
    "attribute values of an input row as the integers the model carries (rating doubled; None = missing), one per schema column"
    return [v for a, v in zip(ATTRS, row[2:5]) if case["schema"][a]]


def op_cols(case, o):
    "the attribute columns the frame of an add_interactions operation carries"
    names = attr_names(case)
    return [a for a in names if a in o["cols"]] if "cols" in o else names


# ---------------------------------------------------------------------------------------------
# implementation driver
# ---------------------------------------------------------------------------------------------

_ready = False


def _setup():
    global _ready, np, pd, pa, torch, DatasetBuilder, from_interactions_df, DataError
    if _ready:
        return
    common.use_repo()
    import numpy as np
    import pandas as pd
    import pyarrow as pa
    import torch
    from lenskit.data import DatasetBuilder, from_interactions_df
    from lenskit.diagnostics import DataError

    _ready = True


def _ids_array(kind, ids, style, dtype=None):
    if kind == "int":
        if dtype is None or not fits(dtype, ids):
            dtype = "int64"
        if style == "arrow" or not ids:
            return pa.array(ids, type=pa.from_numpy_dtype(np.dtype(dtype)))
        return np.array(ids, dtype=dtype) if style == "numpy" or dtype != "int64" else list(ids)
    if style == "arrow" or not ids:
        return pa.array(ids, type=pa.string())
    return np.array(ids, dtype=object) if style == "numpy" else list(ids)


TS_SCALE = {"s": 1, "ms": 10 ** 3, "us": 10 ** 6, "ns": 10 ** 9}


def _frame(case, rows, style, dtype_u=None, dtype_i=None, names=None):
    """an interaction frame with the attribute columns `names` (default: the whole schema); a missing value is an Arrow null, which a
    pandas frame shows as NaN (float, also for the integer columns) / NaT"""
    names = attr_names(case) if names is None else names
    cols = {"user_id": _ids_array(case["kind_u"], [r[0] for r in rows], "arrow", dtype_u),
            "item_id": _ids_array(case["kind_i"], [r[1] for r in rows], "arrow", dtype_i)}
    if "rating" in names:
        cols["rating"] = pa.array([None if r[2] is None else r[2] / 2 for r in rows], type=pa.float64())
    if "timestamp" in names:
        if case.get("ts_kind", "int") == "int":
            cols["timestamp"] = pa.array([r[3] for r in rows], type=pa.int64())
        else:
            unit = case.get("ts_unit", "s")
            cols["timestamp"] = pa.array([None if r[3] is None else r[3] * TS_SCALE[unit] for r in rows], type=pa.int64()).cast(pa.timestamp(unit))
    if "extra" in names:
        cols[cname(case, "extra")] = pa.array([r[4] for r in rows], type=pa.int64())
    tbl = pa.table(cols)
    if style == "pandas" and rows:
        return tbl.to_pandas()
    return tbl


def _isnull(v):
    if v is None:
        return True
    try:
        return bool(pd.isna(v))
    except (TypeError, ValueError):
        return False


def _bound(case, q, style, k):
    "a time bound as the caller passes it: int / float UNIX seconds, or a naive date-time (UTC for timestamp columns, local for integer ones)"
    if q is None:
        return None
    import datetime as dt
    q = Fraction(q)
    typed = case.get("ts_kind", "int") == "datetime"
    if style is None:                                   # replays recorded before bound styles existed
        style = "datetime" if typed and k % 2 else "int"
    if style == "int" and q.denominator == 1:
        return int(q)
    if style != "datetime":
        return float(q)
    if typed:
        return dt.datetime(1970, 1, 1) + dt.timedelta(microseconds=int(q * 10 ** 6))
    return dt.datetime.fromtimestamp(float(q))


def _errcode(e):
    if isinstance(e, DataError):
        return 1
    if isinstance(e, NotImplementedError):
        return 2
    if isinstance(e, AssertionError):
        return 4
    if isinstance(e, RuntimeError):
        return 3
    raise e


def _snapshot(dsb):
    c = dsb.build_container()
    out = []
    for cls in ("user", "item"):
        t = c.tables.get(cls)
        out.append([] if t is None else t.column(cls + "_id").to_pylist())
    return out


def _apply(dsb, case, o, k):
    style = ["numpy", "arrow", "list", "pandas"][(k + len(o.get("ids", o.get("rows", [])) or [])) % 4]
    if o["op"] == "add_entities":
        kind = case["kind_u"] if o["cls"] == "user" else case["kind_i"]
        dsb.add_entities(o["cls"], _ids_array(kind, o["ids"], style if style != "pandas" else "numpy", o.get("dtype")), duplicates=o["dup"])
    elif o["op"] == "add_interactions":
        dsb.add_interactions("rating", _frame(case, o["rows"], "pandas" if k % 2 == 0 else "arrow", o.get("dtype_u"), o.get("dtype_i"),
                                              op_cols(case, o)), missing=o["missing"])
    elif o["op"] == "filter":
        rem = None
        if o["remove"]:
            kd, vals = o["remove"]["kind"], o["remove"]["vals"]
            if kd == "pairs":
                rem = pa.table({"user_id": _ids_array(case["kind_u"], [p[0] for p in vals], "arrow", o.get("dtype_u")),
                                "item_id": _ids_array(case["kind_i"], [p[1] for p in vals], "arrow", o.get("dtype_i"))})
            elif kd == "users":
                rem = pa.table({"user_id": _ids_array(case["kind_u"], vals, "arrow", o.get("dtype_u"))})
            else:
                rem = pa.table({"item_id": _ids_array(case["kind_i"], vals, "arrow", o.get("dtype_i"))})
            if k % 2 and len(vals):
                rem = rem.to_pandas()
        lo, hi = _bound(case, o["lo"], o.get("style_lo"), k), _bound(case, o["hi"], o.get("style_hi"), k)
        dsb.filter_interactions("rating", min_time=lo, max_time=hi, remove=rem)
    elif o["op"] == "clear":
        dsb.clear_relationships("rating")
    else:
        raise ValueError(o["op"])


def _attr_vals(case, cols, getter, n):
    "rows of model-side attribute integers, read column by column from a table-like view"
    out = [[] for _ in range(n)]
    for a in ATTRS:
        if cname(case, a) in cols:
            vals = getter(cname(case, a))
            for k in range(n):
                v = None if vals is None else vals[k]     # a field an ItemList does not have: every value is missing
                if _isnull(v):
                    out[k].append(None)
                elif a == "rating":
                    f = Fraction(float(v)) * 2
                    if f.denominator != 1:
                        raise ValueError(f"rating {v} is not a multiple of 1/2")
                    out[k].append(int(f))
                else:
                    out[k].append(_int(v))
    return out


def _tolist(arr):
    "a NumPy column as Python values; date-times of every unit as pandas Timestamps (datetime64[ns].tolist() gives bare integers)"
    if getattr(getattr(arr, "dtype", None), "kind", "") == "M":
        return [None if np.isnat(x) else pd.Timestamp(x) for x in arr]
    return arr.tolist()


def _int(v):
    "an integer attribute value; date-times (timestamp-typed columns) as seconds since the epoch"
    if isinstance(v, bool):
        raise ValueError("boolean where an integer was expected")
    if isinstance(v, int):
        return v
    if isinstance(v, float) or (hasattr(v, "dtype") and v.dtype.kind in "fiu"):
        f = Fraction(float(v))
        if f.denominator != 1:
            raise ValueError(f"value {v} is not an integer")
        return int(f)
    ns = pd.Timestamp(v).value
    if ns % 10 ** 9:
        raise ValueError(f"time {v} is not a whole second")
    return ns // 10 ** 9


def _tab(case, cols, getter, ucol, icol, conv_u=int, conv_i=int):
    us, is_ = list(getter(ucol)), list(getter(icol))
    at = _attr_vals(case, cols, getter, len(us))
    return [[conv_u(u), conv_i(i), a] for u, i, a in zip(us, is_, at)]


def _vals(field, data):
    "values of a matrix view as model integers; NaN (a missing value) -> None"
    if field == "rating":
        out = []
        for v in data:
            if _isnull(v):
                out.append(None)
                continue
            f = Fraction(float(v)) * 2
            if f.denominator != 1:
                raise ValueError(f"value {v} is not a multiple of 1/2")
            out.append(int(f))
        return out
    return [None if _isnull(v) else _int(v) for v in data]


def _py(x):
    return x.item() if hasattr(x, "item") else x


def run_impl(case):
    _setup()
    import warnings

    warnings.filterwarnings("ignore")
    obs = {"log": [], "build": 0, "views": []}
    V = obs["views"]
    ops = ops_of(case)
    if case["driver"] == "builder":
        dsb = DatasetBuilder()
        dsb.add_entity_class("user")
        dsb.add_relationship_class("rating", ["user", "item"], allow_repeats=case["allow_repeats"], interaction=True)
        for k, o in enumerate(ops):
            try:
                _apply(dsb, case, o, k)
                code = 0
            except Exception as e:
                code = _errcode(e)
            obs["log"].append([code] + _snapshot(dsb))
        try:
            ds = dsb.build()
        except Exception as e:
            obs["build"] = _errcode(e)
            return obs
    else:
        f = case["fidf"]
        df = _frame(case, f["rows"], "pandas", f.get("dtype_u"), f.get("dtype_i"))
        if not isinstance(df, pd.DataFrame):
            df = df.to_pandas()
        kw = {}
        canon = {"user": "user_id", "item": "item_id", "rating": "rating", "timestamp": "timestamp"}
        for role, (nm, explicit) in (f.get("incols") or {}).items():
            if canon[role] in df.columns:
                df = df.rename(columns={canon[role]: nm})
                if explicit:
                    kw[role + "_col"] = nm
        if f["users"] is not None:
            kw["users"] = _ids_array(case["kind_u"], f["users"], "numpy", case.get("dt_u"))
        if f["items"] is not None:
            kw["items"] = _ids_array(case["kind_i"], f["items"], "numpy" if case.get("dt_i") else "list", case.get("dt_i"))
        try:
            ds = from_interactions_df(df, **kw)
        except Exception as e:
            obs["build"] = _errcode(e)
            return obs

    users = [_py(x) for x in ds.users.ids().tolist()]
    items = [_py(x) for x in ds.items.ids().tolist()]
    obs["users"], obs["items"] = users, items
    V.append(["users", users])
    V.append(["items", items])
    V.append(["users", [_py(x) for x in ds.entities("user").ids().tolist()]])
    V.append(["items", [_py(x) for x in np.asarray(ds.entities("item").ids()).tolist()]])
    obs["entity_numbers"] = [ds.entities("user").numbers().tolist(), ds.entities("item").numbers().tolist()]
    obs["counts"] = [int(ds.user_count), int(ds.item_count), int(ds.interaction_count)]

    t = ds.interaction_table(format="arrow")
    cols = obs["columns"] = list(t.column_names)
    if "timestamp" in cols:
        obs["ts_type"] = str(t.schema.field("timestamp").type)
    fields = [a for a in ATTRS if cname(case, a) in cols]
    VC = obs["view_columns"] = []                  # the column names of every table-like view

    def _cols(label, names):
        VC.append([label, [str(c) for c in names]])
        return list(names)

    def _sec0():  # record tables
        _cols("attribute_names", ds.interactions().attribute_names)
        V.append(["table", "arrow", _tab(case, _cols("table:arrow", cols), lambda c: t.column(c).to_pylist(), "user_num", "item_num")])
        p = ds.interaction_table(format="pandas")
        V.append(["table", "pandas", _tab(case, _cols("table:pandas", p.columns), lambda c: p[c].tolist(), "user_num", "item_num")])
        n = ds.interaction_table(format="numpy")
        V.append(["table", "numpy", _tab(case, _cols("table:numpy", n.keys()), lambda c: _tolist(n[c]), "user_num", "item_num")])
        p = ds.interaction_matrix(format="pandas")
        V.append(["table", "matrix-pandas", _tab(case, _cols("table:matrix-pandas", p.columns), lambda c: p[c].tolist(), "user_num", "item_num")])
        ident = lambda x: x  # noqa: E731
        p = ds.interaction_table(format="pandas", original_ids=True)
        V.append(["table_ids", "pandas", _tab(case, _cols("table_ids:pandas", p.columns), lambda c: p[c].tolist(), "user_id", "item_id", ident, ident)])
        ta = ds.interaction_table(format="arrow", original_ids=True)
        V.append(["table_ids", "arrow", _tab(case, _cols("table_ids:arrow", ta.column_names), lambda c: ta.column(c).to_pylist(), "user_id", "item_id",
                                             ident, ident)])
        n = ds.interaction_table(format="numpy", original_ids=True)
        V.append(["table_ids", "numpy", _tab(case, _cols("table_ids:numpy", n.keys()), lambda c: _tolist(n[c]), "user_id", "item_id", _py, _py)])
        p = ds.interaction_matrix(format="pandas", original_ids=True)
        V.append(["table_ids", "matrix-pandas", _tab(case, _cols("table_ids:matrix-pandas", p.columns), lambda c: p[c].tolist(), "user_id", "item_id",
                                                     ident, ident)])
        for fld in fields:
            nm = cname(case, fld)
            p = ds.interaction_matrix(format="pandas", field=nm)
            if list(p.columns) != ["user_num", "item_num", nm]:
                raise ValueError(f"matrix pandas field={nm!r}: columns {list(p.columns)}")
            V.append(["coo", fld, "matrix-pandas-field", p["user_num"].tolist(), p["item_num"].tolist(), _vals(fld, p[nm].tolist()),
                      len(users), len(items)])

    def _sec1():  # CSR / COO
        for fld in [None] + fields:
            nm = None if fld is None else cname(case, fld)
            for legacy in (False, True):
                m = ds.interaction_matrix(format="scipy", field=nm, legacy=legacy)
                V.append(["csr", fld, "scipy" + ("-legacy" if legacy else ""), m.indptr.tolist(), m.indices.tolist(), _vals(fld, m.data.tolist()),
                          int(m.shape[0]), int(m.shape[1])])
                V.append(["nnz", "scipy-csr", int(m.nnz)])
                m = ds.interaction_matrix(format="scipy", field=nm, layout="coo", legacy=legacy)
                V.append(["coo", fld, "scipy" + ("-legacy" if legacy else ""), m.row.tolist(), m.col.tolist(), _vals(fld, m.data.tolist()),
                          int(m.shape[0]), int(m.shape[1])])
            tt = ds.interaction_matrix(format="torch", field=nm)
            V.append(["csr", fld, "torch", tt.crow_indices().tolist(), tt.col_indices().tolist(), _vals(fld, tt.values().tolist()),
                      int(tt.shape[0]), int(tt.shape[1])])
            tt = ds.interaction_matrix(format="torch", field=nm, layout="coo")
            ind = tt.indices()
            V.append(["coo", fld, "torch", ind[0].tolist(), ind[1].tolist(), _vals(fld, tt.values().tolist()), int(tt.shape[0]), int(tt.shape[1])])
            V.append(["nnz", "torch-coo", int(tt._nnz())])
        s = ds.interaction_matrix(format="structure")
        V.append(["csr", None, "structure", s.rowptrs.tolist(), s.colinds.tolist(), [1] * len(s.colinds), int(s.nrows), int(s.ncols)])
        V.append(["nnz", "csr-structure", int(s.nnz)])
        iset = ds.interactions().matrix()
        cs = iset.coo_structure()
        V.append(["coo", None, "coo-structure", cs.row_numbers.tolist(), cs.col_numbers.tolist(), [1] * len(cs.row_numbers), int(cs.nrows), int(cs.ncols)])
        try:
            V.append(["nnz", "coo-structure", int(cs.nnz)])
        except Exception as e:
            V.append(["nnz", "coo-structure", f"{type(e).__name__}"])
        V.append(["nnz", "interaction_count", int(ds.interaction_count)])

    def _sec2():  # rows
        def row_obs(il):
            nums = il.numbers().tolist()
            ids = [_py(x) for x in il.ids().tolist()]
            # an ItemList drops a field whose values are all missing (documented): such a field reads as missing values
            names = [cname(case, a) for a in fields]
            at = _attr_vals(case, names, lambda a: None if il.field(a) is None else _tolist(il.field(a)), len(nums))
            return [[i, k, a] for i, k, a in zip(ids, nums, at)]

        for u in list(case["uids"]):
            il = ds.user_row(u)
            V.append(["user_row", u, None if il is None else row_obs(il)])
        for k in range(len(users)):
            V.append(["user_row_num", k, row_obs(ds.user_row(user_num=k))])

    def _sec3():  # statistics
        for cls, st, other in (("user", ds.user_stats(), "item_count"), ("item", ds.item_stats(), "user_count")):
            idx = [_py(x) for x in st.index.tolist()]
            rows = []
            for k in range(len(st)):
                r = st.iloc[k]
                rp = tp = None
                if "rating_count" in st.columns:
                    mean = r["mean_rating"]
                    rp = [int(r["rating_count"]), None if pd.isna(mean) else fjson(frac_of_float(mean))]
                if "first_time" in st.columns:
                    ft, lt = r["first_time"], r["last_time"]
                    tp = [None if pd.isna(ft) else _int(ft), None if pd.isna(lt) else _int(lt)]
                rows.append([int(r["record_count"]), int(r[other]), int(r["count"]), rp, tp])
            V.append(["stats", cls, idx, rows])

    def _sec4():  # vocabulary look-ups
        for cls, voc, pool in (("user", ds.users, case["uids"]), ("item", ds.items, case["iids"])):
            for t_ in pool:
                n_ = voc.number(t_, missing="none")
                try:
                    n2 = voc.number(t_)
                    raised = False
                except KeyError:
                    n2, raised = None, True
                V.append(["number", cls, t_, None if n_ is None else int(n_), None if n2 is None else int(n2), raised])
            neg = voc.numbers(_ids_array(case["kind_u"] if cls == "user" else case["kind_i"], pool, "numpy"), missing="negative").tolist()
            try:
                voc.numbers(_ids_array(case["kind_u"] if cls == "user" else case["kind_i"], pool, "numpy"))
                raised = False
            except KeyError:
                raised = True
            V.append(["numbers", cls, list(pool), neg, raised])
            size = len(voc)
            nums = list(range(size))[::-1]
            V.append(["terms", cls, nums, [_py(x) for x in voc.terms(nums).tolist()] if size else []])
            bad = []
            for probe in ([-1], [size]):
                try:
                    voc.terms(probe)
                    bad.append(False)
                except IndexError:
                    bad.append(True)
            obs.setdefault("terms_out_of_range_raise", []).append(bad)

    def _sec5():  # record tables / matrix frames restricted to one attribute (fields=[name], field=name), by numbers and by original ids
        for fld in fields:
            nm = cname(case, fld)
            for fmt in ("arrow", "pandas", "matrix-pandas"):
                for byid in (False, True):
                    label = f"{fmt}:{'ids' if byid else 'numbers'}"
                    try:
                        if fmt == "matrix-pandas":
                            if not byid:
                                continue                  # dumped with the record tables
                            tb = ds.interaction_matrix(format="pandas", field=nm, original_ids=True)
                        else:
                            tb = ds.interaction_table(format=fmt, fields=[nm] if (len(nm) + byid) % 2 else nm, original_ids=byid)
                        if fmt == "arrow":
                            names_, get = list(tb.column_names), (lambda c, tb=tb: tb.column(c).to_pylist())
                        else:
                            names_, get = list(tb.columns), (lambda c, tb=tb: tb[c].tolist())
                        uc, ic = ("user_id", "item_id") if byid else ("user_num", "item_num")
                        if names_ != [uc, ic, nm]:
                            raise ValueError(f"columns {names_}")
                        V.append(["table_field", fld, label, [_py(x) for x in get(uc)], [_py(x) for x in get(ic)], _vals(fld, get(nm))])
                    except Exception as e:
                        V.append(["table_field", fld, label, f"{type(e).__name__}: {e}"[:160]])

    for name, fn in (("record tables", _sec0), ("CSR / COO", _sec1), ("rows", _sec2), ("statistics", _sec3), ("vocabulary look-ups", _sec4),
                     ("field tables", _sec5)):
        try:
            fn()
        except Exception as e:
            V.append(["error", name, f"{type(e).__name__}: {e}"[:160]])
    return obs


# ---------------------------------------------------------------------------------------------
# model side
# ---------------------------------------------------------------------------------------------


def c_ops(case, um, im):
    out = []
    for o in ops_of(case):
        if o["op"] == "add_entities":
            mp = um if o["cls"] == "user" else im
            dup = "DupError" if o["dup"] == "error" else "DupUpdate"
            out.append(f"AddEntities {'User' if o['cls'] == 'user' else 'Item'} {clist([mp[x] for x in o['ids']], cz)} {dup}")
        elif o["op"] == "add_interactions":
            rows = clist(o["rows"], lambda r: f"({cz(um[r[0]])}, {cz(im[r[1]])}, {c_attrs(row_attrs(case, r))})")
            pol = {"insert": "MInsert", "filter": "MFilter", "error": "MError"}[o["missing"]]
            carried = op_cols(case, o)
            out.append(f"AddInteractions {rows} {clist([a in carried for a in attr_names(case)], cbool)} {pol}")
        elif o["op"] == "filter":
            rem = "None"
            if o["remove"]:
                kd, vals = o["remove"]["kind"], o["remove"]["vals"]
                if kd == "pairs":
                    rem = f"(Some (RemPairs {clist(vals, lambda p: f'({cz(um[p[0]])}, {cz(im[p[1]])})')}))"
                elif kd == "users":
                    rem = f"(Some (RemUsers {clist([um[x] for x in vals], cz)}))"
                else:
                    rem = f"(Some (RemItems {clist([im[x] for x in vals], cz)}))"
            out.append(f"FilterInteractions {copt(qv(o['lo']), cq)} {copt(qv(o['hi']), cq)} {rem}")
        else:
            out.append("Clear")
    return "[" + "; ".join(out) + "]"


def c_attrs(a):
    "attribute values, None = missing"
    return clist(a, lambda v: copt(v, cz))


def c_orow(r, fu=None, fi=None):
    u = r[0] if fu is None else fu[r[0]]
    i = r[1] if fi is None else fi[r[1]]
    return f"({cz(u)}, {cz(i)}, {c_attrs(r[2])})"


def c_field(case, fld):
    if fld is None:
        return "FOnes"
    return f"(FAttr {cnat(attr_names(case).index(fld))})"


def c_views(case, obs, um, im):
    out = []
    for v in obs["views"]:
        k = v[0]
        if k == "users":
            out.append(f"OUsers {clist([um[x] for x in v[1]], cz)}")
        elif k == "items":
            out.append(f"OItems {clist([im[x] for x in v[1]], cz)}")
        elif k == "table":
            out.append(f"OTable {clist(v[2], c_orow)}")
        elif k == "table_ids":
            out.append(f"OTableIds {clist(v[2], lambda r: c_orow(r, um, im))}")
        elif k == "csr":
            out.append(f"OCsr {c_field(case, v[1])} {clist(v[3], cz)} {clist(v[4], cz)} {c_attrs(v[5])} {cz(v[6])} {cz(v[7])}")
        elif k == "coo":
            out.append(f"OCoo {c_field(case, v[1])} {clist(v[3], cz)} {clist(v[4], cz)} {c_attrs(v[5])} {cz(v[6])} {cz(v[7])}")
        elif k == "nnz":
            out.append(f"ONnz {cz(v[2]) if isinstance(v[2], int) else cz(-1)}")
        elif k == "user_row":
            row = "None" if v[2] is None else f"(Some {clist(v[2], lambda r: c_orow(r, im))})"
            out.append(f"OUserRow {cz(um[v[1]])} {row}")
        elif k == "user_row_num":
            out.append(f"OUserRowNum {cz(v[1])} {clist(v[2], lambda r: c_orow(r, im))}")
        elif k == "stats":
            def c_stat(r):
                rp = "None" if r[3] is None else f"(Some ({cz(r[3][0])}, {copt(None if r[3][1] is None else fparse(r[3][1]), cq)}))"
                tp = "None" if r[4] is None else f"(Some ({copt(r[4][0], cz)}, {copt(r[4][1], cz)}))"
                return f"({cz(r[0])}, {cz(r[1])}, {cz(r[2])}, {rp}, {tp})"
            out.append(f"OStats {'User' if v[1] == 'user' else 'Item'} {clist(v[3], c_stat)}")
        elif k == "number":
            mp = um if v[1] == "user" else im
            out.append(f"ONumber {'User' if v[1] == 'user' else 'Item'} {cz(mp[v[2]])} {copt(v[3], cz)}")
        elif k == "numbers":
            mp = um if v[1] == "user" else im
            out.append(f"ONumbers {'User' if v[1] == 'user' else 'Item'} {clist([mp[x] for x in v[2]], cz)} {clist(v[3], cz)} {cbool(v[4])}")
        elif k == "terms":
            mp = um if v[1] == "user" else im
            out.append(f"OTerms {'User' if v[1] == 'user' else 'Item'} {clist(v[2], cz)} {clist([mp[x] for x in v[3]], cz)}")
        elif k == "table_field":
            # a record table restricted to one attribute is the COO view of that attribute in table order
            if isinstance(v[3], str):
                out.append("ONnz (-1)")                   # the view raised: no model value agrees
            elif v[2].endswith(":ids"):
                out.append(f"OCooIds {c_field(case, v[1])} {clist([um[x] for x in v[3]], cz)} {clist([im[x] for x in v[4]], cz)} {c_attrs(v[5])}")
            else:
                out.append(f"OCoo {c_field(case, v[1])} {clist(v[3], cz)} {clist(v[4], cz)} {c_attrs(v[5])} {cz(len(obs['users']))} {cz(len(obs['items']))}")
        else:
            raise KeyError(k)
    return "[" + ";\n  ".join(out) + "]"


def coq_term(case, obs):
    um, im = id_maps(case)
    try:
        views = c_views(case, obs, um, im) if obs["build"] == 0 else "[]"
    except KeyError:
        return "false"       # a view showed an identifier that is not in the case at all
    sch = case["schema"]
    s = f"{{| s_rating := {cbool(sch['rating'])}; s_ts := {cbool(sch['timestamp'])}; s_extra := {cbool(sch['extra'])} |}}"
    if case["driver"] == "builder":
        log = clist(obs["log"], lambda l: f"({cnat(l[0])}, ({clist([um[x] for x in l[1]], cz)}, {clist([im[x] for x in l[2]], cz)}))")
        return f"agree_case {s} {cbool(case['allow_repeats'])} {c_ops(case, um, im)} {log} {cnat(obs['build'])}\n  {views}"
    return f"agree_oneshot {s} {c_ops(case, um, im)} {cnat(obs['build'])}\n  {views}"


# ---------------------------------------------------------------------------------------------
# the property as a predicate on implementation output (independent of the Coq model)
# ---------------------------------------------------------------------------------------------


def expected(case):
    """The property's reading of the operation list on identifiers only: expected error class per operation,
    known identifiers after each operation (as sets), surviving records."""
    known = {"user": None, "item": None}
    recs = []            # (uid, iid, attrs): one value per schema column, None = missing
    cols = set()         # the attribute columns the relationship table carries
    repeats = "allowed" if (case["allow_repeats"] and case["driver"] == "builder") else "forbidden"
    log = []
    sch = case["schema"]
    tspos = 1 if sch["rating"] else 0
    for o in ops_of(case):
        err = 0
        if o["op"] == "add_entities":
            ids = o["ids"]
            cur = known[o["cls"]] or set()
            if len(set(ids)) < len(ids):
                err = 1
            elif o["dup"] == "error" and any(x in cur for x in ids):
                err = 1
            else:
                known[o["cls"]] = cur | set(ids)
        elif o["op"] == "add_interactions":
            rows = o["rows"]
            pol = o["missing"]
            new_known = dict(known)
            for cls, col in (("user", 0), ("item", 1)):
                if pol == "insert":
                    new_known[cls] = (new_known[cls] or set()) | {r[col] for r in rows}
                if new_known[cls] is None:
                    err = 1
                    break
                if pol == "error" and any(r[col] not in new_known[cls] for r in rows):
                    err = 1
                    break
                known[cls] = new_known[cls]      # entities inserted before a later failure stay
            if not err:
                add = [(r[0], r[1], row_attrs(case, r)) for r in rows if r[0] in known["user"] and r[1] in known["item"]]
                allr = recs + add
                dup = len({(a, b) for a, b, _ in allr}) < len(allr)
                if repeats == "present" or not dup:
                    recs, cols = allr, cols | set(op_cols(case, o))
                elif repeats == "allowed":
                    recs, cols, repeats = allr, cols | set(op_cols(case, o)), "present"
                else:
                    err = 1
        elif o["op"] == "filter":
            wants = o["lo"] is not None or o["hi"] is not None
            rem = o["remove"]
            lo_q, hi_q = qv(o["lo"]), qv(o["hi"])
            if wants and not (sch["timestamp"] and "timestamp" in cols):
                err = 3
            elif rem and ((rem["kind"] in ("pairs", "users") and known["user"] is None) or (rem["kind"] in ("pairs", "items") and known["item"] is None)):
                err = 4
            else:
                def keep(r):
                    if wants and not in_window(r[2][tspos], lo_q, hi_q):
                        return False
                    if rem:
                        if rem["kind"] == "pairs" and [r[0], r[1]] in [list(p) for p in rem["vals"]]:
                            return False
                        if rem["kind"] == "users" and r[0] in rem["vals"]:
                            return False
                        if rem["kind"] == "items" and r[1] in rem["vals"]:
                            return False
                    return True
                recs = [r for r in recs if keep(r)]
        elif o["op"] == "clear":
            recs, cols = [], set()
        log.append((err, set(known["user"] or ()), set(known["item"] or ())))
    return log, recs, cols, repeats


def in_window(t, lo, hi):
    "min_time <= t < max_time (exact rationals); a record without a timestamp is in no window"
    if t is None:
        return False
    return (lo is None or lo <= t) and (hi is None or t < hi)


def _ms(recs, idx=None):
    "multiset of (user, item, values of the carried columns)"
    return Counter((u, i, tuple(a) if idx is None else tuple(a[k] for k in idx)) for u, i, a in recs)


def _source(case, u, i):
    "-> (operation index, operation, row) of the input records naming the pair (u, i)"
    return [(k, o, r) for k, o in enumerate(ops_of(case)) if o["op"] == "add_interactions" for r in o["rows"] if (r[0], r[1]) == (u, i)]


def _windows_after(case, k):
    return [(j, qv(o["lo"]), qv(o["hi"])) for j, o in enumerate(ops_of(case))
            if j > k and o["op"] == "filter" and (o["lo"] is not None or o["hi"] is not None)]


def oracle(case, obs):
    v = []

    def bad(key, what):
        if all(k != key for k, _ in v):
            v.append((key, what))

    log, recs, cols, repeats = expected(case)
    first_err = next((e for e, _, _ in log if e), 0)
    if case["driver"] == "builder":
        prev_u, prev_i = [], []
        prev_known = (None, None)
        for k, ((e, ku, ki), o) in enumerate(zip(log, obs["log"])):
            if o[0] != e:
                opx = ops_of(case)[k]
                opk = opx["op"]
                if opk == "add_interactions" and opx["missing"] == "error" and e == 1 and o[0] == 0:
                    pu = prev_known[0] or set()
                    pi = prev_known[1] or set()
                    unk_u = sorted({r[0] for r in opx["rows"] if r[0] not in pu}, key=str)
                    unk_i = sorted({r[1] for r in opx["rows"] if r[1] not in pi}, key=str)
                    bad("unknown-id-not-reported:error",
                        f"operation {k}: add_interactions(missing='error') raised nothing although the batch names identifiers unknown to the "
                        f"dataset (users {unk_u}, items {unk_i}; known users {sorted(pu, key=str)}, items {sorted(pi, key=str)})")
                else:
                    extra = ""
                    if opk == "add_interactions":
                        pu, pi = prev_known[0] or set(), prev_known[1] or set()
                        extra = (f"; policy missing={opx['missing']!r}, identifiers of the batch unknown to the dataset: users "
                                 f"{sorted({r[0] for r in opx['rows'] if r[0] not in pu}, key=str)}, items "
                                 f"{sorted({r[1] for r in opx['rows'] if r[1] not in pi}, key=str)}")
                    bad(f"op-outcome:{opk}:{e}->{o[0]}", f"operation {k} ({opk}) ended with error class {o[0]}, the property expects {e}" + extra)
                return v
            prev_known = (ku, ki)
            for name, prev, now, want in (("user", prev_u, o[1], ku), ("item", prev_i, o[2], ki)):
                if now[: len(prev)] != prev:
                    bad("numbers-changed", f"{name} numbers changed after operation {k}: {prev} -> {now}")
                if len(set(now)) != len(now):
                    bad("duplicate-number", f"{name} identifiers are not one-to-one with numbers after operation {k}: {now}")
                if set(now) != want:
                    bad("known-set", f"{name} identifiers after operation {k} are {sorted(now)}, expected {sorted(want)}")
                inc = now[len(prev):]
                if inc != sorted(inc):
                    bad("increment-not-ascending", f"{name} identifiers added by operation {k} are not in ascending order: {inc}")
            prev_u, prev_i = o[1], o[2]
        want_build = 2 if repeats == "present" else 0
    else:
        want_build = first_err
    if obs["build"] != want_build:
        bad(f"build-outcome:{want_build}->{obs['build']}", f"building ended with error class {obs['build']}, the property expects {want_build}")
        return v
    if obs["build"]:
        return v
    users, items = obs["users"], obs["items"]
    ku, ki = log[-1][1] if log else set(), log[-1][2] if log else set()
    if set(users) != ku or len(set(users)) != len(users) or set(items) != ki or len(set(items)) != len(items):
        bad("vocabulary", f"built vocabularies {users} / {items} are not the known identifiers {sorted(ku)} / {sorted(ki)} one-to-one")
        return v
    if case["driver"] == "fidf" and (users != sorted(users) or items != sorted(items)):
        bad("one-shot-not-ascending", f"one-shot build: identifiers are not numbered in ascending order: {users} / {items}")
    if obs["entity_numbers"] != [list(range(len(users))), list(range(len(items)))]:
        bad("numbers-not-contiguous", f"entity numbers are not 0..n-1: {obs['entity_numbers']}")
    if obs["counts"] != [len(users), len(items), len(recs)]:
        bad("counts", f"user/item/interaction counts {obs['counts']} != {[len(users), len(items), len(recs)]}")
    names = [a for a in attr_names(case) if a in cols]
    idx = [k for k, a in enumerate(attr_names(case)) if a in cols]
    want = _ms(recs, idx)
    tv = next((x for x in obs["views"] if x[0] == "table_ids"), None)
    if tv is not None:
        try:
            got = Counter((u, i, tuple(a)) for u, i, a in tv[2])
        except (TypeError, ValueError):
            got = Counter()
        for (u, i, a), _n in (got - want).items():
            for opx in ops_of(case):
                if opx["op"] != "add_interactions":
                    continue
                for r in opx["rows"]:
                    if tuple(row_attrs(case, r)[k] for k in idx) == a and (r[0], r[1]) != (u, i) and (r[0] == u or r[0] not in ku) and (r[1] == i or r[1] not in ki):
                        bad(f"unknown-id-mapped:{opx['missing']}",
                            f"the input record (user {r[0]!r}, item {r[1]!r}) names an identifier unknown to the dataset "
                            f"(known users {sorted(ku, key=str)}, items {sorted(ki, key=str)}) but appears in the dataset attached to "
                            f"user {u!r}, item {i!r} (policy missing={opx['missing']!r})")
        tspos = 1 if case["schema"]["rating"] else 0
        got_pairs, want_pairs = {(u, i) for u, i, _ in got}, {(u, i) for u, i, _ in want}
        for u, i, a in recs:
            if (u, i) in got_pairs:
                continue
            # a surviving input record is in no view: say which record, how it entered and what is special about it
            for k, opx, r in _source(case, u, i)[-1:]:
                ra = row_attrs(case, r)
                holes = [n for n, x in zip(attr_names(case), ra) if x is None and n in op_cols(case, opx)]
                wins = _windows_after(case, k)
                if holes:
                    bad(f"record-lost:{opx['missing']}:missing-value",
                        f"the input record (user {u!r}, item {i!r}, {dict(zip(attr_names(case), ra))}) of operation {k} (policy "
                        f"missing={opx['missing']!r}) names known identifiers and has no value for {holes}; it must be kept but is in no view")
                elif wins and case["schema"]["timestamp"]:
                    bad("time-window:lost-inside",
                        f"the input record (user {u!r}, item {i!r}) of operation {k} has timestamp {ra[tspos]}, inside every time window applied "
                        f"afterwards ({[(j, str(lo_), str(hi_)) for j, lo_, hi_ in wins]}: min_time <= t < max_time), but is in no view")
                else:
                    bad(f"record-lost:{opx['missing']}", f"the input record (user {u!r}, item {i!r}) of operation {k} (policy "
                        f"missing={opx['missing']!r}) must be kept but is in no view")
        for (u, i) in sorted(got_pairs - want_pairs, key=str):
            for k, opx, r in _source(case, u, i)[-1:]:
                t_ = row_attrs(case, r)[tspos] if case["schema"]["timestamp"] else None
                out = [(j, str(lo_), str(hi_)) for j, lo_, hi_ in _windows_after(case, k) if not in_window(t_, lo_, hi_)]
                if out:
                    bad("time-window:kept-outside",
                        f"the input record (user {u!r}, item {i!r}) of operation {k} has timestamp {t_}, outside the time window of operation(s) "
                        f"{out} (min_time <= t < max_time), but is still in the dataset")

    def proj(fld):
        if fld is None:
            return Counter((u, i, (1,)) for u, i, _ in recs)
        k = attr_names(case).index(fld)
        return Counter((u, i, (a[k],)) for u, i, a in recs)

    # every table-like view carries exactly the link (or id) columns and the attribute columns of the records, whatever they are called
    carried = [cname(case, a) for a in names]
    for label, got_cols in obs.get("view_columns", []):
        link = ["user_id", "item_id"] if label.startswith("table_ids") else [] if label == "attribute_names" else ["user_num", "item_num"]
        lost = [c for c in carried if c not in got_cols]
        alien = [c for c in got_cols if c not in link + carried]
        if lost or alien or len(got_cols) != len(set(got_cols)) or any(c not in got_cols for c in link):
            bad(f"view-columns:{label}", f"the view {label} has the columns {got_cols}; the records carry the attribute columns {carried}"
                + (f": attribute column(s) {lost} (name class {[name_class(c) for c in lost]}) are missing from the view" if lost else "")
                + (f": unexpected column(s) {alien}" if alien else ""))

    for view in obs["views"]:
        kind = view[0]
        try:
            if kind == "error":
                bad(f"view-error:{view[1]}", f"view group '{view[1]}' raised {view[2]}")
            elif kind in ("users", "items"):
                if view[1] != (users if kind == "users" else items):
                    bad("entity-ids", "entities().ids() differs from the vocabulary")
            elif kind == "table":
                got = Counter((users[u], items[i], tuple(a)) for u, i, a in view[2])
                if got != want:
                    bad(f"view:table:{view[1]}", f"record table ({view[1]}) denotes {sorted(got.elements())[:6]}.. instead of the {len(recs)} surviving records")
            elif kind == "table_ids":
                got = Counter((u, i, tuple(a)) for u, i, a in view[2])
                if got != want:
                    bad(f"view:table_ids:{view[1]}", f"record table with original ids ({view[1]}) does not denote the surviving records")
            elif kind == "csr":
                _, fld, name, ptrs, colinds, vals, nr, nc = view
                got = Counter()
                ok = (nr, nc) == (len(users), len(items)) and len(ptrs) == nr + 1 and ptrs[0] == 0 and ptrs[-1] == len(colinds) == len(vals) \
                    and all(a <= b for a, b in zip(ptrs, ptrs[1:]))
                if ok:
                    for r in range(nr):
                        for k in range(ptrs[r], ptrs[r + 1]):
                            got[(users[r], items[colinds[k]], (vals[k],))] += 1
                if not ok or got != proj(fld):
                    bad(f"view:csr:{name}", f"CSR view {name} (field {fld}) does not denote the surviving records: rowptrs {ptrs}, colinds {colinds}")
            elif kind == "coo":
                _, fld, name, rows, colinds, vals, nr, nc = view
                got = Counter((users[r], items[c], (x,)) for r, c, x in zip(rows, colinds, vals))
                if (nr, nc) != (len(users), len(items)) or not len(rows) == len(colinds) == len(vals) or got != proj(fld):
                    bad(f"view:coo:{name}", f"COO view {name} (field {fld}) does not denote the surviving records")
            elif kind == "table_field":
                _, fld, label, *rest = view
                nm = cname(case, fld)
                if len(rest) == 1:
                    bad(f"view-error:table-field:{label}", f"the table restricted to the attribute column {nm!r} (name class {name_class(nm)}; {label}) "
                                                           f"raised {rest[0]}; the records carry the columns {carried}")
                else:
                    us_, is__, vals = rest
                    if label.endswith(":numbers"):
                        us_, is__ = [users[u] for u in us_], [items[i] for i in is__]
                    got = Counter((u, i, (x,)) for u, i, x in zip(us_, is__, vals))
                    if not len(us_) == len(is__) == len(vals) or got != proj(fld):
                        bad(f"view:table-field:{label}", f"the table restricted to the attribute column {nm!r} ({label}) does not denote the "
                                                         f"surviving records' values of that attribute")
            elif kind == "nnz":
                if view[2] != len(recs):
                    bad(f"nnz:{view[1]}", f"number of stored entries reported by {view[1]} is {view[2]}, there are {len(recs)} records")
            elif kind == "user_row":
                u, row = view[1], view[2]
                if u not in ku:
                    if row is not None:
                        bad("unknown-user-row", f"user_row of the unknown identifier {u!r} returned a row")
                elif row is None:
                    bad("known-user-no-row", f"user_row of the known identifier {u!r} returned None")
                else:
                    got = Counter((u, i, tuple(a)) for i, _, a in row)
                    if got != Counter({k: c for k, c in want.items() if k[0] == u}) or any(items[n] != i for i, n, _ in row):
                        bad("view:user_row", f"user_row({u!r}) = {row} does not denote that user's surviving records")
            elif kind == "user_row_num":
                u = users[view[1]]
                got = Counter((u, i, tuple(a)) for i, _, a in view[2])
                if got != Counter({k: c for k, c in want.items() if k[0] == u}):
                    bad("view:user_row_num", f"user_row(user_num={view[1]}) does not denote that user's surviving records")
            elif kind == "stats":
                _, cls, idx, rows = view
                ids = users if cls == "user" else items
                if idx != ids:
                    bad("stats-index", f"{cls} statistics are not indexed by the vocabulary")
                    continue
                col = 0 if cls == "user" else 1
                for e, r in zip(ids, rows):
                    mine = [x for x in recs if x[col] == e]
                    if r[0] != len(mine) or r[2] != len(mine) or r[1] != len({x[1 - col] for x in mine}):
                        bad(f"stats:{cls}:counts", f"{cls} {e!r}: counts {r[:3]} but {len(mine)} surviving records")
                    if "rating" in names:
                        rated = [x[2][0] for x in mine if x[2][0] is not None]      # the records of this entity that carry a rating
                        if r[3] is None or r[3][0] != len(rated):
                            bad(f"stats:{cls}:rating", f"{cls} {e!r}: rating count {r[3] and r[3][0]} but {len(rated)} of its {len(mine)} "
                                                       f"surviving records carry a rating")
                        elif rated:
                            m = fparse(r[3][1]) if r[3][1] is not None else None
                            wantm = Fraction(sum(rated), 2 * len(rated))
                            if m is None or abs(m - wantm) > Fraction(1, 10 ** 9):
                                bad(f"stats:{cls}:mean", f"{cls} {e!r}: mean rating {r[3][1]} != {wantm} (mean of the ratings that exist)")
                        elif r[3][1] is not None:
                            bad(f"stats:{cls}:mean-inactive", f"{cls} {e!r} has no rating but a mean rating {r[3][1]}")
                    elif r[3] is not None:
                        bad(f"stats:{cls}:rating-column", f"{cls} statistics have rating columns but the records carry no rating column")
                    if "timestamp" in names:
                        k = attr_names(case).index("timestamp")
                        times = [x[2][k] for x in mine if x[2][k] is not None]
                        wt = [min(times), max(times)] if times else [None, None]
                        if r[4] != wt:
                            bad(f"stats:{cls}:times", f"{cls} {e!r}: first/last time {r[4]} != {wt}")
                    elif r[4] is not None:
                        bad(f"stats:{cls}:time-column", f"{cls} statistics have time columns but the records carry no timestamp column")
            elif kind == "number":
                _, cls, t_, n_, n2, raised = view
                ids = users if cls == "user" else items
                wantn = ids.index(t_) if t_ in ids else None
                if n_ != wantn or n2 != wantn or raised != (wantn is None):
                    bad("vocab:number", f"{cls} number({t_!r}) = {n_} / {n2} (raised={raised}), expected {wantn}")
            elif kind == "numbers":
                _, cls, ts, neg, raised = view
                ids = users if cls == "user" else items
                wantn = [ids.index(t_) if t_ in ids else -1 for t_ in ts]
                if neg != wantn or raised != (-1 in wantn):
                    bad("vocab:numbers", f"{cls} numbers({ts}) = {neg} (error mode raised={raised}), expected {wantn}")
            elif kind == "terms":
                _, cls, nums, ts = view
                ids = users if cls == "user" else items
                if ts != [ids[n] for n in nums]:
                    bad("vocab:terms", f"{cls} terms({nums}) = {ts}")
        except (IndexError, KeyError, TypeError) as e:
            bad(f"view-undecodable:{kind}", f"view {view[:3]} cannot be decoded: {type(e).__name__}: {e}")
    if any(not all(b) for b in obs.get("terms_out_of_range_raise", [])):
        bad("vocab:terms-range", "terms() accepted a number outside 0..n-1")
    return v


def nontrivial(case, obs):
    if obs["build"]:
        return False
    log, recs, cols, _ = expected(case)
    if len(recs) < 2:
        return False
    active_u = {r[0] for r in recs}
    active_i = {r[1] for r in recs}
    inactive = len(active_u) < len(obs["users"]) or len(active_i) < len(obs["items"])
    unsorted_ = obs["users"] != sorted(obs["users"]) or obs["items"] != sorted(obs["items"])
    first_rows = next((o["rows"] for o in ops_of(case) if o["op"] == "add_interactions" and o["rows"]), [])
    unsorted_input = [r[0] for r in first_rows] != sorted(r[0] for r in first_rows)
    return inactive and (unsorted_ or unsorted_input)


def counters(case, obs):
    yield "driver=" + case["driver"]
    yield "style=" + case["style"]
    yield "ids=" + case["kind_u"] + "/" + case["kind_i"]
    for c in ("dt_u", "dt_i"):
        if case.get(c):
            yield "declared-id-dtype=" + case[c]
    ku, ki = set(case["uids"]), set(case["iids"])
    for o in ops_of(case):
        if o["op"] == "add_interactions":
            for d in {o.get("dtype_u"), o.get("dtype_i")} - {None}:
                yield "interaction-id-dtype=" + d
            if obs["build"] == 0 and any(r[0] not in obs["users"] or r[1] not in obs["items"] for r in o["rows"]):
                yield "rows-with-unknown-id:" + o["missing"]
    yield "build=" + str(obs["build"])
    yield "attrs=" + ",".join(attr_names(case))
    if case["schema"]["extra"]:
        yield "extra-attribute-name-class=" + name_class(cname(case, "extra"))
        if obs["build"] == 0 and cname(case, "extra") in obs.get("columns", []):
            yield "extra-attribute-carried-by-the-table:" + name_class(cname(case, "extra"))
    if case["driver"] == "fidf":
        for role, (nm, explicit) in (case["fidf"].get("incols") or {}).items():
            if role in ("user", "item") or case["schema"][role]:
                yield f"one-shot-input-column:{role}=" + ("canonical" if nm == AUTO_COLS[role][0] else "auto-detected variant" if nm in AUTO_COLS[role]
                                                           else "custom") + (" (passed as *_col)" if explicit else "")
    if case["schema"]["timestamp"]:
        yield "timestamp-type=" + (case.get("ts_kind", "int") if case.get("ts_kind", "int") == "int" else "timestamp[" + case.get("ts_unit", "s") + "]")
    if obs.get("ts_type"):
        yield "timestamp-column-built-as=" + obs["ts_type"]
    allrows = [(o, r) for o in ops_of(case) if o["op"] == "add_interactions" for r in o["rows"]]
    nmiss = sum(1 for o, r in allrows for a, x in zip(attr_names(case), row_attrs(case, r)) if x is None and a in op_cols(case, o))
    yield "missing-values=" + ("none" if nmiss == 0 else "1-3" if nmiss < 4 else "4+")
    for a in attr_names(case):
        for pol in {o["missing"] for o, r in allrows if a in op_cols(case, o) and r[2 + ATTRS.index(a)] is None}:
            yield f"missing-{a}-under:{pol}"
    if any(set(op_cols(case, o)) != set(attr_names(case)) for o in ops_of(case) if o["op"] == "add_interactions"):
        yield "batch-lacking-a-column"
    if obs["build"] == 0:
        for v in obs["views"]:
            if v[0] == "stats" and any(r[3] is not None and r[3][0] < r[0] for r in v[3]):
                yield "stats:rating-count<record-count"
                break
    stamps = {r[3] for _, r in allrows if r[3] is not None}
    for o in ops_of(case):
        if o["op"] == "filter":
            for side in ("lo", "hi"):
                q = qv(o[side])
                if q is not None:
                    yield "time-bound=" + ("whole" if q.denominator == 1 else "fractional") + ":" + o.get("style_" + side, "legacy")
                    if q.denominator != 1 and (q.numerator // q.denominator) in stamps:
                        yield "fractional-bound-with-record-at-its-floor:" + side
                    if q.denominator == 1 and int(q) in stamps:
                        yield "whole-bound-with-record-at-it:" + side
    ops = ops_of(case)
    yield "ops=" + str(min(len(ops), 9))
    for o, l in zip(ops, obs["log"] or [[None]] * len(ops)):
        tag = o["op"] + (":" + o["missing"] if o["op"] == "add_interactions" else "")
        yield "op=" + tag
        if l[0]:
            yield f"op-error={tag}:{l[0]}"
    if not obs["build"]:
        n = len(obs["views"][4][2]) if len(obs["views"]) > 4 else 0
        yield "records=" + ("0" if n == 0 else "1-3" if n < 4 else "4-9" if n < 10 else "10+")
        rows = [v for v in obs["views"] if v[0] == "user_row_num"]
        if any(not r[2] for r in rows):
            yield "has-empty-user-row"
        if obs["users"] != sorted(obs["users"]) or obs["items"] != sorted(obs["items"]):
            yield "vocabulary-not-ascending"


def sample(case, obs):
    return {"case": case, "observation": {"log": obs["log"], "build": obs["build"], "users": obs.get("users"), "items": obs.get("items"),
                                           "views": [v for v in obs["views"] if v[0] in ("table_ids", "stats")][:3]}}


_SHRUNK = [0]


def shrink(case, fails):
    _SHRUNK[0] += 1
    if _SHRUNK[0] > 5:           # every trial rebuilds the dataset and dumps all views: shrink the first few keys only
        return case
    c = dict(case)
    if case["driver"] == "builder":
        c["ops"] = common.shrink_list(case["ops"], lambda xs: fails({**c, "ops": xs}), 40)
        for k, o in enumerate(c["ops"]):
            if o["op"] == "add_interactions" and len(o["rows"]) > 1:
                def with_rows(rows, k=k, o=o):
                    ops = list(c["ops"])
                    ops[k] = {**o, "rows": rows}
                    return {**c, "ops": ops}
                rows = common.shrink_list(o["rows"], lambda xs: fails(with_rows(xs)), 25)
                c = with_rows(rows)
    else:
        f = c["fidf"]
        rows = common.shrink_list(f["rows"], lambda xs: bool(xs) and fails({**c, "fidf": {**f, "rows": xs}}), 30)
        c["fidf"] = {**f, "rows": rows}
    return c
